#!/usr/bin/env python3
"""Syntactic mutation sweep over one source file of pitt-rnel/pyrtma, judged by whole checks (`./check Cnn`).

    tools/mutate_check.py <worktree> <relative file> --checks C09[,C10...] [--only f1,f2] [--skip f1,f2]
                          [--limit N] [--from N] [--lines l1,l2] [--nums n1,n2] [--out file.jsonl] [--timeout S] [--list] [--first-catch]

The worktree is a scratch `git worktree` of /repo (never /repo itself).  For every mutant (comparison / boolean operator
swaps, 0<->1 constants, deleted simple statements, negated conditions, swapped `continue`/`break`, +/- swaps) of the file
the listed checks run with PYRTMA_REPO=<worktree> and with evidence / replays redirected to a scratch directory.  Recorded
per mutant and check: exit code (0 = not seen, 1 = VIOLATION, 2 = machinery failure: the harness should be made robust),
whether the VIOLATION came with a failing input, and the failing clause.  Survivors (every check exit 0) are either
equivalent mutants or behaviour no check looks at: they are listed with the mutated text for triage.
This is a measuring instrument for the correspondence tie, not a check: nothing in MANIFEST.json runs it."""
import ast, json, os, subprocess, sys, hashlib, tempfile, shutil, time


def arg(name, default=None):
    return sys.argv[sys.argv.index(name) + 1] if name in sys.argv else default


wt, rel = sys.argv[1], sys.argv[2]
checks = arg("--checks").split(",")
only = set(arg("--only").split(",")) if arg("--only") else None
skip = set(arg("--skip").split(",")) if arg("--skip") else set()
limit = int(arg("--limit", 10 ** 9))
first = int(arg("--from", 1))        # resume: skip the mutants numbered below this (numbering unchanged)
lines_only = set(int(x) for x in arg("--lines").split(",")) if arg("--lines") else None
nums_only = set(int(x) for x in arg("--nums").split(",")) if arg("--nums") else None   # re-run single mutants by their number in the full enumeration (--list)
timeout = int(arg("--timeout", 1500))
out = open(arg("--out"), "a") if arg("--out") else sys.stdout
assert os.path.realpath(wt) != "/repo"
path = os.path.join(wt, rel)
src = open(path).read()
tree = ast.parse(src)
# scratch (evidence / replays of the mutant runs) next to the output file, not in /tmp's root where cleaners roam
scratch = tempfile.mkdtemp(prefix="mutchk_", dir=os.path.dirname(os.path.abspath(arg("--out"))) if arg("--out") else None)
HERE = os.path.dirname(os.path.dirname(os.path.abspath(__file__)))  # the clone this tool lives in (never a fixed /verif)

CMP = {ast.Lt: ast.LtE, ast.LtE: ast.Lt, ast.Gt: ast.GtE, ast.GtE: ast.Gt, ast.Eq: ast.NotEq, ast.NotEq: ast.Eq,
       ast.In: ast.NotIn, ast.NotIn: ast.In, ast.Is: ast.IsNot, ast.IsNot: ast.Is}


def is_log_call(n):
    """logging / print statements: no check looks at their text"""
    if isinstance(n, ast.Expr) and isinstance(n.value, ast.Call):
        t = ast.unparse(n.value.func)
        return t == "print" or ".logger." in t or t.startswith("logger.") or t.startswith("warnings.")
    return False


class Collector(ast.NodeVisitor):
    def __init__(self):
        self.sites = []
        self.func = []

    def visit_FunctionDef(self, n):
        self.func.append(n.name)
        self.generic_visit(n)
        self.func.pop()

    visit_AsyncFunctionDef = visit_FunctionDef

    def generic_visit(self, n):
        f = self.func[-1] if self.func else ""
        if (only is None or f in only) and f not in skip:
            if isinstance(n, ast.Compare):
                for i, op in enumerate(n.ops):
                    if type(op) in CMP:
                        self.sites.append(("cmp", n, i, f))
            if isinstance(n, ast.BoolOp):
                self.sites.append(("bool", n, 0, f))
            if isinstance(n, ast.Constant) and isinstance(n.value, int) and not isinstance(n.value, bool) and n.value in (0, 1):
                self.sites.append(("const", n, 0, f))
            if isinstance(n, ast.Constant) and isinstance(n.value, bool):
                self.sites.append(("boolconst", n, 0, f))
            if isinstance(n, (ast.If, ast.While, ast.IfExp)):
                self.sites.append(("negcond", n, 0, f))
            if isinstance(n, (ast.Expr, ast.Assign, ast.AugAssign)) and f and not (
                    isinstance(n, ast.Expr) and isinstance(n.value, ast.Constant)) and not is_log_call(n):
                self.sites.append(("del", n, 0, f))
            if isinstance(n, (ast.Continue, ast.Break)):
                self.sites.append(("loopctl", n, 0, f))
            if isinstance(n, ast.BinOp) and isinstance(n.op, (ast.Add, ast.Sub)):
                self.sites.append(("arith", n, 0, f))
        super().generic_visit(n)


c = Collector(); c.visit(tree)


def apply(kind, node, i):
    if kind == "cmp":
        old = node.ops[i]; node.ops[i] = CMP[type(old)]()
        return lambda: node.ops.__setitem__(i, old)
    if kind == "bool":
        old = node.op; node.op = ast.Or() if isinstance(old, ast.And) else ast.And()
        return lambda: setattr(node, "op", old)
    if kind == "const":
        old = node.value; node.value = 1 - old
        return lambda: setattr(node, "value", old)
    if kind == "boolconst":
        old = node.value; node.value = not old
        return lambda: setattr(node, "value", old)
    if kind == "negcond":
        old = node.test; node.test = ast.UnaryOp(op=ast.Not(), operand=old)
        return lambda: setattr(node, "test", old)
    if kind == "del":
        saved = dict(node.__dict__); cls = node.__class__
        node.__class__ = ast.Pass
        for k in list(node.__dict__):
            if k not in ("lineno", "col_offset", "end_lineno", "end_col_offset"):
                del node.__dict__[k]

        def undo():
            node.__class__ = cls; node.__dict__.clear(); node.__dict__.update(saved)
        return undo
    if kind == "loopctl":
        cls = node.__class__; node.__class__ = ast.Break if cls is ast.Continue else ast.Continue
        return lambda: setattr(node, "__class__", cls)
    if kind == "arith":
        old = node.op; node.op = ast.Sub() if isinstance(old, ast.Add) else ast.Add()
        return lambda: setattr(node, "op", old)
    raise ValueError(kind)


def run_check(prop):
    ev, rp = os.path.join(scratch, "evidence"), os.path.join(scratch, "replays")
    shutil.rmtree(rp, ignore_errors=True)
    os.makedirs(scratch, exist_ok=True)
    env = dict(os.environ, PYRTMA_REPO=wt, VERIF_EVIDENCE_DIR=ev, VERIF_REPLAYS_DIR=rp, VERIF_NOCACHE="1")
    t0 = time.time()
    try:
        p = subprocess.run([os.path.join(HERE, "check"), prop], capture_output=True, text=True, env=env, timeout=timeout, cwd=HERE)
        rc, text = p.returncode, p.stdout + p.stderr
    except subprocess.TimeoutExpired:
        rc, text = 2, "timeout"
    r = {"rc": rc, "s": round(time.time() - t0)}
    vl = [l for l in text.splitlines() if l.startswith("VIOLATION")]
    if rc == 1 and not vl:
        rc = 2      # exit 1 without a VIOLATION line is an uncaught exception of the framework, not a verdict
    r["rc"] = rc
    if vl:
        r["nofail"] = vl[0].endswith("no-failing-input-found")
        try:
            f = sorted(os.listdir(rp))[0]
            b = json.load(open(os.path.join(rp, f)))
            r["clause"] = str(b.get("clause") or b.get("no_longer_checks"))[:140]
        except Exception:
            pass
    elif rc != 0:
        r["tail"] = text[-300:]
    return r


seen = {hashlib.sha1(ast.unparse(tree).encode()).hexdigest()}
n = 0
survivors = []
try:
    for kind, node, i, f in c.sites:
        if n >= limit:
            break
        if lines_only is not None and getattr(node, "lineno", 0) not in lines_only:
            continue
        before = ast.unparse(node)[:120] if kind != "del" else ast.unparse(node)[:120]
        undo = apply(kind, node, i)
        try:
            text = ast.unparse(tree)
            after = ast.unparse(node)[:120]
        finally:
            undo()
        h = hashlib.sha1(text.encode()).hexdigest()
        if h in seen:
            continue
        seen.add(h)
        try:
            compile(text, rel, "exec")
        except SyntaxError:
            continue
        n += 1
        if n < first or (nums_only is not None and n not in nums_only):
            continue
        if "--list" in sys.argv:        # dry run: what would be applied (no check runs)
            print(json.dumps({"n": n, "kind": kind, "func": f, "line": getattr(node, "lineno", 0), "before": before,
                              "after": after}), file=out, flush=True)
            continue
        open(path, "w").write(text)
        try:
            res = {}
            for p in checks:
                res[p] = run_check(p)
                if "--first-catch" in sys.argv and res[p]["rc"] == 1 and ("nofail" in res[p]):
                    break                      # (the later checks are not run: the mutant is caught)
        finally:
            open(path, "w").write(src)
        rec = {"n": n, "kind": kind, "func": f, "line": getattr(node, "lineno", 0), "before": before, "after": after,
               "checks": res, "caught": any(r["rc"] == 1 for r in res.values()),
               "machinery": any(r["rc"] not in (0, 1) for r in res.values())}
        if not rec["caught"]:
            survivors.append(rec)
        print(json.dumps(rec), file=out, flush=True)
    print(json.dumps({"total": n, "survivors": len(survivors)}), file=out, flush=True)
finally:
    open(path, "w").write(src)
    shutil.rmtree(scratch, ignore_errors=True)
