#!/usr/bin/env python3
"""Confirm a seeded change and run the checks against it.
   tools/seed_eval.py <seed-dir-name> <property> [--tier quick|thorough] [--also C01,C05]
   <seed-dir-name>: directory under /tmp (e.g. seed_C14) containing repo/ (worktree with the change) and out/
Copies out/ to /verif/seeded/<property>[-n]/, confirms (suite passes with the change, demo fails with / passes without),
applies the patch to /repo, runs ./check for the property (and others on request), undoes the patch, writes result.json."""
import json, os, shutil, subprocess, sys
V = "/verif"
name, prop = sys.argv[1], sys.argv[2]
tier = "quick"; also = []
if "--tier" in sys.argv: tier = sys.argv[sys.argv.index("--tier") + 1]
if "--also" in sys.argv: also = sys.argv[sys.argv.index("--also") + 1].split(",")
src = f"/tmp/{name}"
wt = f"{src}/repo"
dst = f"{V}/seeded/{name.replace('seed_', '')}"
os.makedirs(dst, exist_ok=True)
for f in os.listdir(f"{src}/out"):
    shutil.copy(f"{src}/out/{f}", dst)
def run(cmd, cwd=None, env=None, timeout=1800):
    e = dict(os.environ); e.update(env or {})
    p = subprocess.run(cmd, shell=True, cwd=cwd, env=e, capture_output=True, text=True, timeout=timeout)
    return p.returncode, (p.stdout + p.stderr)
demo = "demo.py" if os.path.exists(f"{dst}/demo.py") else ("demo_test.py" if os.path.exists(f"{dst}/demo_test.py") else None)
res = {"property": prop, "seed": name}
def run_demo(tree):
    if demo == "demo.py":
        return run(f"/venv/bin/python {dst}/demo.py", cwd=dst, env={"PYTHONPATH": f"{tree}/src"})[0]
    return run(f"/venv/bin/python -m pytest -q -p no:cacheprovider {dst}/demo_test.py", cwd=dst, env={"PYTHONPATH": f"{tree}/src"})[0]
# 1. patch applies to /repo HEAD, nothing else changed
rc, out = run(f"git -C /repo status --porcelain")
assert out.strip() == "", "/repo is dirty: " + out
rc, out = run(f"git -C /repo apply --check {dst}/patch.diff")
res["applies"] = rc == 0
if rc != 0:
    print("patch does not apply:", out); json.dump(res, open(f"{dst}/result.json", "w"), indent=1); sys.exit(2)
res["demo_without_change"] = run_demo("/repo")
run(f"git -C /repo apply {dst}/patch.diff")
try:
    res["demo_with_change"] = run_demo("/repo")
    rc, out = run("flock /tmp/pyrtma_pytest.lock /venv/bin/python -m pytest -q -p no:cacheprovider --timeout=900 tests", cwd="/repo")
    res["suite_with_change"] = out.strip().splitlines()[-1] if out.strip() else str(rc)
    res["suite_rc"] = rc
    checks = {}
    for p in [prop] + also:
        rc, out = run(f"./check {p} --tier {tier}", cwd=V, timeout=3600)
        lines = [l for l in out.splitlines() if l.startswith(("VIOLATION", "KNOWN-FINDING")) or "machinery" in l]
        checks[p] = {"exit": rc, "lines": lines}
        rp = [l.split("replay=")[1].split()[0] for l in lines if "replay=" in l]
        if rp and os.path.exists(f"{V}/{rp[0]}"):
            body = json.load(open(f"{V}/{rp[0]}"))
            checks[p]["clause"] = (body.get("clause") or str(body.get("no_longer_checks")))[:300]
            checks[p]["kind"] = body.get("kind")
    res["checks"] = checks
finally:
    run("git -C /repo checkout -- .")
rc, out = run("git -C /repo status --porcelain"); assert out.strip() == ""
json.dump(res, open(f"{dst}/result.json", "w"), indent=1)
print(json.dumps(res, indent=1))
