#!/usr/bin/env python3
"""Merge manifest_fragments/Cnn.json into MANIFEST.json (replacing an entry for the same property and dropping it from
not_applicable) and findings_fragments/Cnn.json into known_findings.json.  Usage: tools/merge_fragments.py [commit map json]"""
import json, sys, glob, os
root = os.path.dirname(os.path.dirname(os.path.abspath(__file__)))
m = json.load(open(f"{root}/MANIFEST.json"))
for f in sorted(glob.glob(f"{root}/manifest_fragments/C*.json")):
    e = json.load(open(f))
    pid = e["property_id"]
    m["checks"] = [c for c in m["checks"] if c["property_id"] != pid] + [e]
m["checks"].sort(key=lambda c: c["property_id"])
have = {c["property_id"] for c in m["checks"]}
m["not_applicable"] = [x for x in m.get("not_applicable", []) if x["property_id"] not in have]
for eng in m.get("engines", []):
    eng["serves_properties"] = sorted(have)
json.dump(m, open(f"{root}/MANIFEST.json", "w"), indent=1)
commits = json.load(open(sys.argv[1])) if len(sys.argv) > 1 else {}
k = json.load(open(f"{root}/known_findings.json"))
ids = {f["id"] for f in k["findings"]}
for f in sorted(glob.glob(f"{root}/findings_fragments/C*.json")):
    for e in json.load(open(f)).get("findings", []):
        if e["id"] in ids or e.get("status") not in ("fixed", "open"):
            continue
        if e["status"] == "fixed":
            c = commits.get(e["id"]) or e.get("commit", "?")
            e = {"property": e["property"], "id": e["id"], "status": "fixed", "commit": c.split()[0], "what": e["what"]}
            e["line"] = f"fixed: property={e['property']} {e['commit']} {e['what']}"
        k["findings"].append(e)
        ids.add(e["id"])
json.dump(k, open(f"{root}/known_findings.json", "w"), indent=1)
print("checks:", sorted(have))
print("not_applicable:", [x["property_id"] for x in m["not_applicable"]])
