#!/usr/bin/env python3
"""Re-run the stored seeded changes against the current checks, on a scratch worktree (never /repo).

    tools/seed_regress.py <worktree> [seed ids … | --props C01,C03 | --all] [--tier quick]

For every selected `seeded/<id>/` : apply patch.diff to the worktree (which must be a clean checkout of /repo's HEAD), run
`./check <property>` with PYRTMA_REPO=<worktree> and evidence / replays redirected to a scratch directory, undo.  Prints one
line per seed: exit code, whether the VIOLATION came with a failing input, the failing clause.  Expected: exit 1 with a
failing input for every seed.  Exit code of this tool: 0 iff that is so."""
import json, os, shutil, subprocess, sys, tempfile

V = os.environ.get("VERIF_CLONE") or os.path.dirname(os.path.dirname(os.path.abspath(__file__)))      # the clone this tool lives in
wt = sys.argv[1]
assert os.path.realpath(wt) != "/repo"
args = sys.argv[2:]
tier = args[args.index("--tier") + 1] if "--tier" in args else "quick"
props = set(args[args.index("--props") + 1].split(",")) if "--props" in args else None
ids = [a for a in args if not a.startswith("--") and a not in (tier, ",".join(sorted(props or [])))]
if props:
    ids = [a for a in ids if a != args[args.index("--props") + 1]]
allseeds = sorted(os.listdir(f"{V}/seeded"))
sel = []
for s in allseeds:
    try:
        meta = json.load(open(f"{V}/seeded/{s}/meta.json"))
    except Exception:
        continue
    p = meta.get("property") or s[:3]
    if "--all" in args or (props and p in props) or s in ids:
        sel.append((s, p))
scratch = tempfile.mkdtemp(prefix="seedreg_")
bad = 0
for s, p in sel:
    subprocess.run(["git", "-C", wt, "checkout", "-q", "--", "."], check=True)
    r = subprocess.run(["git", "-C", wt, "apply", f"{V}/seeded/{s}/patch.diff"], capture_output=True, text=True)
    if r.returncode != 0:
        print(f"{s} {p} PATCH-DOES-NOT-APPLY {r.stderr.strip()[:120]}", flush=True)
        bad += 1
        continue
    rp = os.path.join(scratch, "replays")
    shutil.rmtree(rp, ignore_errors=True)
    env = dict(os.environ, PYRTMA_REPO=wt, VERIF_EVIDENCE_DIR=os.path.join(scratch, "evidence"), VERIF_REPLAYS_DIR=rp)
    try:
        c = subprocess.run([f"{V}/check", p, "--tier", tier], capture_output=True, text=True, env=env, cwd=V, timeout=5400)
        rc, out = c.returncode, c.stdout + c.stderr
    except subprocess.TimeoutExpired:
        rc, out = 2, "timeout"
    vl = [l for l in out.splitlines() if l.startswith("VIOLATION")]
    kind, clause = "-", ""
    if vl:
        kind = "no-failing-input-found" if vl[0].endswith("no-failing-input-found") else "failing-input"
        try:
            b = json.load(open(os.path.join(rp, sorted(os.listdir(rp))[0])))
            clause = str(b.get("clause") or b.get("no_longer_checks"))[:110]
        except Exception:
            pass
    ok = rc == 1 and kind == "failing-input"
    bad += 0 if ok else 1
    print(f"{s} {p} rc={rc} {kind} {'OK ' if ok else 'NOT-CAUGHT '}{clause}", flush=True)
subprocess.run(["git", "-C", wt, "checkout", "-q", "--", "."], check=True)
shutil.rmtree(scratch, ignore_errors=True)
sys.exit(1 if bad else 0)
