#!/usr/bin/env python3
"""Syntactic mutation sweep over one source file of pitt-rnel/pyrtma, judged by the manager checks' case stream.

    tools/mutate.py <worktree> <relative file> [--limit N] [--only <func>] [--seed S] [--nums n1,n2,...] [--lines l1,l2,...]

For every mutant (comparison / boolean operator swaps, constant tweaks, deleted simple statements, negated conditions,
swapped `continue`/`break`) of the file inside the scratch worktree (never /repo), runs `harness.mgr_props.compute`
(quick tier, no cache) with PYRTMA_REPO pointing at the worktree and records which properties report a Spec failure, a
correspondence difference, a crash or a harness error.  Survivors (nothing at all changed) are listed at the end: each is
either an equivalent mutant or a behaviour no check looks at.  Results: JSON lines on stdout."""
import ast, copy, json, os, subprocess, sys, hashlib

wt, rel = sys.argv[1], sys.argv[2]
limit = int(sys.argv[sys.argv.index("--limit") + 1]) if "--limit" in sys.argv else 10 ** 9
only = sys.argv[sys.argv.index("--only") + 1] if "--only" in sys.argv else None
seed = sys.argv[sys.argv.index("--seed") + 1] if "--seed" in sys.argv else "0"
lines_only = set(int(x) for x in sys.argv[sys.argv.index("--lines") + 1].split(",")) if "--lines" in sys.argv else None
nums = set(int(x) for x in sys.argv[sys.argv.index("--nums") + 1].split(",")) if "--nums" in sys.argv else None
path = os.path.join(wt, rel)
src = open(path).read()
tree = ast.parse(src)

CMP = {ast.Lt: ast.LtE, ast.LtE: ast.Lt, ast.Gt: ast.GtE, ast.GtE: ast.Gt, ast.Eq: ast.NotEq, ast.NotEq: ast.Eq,
       ast.In: ast.NotIn, ast.NotIn: ast.In, ast.Is: ast.IsNot, ast.IsNot: ast.Is}


class Collector(ast.NodeVisitor):
    def __init__(self):
        self.sites = []
        self.func = []

    def visit_FunctionDef(self, n):
        self.func.append(n.name)
        self.generic_visit(n)
        self.func.pop()

    def generic_visit(self, n):
        f = self.func[-1] if self.func else ""
        if only is None or f == only:
            if isinstance(n, ast.Compare):
                for i, op in enumerate(n.ops):
                    if type(op) in CMP:
                        self.sites.append(("cmp", n, i, f))
            if isinstance(n, ast.BoolOp):
                self.sites.append(("bool", n, 0, f))
            if isinstance(n, ast.UnaryOp) and isinstance(n.op, ast.Not):
                self.sites.append(("not", n, 0, f))
            if isinstance(n, ast.Constant) and isinstance(n.value, int) and not isinstance(n.value, bool) and n.value in (0, 1):
                self.sites.append(("const", n, 0, f))
            if isinstance(n, (ast.If, ast.While)):
                self.sites.append(("negcond", n, 0, f))
            if isinstance(n, (ast.Expr, ast.Assign, ast.AugAssign)) and f and not (
                    isinstance(n, ast.Expr) and isinstance(n.value, ast.Constant)):
                # skip pure logging / print statements: they change no protocol behaviour at log level 100 … keep them anyway
                self.sites.append(("del", n, 0, f))
            if isinstance(n, (ast.Continue, ast.Break)):
                self.sites.append(("loopctl", n, 0, f))
            if isinstance(n, ast.BinOp) and isinstance(n.op, (ast.Add, ast.Sub)):
                self.sites.append(("arith", n, 0, f))
        super().generic_visit(n)


c = Collector(); c.visit(tree)


def apply(kind, node, i):
    """mutate in place, return an undo closure"""
    if kind == "cmp":
        old = node.ops[i]; node.ops[i] = CMP[type(old)]()
        return lambda: node.ops.__setitem__(i, old)
    if kind == "bool":
        old = node.op; node.op = ast.Or() if isinstance(old, ast.And) else ast.And()
        return lambda: setattr(node, "op", old)
    if kind == "not":
        old = node.op; node.op = ast.UAdd()     # `not x` -> `+x` is ill-typed; use identity via double not instead
        node.op = old
        saved = (node.operand,)
        parent_fix = ast.UnaryOp(op=ast.Not(), operand=node.operand)
        node.operand = parent_fix               # not (not x)
        return lambda: setattr(node, "operand", saved[0])
    if kind == "const":
        old = node.value; node.value = 1 - old
        return lambda: setattr(node, "value", old)
    if kind == "negcond":
        old = node.test; node.test = ast.UnaryOp(op=ast.Not(), operand=old)
        return lambda: setattr(node, "test", old)
    if kind == "del":
        saved = dict(node.__dict__); cls = node.__class__
        node.__class__ = ast.Pass
        for k in list(node.__dict__):
            if k not in ("lineno", "col_offset", "end_lineno", "end_col_offset"):
                del node.__dict__[k]

        def undo():
            node.__class__ = cls; node.__dict__.clear(); node.__dict__.update(saved)
        return undo
    if kind == "loopctl":
        cls = node.__class__; node.__class__ = ast.Break if cls is ast.Continue else ast.Continue
        return lambda: setattr(node, "__class__", cls)
    if kind == "arith":
        old = node.op; node.op = ast.Sub() if isinstance(old, ast.Add) else ast.Add()
        return lambda: setattr(node, "op", old)
    raise ValueError(kind)


RUN = r'''
import sys, os, json
sys.path.insert(0, "/verif")
os.environ["VERIF_NOCACHE"] = "1"
from harness import common as C; C.use_repo()
from harness import mgr_props as MP
try:
    s = MP.compute(int(os.environ.get("VERIF_SEED", "0")), False)
except BaseException as e:
    print(json.dumps({"harness_error": f"{type(e).__name__}: {e}"[:300]})); sys.exit(0)
corr, prop = {}, {}
for cid, v in s["cases"].items():
    for p in v["corr"]: corr[p] = corr.get(p, 0) + 1
    for p, x in v["prop"].items(): prop.setdefault(p, [0, cid, x[:120]]); prop[p][0] += 1
print(json.dumps({"crashes": s["crashes"], "corr": corr, "prop": prop}))
'''

seen = set()
n = 0
survivors = []
for kind, node, i, f in c.sites:
    if n >= limit:
        break
    undo = apply(kind, node, i)
    try:
        text = ast.unparse(tree)
    finally:
        undo()
    h = hashlib.sha1(text.encode()).hexdigest()
    if h in seen:
        continue
    seen.add(h)
    try:
        compile(text, rel, "exec")
    except SyntaxError:
        continue
    n += 1
    if nums is not None and n not in nums:
        continue
    if lines_only is not None and getattr(node, "lineno", 0) not in lines_only:
        continue
    open(path, "w").write(text)
    try:
        env = dict(os.environ, PYRTMA_REPO=wt, VERIF_SEED=seed)
        p = subprocess.run(["/venv/bin/python", "-c", RUN], capture_output=True, text=True, env=env, timeout=900)
        out = [l for l in p.stdout.splitlines() if l.startswith("{")]
        r = json.loads(out[-1]) if out else {"harness_error": (p.stderr or p.stdout)[-300:]}
    except subprocess.TimeoutExpired:
        r = {"harness_error": "timeout"}
    finally:
        open(path, "w").write(src)
    rec = {"n": n, "kind": kind, "func": f, "line": getattr(node, "lineno", 0), **r}
    caught = bool(r.get("prop")) or bool(r.get("corr")) or bool(r.get("crashes")) or "harness_error" in r
    rec["caught"] = caught
    rec["by_prop"] = sorted(r.get("prop", {}))
    if not caught:
        # show the mutated line
        rec["text"] = ast.unparse(node)[:160] if kind != "del" else "(statement deleted)"
        survivors.append(rec)
    print(json.dumps(rec), flush=True)
print(json.dumps({"total": n, "survivors": len(survivors)}))
