"""Tie B for M7 (Model/Registry.lean): the real `Parser.parse` on generated definition trees against the Lean
model, plus the Spec of C12 (`Spec/Registry.lean: judge`) evaluated on what the real parser did.

A *case* is a JSON-able dict:
    {"core": bool, "root": idx, "root_how": how,
     "files": [{"path": "d1/a.yaml", "empty": bool, "order": [section names in file order], "comments": bool,
                "mdata": [name..], "imports": [{"kind": "file", "target": idx, "how": how} | {"kind": "missing"|"dir"|"badsuffix"}],
                "consts": [name..], "strs": [name..], "aliases": [name..],
                "hosts": [[name, id|None]..], "modules": [[name, id|None]..], "structs": [name..],
                "msgs": [["m", name, id|None, "sig"|"def"] | ["r", entries|None]]}]}
`how` — the way the import string is written: rel | dot | abs | dotdot | symlink | dotdot_missing (`nosuch/../x`) | dslash
(`a//b`) | abs_dotdot | abs_dslash (`//abs`) | through_file (`me.yaml/../x`) | trail_dot (`x.yaml/.`) | up_down (`../../..` to the
root and down again);
reserved `entries`: list of int | str | None (None = a float, "other").

Grammar sent to `drv_registry` (one block per case; files in index order, the shipped core files appended).  The model
resolves every import text itself (Model/ImportPath.lean) — the harness only describes the file system it built:
    PCASE <id> <coreOn> <maxMsg>
    CWD <path>   ROOT <text given to Parser.parse>   COREPATH <path>          (6 hex digits per character)
    DIR <path>   LINK <link path> <target path>   OTHER <path of a regular non-definition file>
    PFILE <resolved absolute path> <empty 0|1>
    IT <import text>..      M <name>..   C/S/A/T <name>..   H/D <name>=<int|?>..
    G <name>=<int|?> | _R=! | _R=<N<int>|S<hex>|O>,...
    OBS ok | OBS err <ExceptionClass>
    TM/TC/TS/TA/TT <name>..  TH/TD/TG <name>=<int>..          registered tables, insertion order
    END
One `_RESERVED_` entry alone (the regular expression of handle_reserve, Model/ResRegex.lean):
    CASE <id> / RX <maxMsg> <N<int>|S<hex>|O> <none|start:end as re.search finds them> <err:<Class>|ok:<name>=<id>,..|ok:-> / END
    CASE <id> / CLS space|digit <every code point the real `re` matches with \\s resp. [0-9]> / END
"""
from __future__ import annotations

import itertools
import logging
import multiprocessing as mp
import os
import shutil
import tempfile
from pathlib import Path
from typing import Any, Dict, Iterable, List, Optional, Tuple

from . import common as C

SECTIONS = ["metadata", "imports", "constants", "string_constants", "aliases", "host_ids", "module_ids",
            "struct_defs", "message_defs"]
HOWS = ["rel", "dot", "abs", "dotdot", "symlink", "dotdot_missing", "dslash", "abs_dotdot", "abs_dslash", "through_file",
        "trail_dot", "up_down"]

# --------------------------------------------------------------------------------------------------
# the shipped core definitions, read with ruamel directly (NOT with pyrtma's parser)
# --------------------------------------------------------------------------------------------------

_core_cache: Dict[str, Any] = {}


def _yaml_load(text: str):
    from ruamel.yaml import YAML
    return YAML(typ="safe", pure=True).load(text)


def _file_from_yaml(path: Path, index_of: Dict[Path, int]) -> Dict[str, Any]:
    data = _yaml_load(path.read_text()) or {}
    f = new_file(path.name)
    f["abs"] = str(path)
    f["itexts"] = [str(imp) for imp in data.get("imports") or []]
    for imp in data.get("imports") or []:
        tgt = (path.parent / imp).resolve()
        f["imports"].append({"kind": "file", "target": index_of[tgt], "how": "rel"})
    f["mdata"] = list((data.get("metadata") or {}).keys())
    f["consts"] = list((data.get("constants") or {}).keys())
    f["strs"] = list((data.get("string_constants") or {}).keys())
    f["aliases"] = list((data.get("aliases") or {}).keys())
    f["hosts"] = [[k, v if isinstance(v, int) else None] for k, v in (data.get("host_ids") or {}).items()]
    f["modules"] = [[k, v if isinstance(v, int) else None] for k, v in (data.get("module_ids") or {}).items()]
    f["structs"] = list((data.get("struct_defs") or {}).keys())
    for k, v in (data.get("message_defs") or {}).items():
        if k == "_RESERVED_":
            ids = v.get("id")
            f["msgs"].append(["r", [e if isinstance(e, (int, str)) else None for e in ids] if isinstance(ids, list) else None])
        else:
            f["msgs"].append(["m", k, v.get("id") if isinstance(v.get("id"), int) else None,
                              "sig" if v.get("fields") is None else "def"])
    return f


def core_files() -> Tuple[List[Dict[str, Any]], int]:
    """Model files of the shipped core tree (core_defs.yaml and what it imports) and MAX_MESSAGE_TYPES."""
    key = str(C.REPO)
    if key not in _core_cache:
        cdir = (C.REPO / "src" / "pyrtma" / "core_defs").resolve()
        root = cdir / "core_defs.yaml"
        order: List[Path] = []

        def visit(p: Path):
            if p in order:
                return
            order.append(p)
            for imp in (_yaml_load(p.read_text()) or {}).get("imports") or []:
                visit((p.parent / imp).resolve())
        visit(root)
        index_of = {p: i for i, p in enumerate(order)}
        files = [_file_from_yaml(p, index_of) for p in order]
        maxmsg = int((_yaml_load(root.read_text()).get("constants") or {}).get("MAX_MESSAGE_TYPES", 10000))
        _core_cache[key] = (files, maxmsg)
    return _core_cache[key]


# --------------------------------------------------------------------------------------------------
# case -> YAML tree
# --------------------------------------------------------------------------------------------------

def new_file(path: str) -> Dict[str, Any]:
    return {"path": path, "empty": False, "order": list(SECTIONS), "comments": False, "mdata": [], "imports": [],
            "consts": [], "strs": [], "aliases": [], "hosts": [], "modules": [], "structs": [], "msgs": []}


def _int_text(v: int, style: int) -> str:
    if v >= 0 and style == 1:
        return hex(v)
    if v >= 0 and style == 2:
        return "0o%o" % v
    return str(v)


def _id_text(v: Optional[int], style: int) -> str:
    return '"not an int"' if v is None else _int_text(v, style)


def file_text(f: Dict[str, Any], import_strings: List[str]) -> str:
    if f["empty"]:
        return "# nothing here\n" if f["comments"] else ""
    cm = f["comments"]
    out: List[str] = ["# generated definition file"] if cm else []
    k = 0
    for sec in f["order"]:
        lines: List[str] = []
        if sec == "metadata" and f["mdata"]:
            lines = [f"  {n}: {i}" for i, n in enumerate(f["mdata"])]
        elif sec == "imports" and import_strings:
            lines = [f"  - {s}" for s in import_strings]
        elif sec == "constants" and f["consts"]:
            lines = [f"  {n}: {7 + i}" for i, n in enumerate(f["consts"])]
        elif sec == "string_constants" and f["strs"]:
            lines = [f'  {n}: "text {i}"' for i, n in enumerate(f["strs"])]
        elif sec == "aliases" and f["aliases"]:
            lines = [f"  {n}: {('int32', 'double', 'uint8')[i % 3]}" for i, n in enumerate(f["aliases"])]
        elif sec == "host_ids" and f["hosts"]:
            lines = [f"  {n}: {_id_text(v, i % 3)}" for i, (n, v) in enumerate(f["hosts"])]
        elif sec == "module_ids" and f["modules"]:
            lines = [f"  {n}: {_id_text(v, (i + 1) % 3)}" for i, (n, v) in enumerate(f["modules"])]
        elif sec == "struct_defs" and f["structs"]:
            for n in f["structs"]:
                lines += [f"  {n}:", "    fields:", "      a: int32", "      b: int32"]
        elif sec == "message_defs" and f["msgs"]:
            for i, m in enumerate(f["msgs"]):
                if m[0] == "m":
                    _, n, v, body = m
                    lines += [f"  {n}:", f"    id: {_id_text(v, i % 3)}"]
                    lines += ["    fields: null"] if body == "sig" else ["    fields:", "      x: double", "      n: int32", "      m: int32"]
                else:
                    lines += ["  _RESERVED_:"]
                    if m[1] is None:
                        lines += ["    id: 5"]
                    elif not m[1]:
                        lines += ["    id: []"]
                    else:
                        lines += ["    id:"]
                        for e in m[1]:
                            lines.append("      - " + ("2.5" if e is None else str(e) if isinstance(e, int) else "'" + e + "'"))
        if lines:
            out.append(f"{sec}:" + ("  # section" if cm and k % 2 == 0 else ""))
            out += lines
            if cm:
                out += ["", "  # a comment line", ""]
            k += 1
    if not out or all(l.startswith("#") or not l for l in out):
        out.append("metadata: null")      # a file with no definitions is still a mapping
    return "\n".join(out) + "\n"


def materialise(case: Dict[str, Any], base: Path) -> Tuple[Any, Dict[str, Any]]:
    """Write the tree; returns (what to hand to Parser.parse, layout) — `layout` describes the file system that was built
    (resolved paths, the import texts as written, directories, links) for the model, which resolves the texts itself."""
    files = case["files"]
    real = [base / f["path"] for f in files]
    for p in real:
        p.parent.mkdir(parents=True, exist_ok=True)
    nlink = 0
    layout: Dict[str, Any] = {"files": [str(p) for p in real], "itexts": [], "dirs": [], "links": [], "others": []}

    def how_path(importer: Path, target: Path, how: str) -> str:
        nonlocal nlink
        importer_dir = importer.parent
        if how == "abs":
            return str(target)
        if how == "abs_dslash":
            return "/" + str(target)
        if how == "abs_dotdot":
            return str(target.parent / "no_such_dir" / ".." / "." / target.name)
        if how == "symlink":
            link = base / f"link{nlink}.yaml"
            nlink += 1
            os.symlink(target, link)
            layout["links"].append([str(link), str(target)])
            return os.path.relpath(link, importer_dir)
        rel = os.path.relpath(target, importer_dir)
        if how == "dot":
            return "./" + rel
        if how == "dotdot":
            return os.path.join("..", importer_dir.name, rel)
        if how == "dotdot_missing":
            return "no_such_dir/../" + rel
        if how == "dslash":
            return ".//" + rel.replace("/", "//")
        if how == "through_file":
            return importer.name + "/../" + rel
        if how == "trail_dot":
            return rel + "/."
        if how == "up_down":
            return "/".join([".."] * (len(importer_dir.parts) + 2)) + str(target)
        return rel

    for f, p in zip(files, real):
        strings: List[str] = []
        for j, imp in enumerate(f["imports"]):
            if imp["kind"] == "file":
                t = imp["target"]
                tgt = real[t] if t < len(real) else Path(core_files()[0][t - len(real)]["abs"])
                strings.append(how_path(p, tgt, imp["how"]))
            elif imp["kind"] == "missing":
                strings.append(f"no_such_file_{j}.yaml")
            elif imp["kind"] == "wrongcase":        # the suffix test is case-blind, the file system is not
                strings.append(os.path.splitext(p.name)[0] + ".YAML")
            elif imp["kind"] == "dir":
                (p.parent / f"adir{j}").mkdir(exist_ok=True)
                layout["dirs"].append(str(p.parent / f"adir{j}"))
                strings.append(f"adir{j}")
            elif imp["kind"] == "dir_yaml":         # a directory whose name ends in .yaml
                (p.parent / f"adir{j}.yaml").mkdir(exist_ok=True)
                layout["dirs"].append(str(p.parent / f"adir{j}.yaml"))
                strings.append(f"./adir{j}.yaml/")
            elif imp["kind"] == "through_file_missing":   # NotADirectoryError from chdir
                strings.append(p.name + f"/x{j}.yaml")
            elif imp["kind"] == "lexical_dir":      # a directory reached only lexically: IsADirectoryError from open
                (p.parent / f"ldir{j}.yaml").mkdir(exist_ok=True)
                layout["dirs"].append(str(p.parent / f"ldir{j}.yaml"))
                strings.append(f"no_such_dir/../ldir{j}.yaml")
            elif imp["kind"] == "empty":
                strings.append("''")
            else:
                (p.parent / f"notes{j}.txt").write_text("constants:\n  X: 1\n")
                layout["others"].append(str(p.parent / f"notes{j}.txt"))
                strings.append(f"notes{j}.txt")
        p.write_text(file_text(f, strings))
        layout["itexts"].append(["" if x == "''" else x for x in strings])
    root = real[case["root"]]
    h = case.get("root_how", "abs")
    layout["cwd"] = None            # the caller's cwd
    if h == "symlink":
        link = base / "rootlink.yaml"
        os.symlink(root, link)
        layout["links"].append([str(link), str(root)])
        layout["root_text"] = str(link)
        return link, layout
    if h in ("rel", "rel_up"):
        here = base / "cwd_here" / "deeper" if h == "rel_up" else root.parent
        here.mkdir(parents=True, exist_ok=True)
        layout["dirs"].append(str(here))
        layout["cwd"] = str(here)
        layout["root_text"] = os.path.relpath(root, here) if h == "rel_up" else "./" + root.name
        return layout["root_text"], layout
    layout["root_text"] = str(root)
    return root, layout


# --------------------------------------------------------------------------------------------------
# running the real parser
# --------------------------------------------------------------------------------------------------

def poison_text(case: Dict[str, Any]) -> str:
    """a file that registers the case's own names in every table (metadata, constants, string constants, aliases, hosts,
    modules, structs, messages — well-formed, distinct, so that every section is handled) and then fails on a duplicate
    message id in its last section: `Parser.parse` raises and calls `clear()`.  Whatever survived `clear()` would meet
    the same names again when the same Parser object is given the case itself."""
    f = new_file("zz_poison.yaml")
    seen = set()

    def ok_name(n) -> bool:
        return isinstance(n, str) and n[:1].isalpha() and n.isidentifier() and n not in seen

    ids = {"hosts": iter(range(20000, 30000)), "modules": iter(range(20000, 30000))}
    for cf in case["files"]:
        for key in ("consts", "strs", "aliases", "structs"):
            for n in cf[key]:
                if ok_name(n):
                    seen.add(n)
                    f[key].append(n)
        for n in cf["mdata"]:
            if isinstance(n, str) and n not in f["mdata"]:
                f["mdata"].append(n)
        for key in ("hosts", "modules"):
            for n, _v in cf[key]:
                if isinstance(n, str) and n[:1].isalpha() and n.isidentifier() and n not in [x[0] for x in f[key]]:
                    f[key].append([n, next(ids[key])])
        for m in cf["msgs"]:
            if m[0] == "m" and ok_name(m[1]):
                seen.add(m[1])
                f["msgs"].append(["m", m[1], 9000 - len(f["msgs"]), "sig"])
    for key in ("consts", "strs", "aliases", "structs"):
        if not f[key]:
            f[key].append(f"ZZP_{key}")
    if not f["mdata"]:
        f["mdata"].append("zzp_meta")
    f["msgs"] += [["m", "ZZP_A", 4001, "sig"], ["m", "ZZP_B", 4001, "sig"]]
    return file_text(f, [])


def run_real(case: Dict[str, Any]) -> Dict[str, Any]:
    """The implementation's observation: {"ok": True, tables...} or {"ok": False, "cls": name, "msg": text}."""
    from pyrtma import parser as P
    base = Path(tempfile.mkdtemp(prefix="pyrtma_verif_c12_")).resolve()
    cwd = os.getcwd()
    try:
        root, layout = materialise(case, base / "t")
        if layout["cwd"] is not None:
            os.chdir(layout["cwd"])
        layout["cwd"] = os.getcwd()
        p = P.Parser(import_coredefs=bool(case["core"]))
        p.logger.handlers.clear()
        p.logger.addHandler(logging.NullHandler())
        p.logger.setLevel(logging.CRITICAL + 10)
        # every second case: the Parser object has failed on another file before (parse() -> clear()); nothing of that
        # may change what it finds in this one
        reused = (len(repr(case)) % 2 == 0)
        layout["parser_reused"] = reused
        if reused:
            bad = base / "zz_poison.yaml"
            bad.write_text(poison_text(case))
            try:
                p.parse(bad)
            except BaseException as e:  # noqa: BLE001 — intended
                if isinstance(e, (KeyboardInterrupt, SystemExit)):
                    raise
        try:
            p.parse(root)
        except BaseException as e:  # noqa: BLE001 — every exception is an observation
            if isinstance(e, (KeyboardInterrupt, SystemExit)):
                raise
            return {"ok": False, "cls": type(e).__name__, "msg": str(e)[:160].replace(str(base), "<tmp>"), "layout": layout}
        obs = {"ok": True, "layout": layout,
               "M": list(p.metadata.keys()), "C": list(p.constants.keys()), "S": list(p.string_constants.keys()),
               "A": list(p.aliases.keys()), "H": [[k, v.value] for k, v in p.host_ids.items()],
               "D": [[k, v.value] for k, v in p.module_ids.items()], "T": list(p.struct_defs.keys()),
               "G": [[k, v.type_id] for k, v in p.message_defs.items()]}
        ids = [[k, v.value] for k, v in p.message_ids.items()]
        if ids != obs["G"]:
            obs["ids_mismatch"] = ids
        # names must equal the dict keys (the registries are keyed by name)
        for tab, reg in (("C", p.constants), ("S", p.string_constants), ("A", p.aliases), ("T", p.struct_defs),
                         ("G", p.message_defs), ("H", p.host_ids), ("D", p.module_ids)):
            if [o.name for o in reg.values()] != list(reg.keys()):
                obs["ids_mismatch"] = f"table {tab}: object names differ from keys"
        return obs
    finally:
        os.chdir(cwd)
        shutil.rmtree(base, ignore_errors=True)
        from . import priv as _PV          # forget the per-instance loggers (named after a private counter)
        _PV.drop_parser_loggers()


# --------------------------------------------------------------------------------------------------
# protocol
# --------------------------------------------------------------------------------------------------

def _hex(s: str) -> str:
    return "".join("%06x" % ord(c) for c in s)


def _entry_tok(e) -> str:
    if isinstance(e, bool):
        return f"N{int(e)}"           # `isinstance(True, int)`: handle_reserve takes a YAML `true` as the id 1
    if isinstance(e, int):
        return f"N{e}"
    if isinstance(e, str):
        return "S" + _hex(e)
    return "O"


def _pairs(l) -> str:
    return " ".join(f"{n}={'?' if v is None else v}" for n, v in l)


def file_block(f: Dict[str, Any], abs_path: str, itexts: List[str]) -> List[str]:
    out = [f"PFILE {_hex(abs_path)} {1 if f['empty'] else 0}"]
    if f["empty"]:
        return out
    if f["mdata"]:
        out.append("M " + " ".join(f["mdata"]))
    if itexts:
        out.append("IT " + " ".join(_hex(t) or "-" for t in itexts))
    for tag, key in (("C", "consts"), ("S", "strs"), ("A", "aliases"), ("T", "structs")):
        if f[key]:
            out.append(tag + " " + " ".join(f[key]))
    if f["hosts"]:
        out.append("H " + _pairs(f["hosts"]))
    if f["modules"]:
        out.append("D " + _pairs(f["modules"]))
    if f["msgs"]:
        toks = []
        for m in f["msgs"]:
            if m[0] == "m":
                toks.append(f"{m[1]}={'?' if m[2] is None else m[2]}")
            elif m[1] is None:
                toks.append("_R=!")
            else:
                toks.append("_R=" + ",".join(_entry_tok(e) for e in m[1]))
        out.append("G " + " ".join(toks))
    return out


def protocol(cid: str, case: Dict[str, Any], obs: Dict[str, Any]) -> List[str]:
    cfiles, maxmsg = core_files()
    lay = obs["layout"]
    lines = [f"PCASE {cid} {1 if case['core'] else 0} {maxmsg}", f"CWD {_hex(lay['cwd'])}", f"ROOT {_hex(lay['root_text'])}",
             f"COREPATH {_hex(cfiles[0]['abs'])}"]
    lines += [f"DIR {_hex(d)}" for d in lay["dirs"]]
    lines += [f"LINK {_hex(l)} {_hex(t)}" for l, t in lay["links"]]
    lines += [f"OTHER {_hex(o)}" for o in lay["others"]]
    for f, ap, it in zip(case["files"], lay["files"], lay["itexts"]):
        lines += file_block(f, ap, it)
    # the shipped core files are always part of the file system (a user file may import them by absolute path)
    for f in cfiles:
        lines += file_block(f, f["abs"], f["itexts"])
    if obs["ok"]:
        lines.append("OBS ok")
        for tag in ("M", "C", "S", "A", "T"):
            if obs[tag]:
                lines.append(f"T{tag} " + " ".join(obs[tag]))
        for tag in ("H", "D", "G"):
            if obs[tag]:
                lines.append(f"T{tag} " + _pairs(obs[tag]))
    else:
        lines.append(f"OBS err {obs['cls']}")
    lines.append("END")
    return lines


def _work(args) -> Tuple[str, Dict[str, Any], Dict[str, Any], List[str]]:
    cid, case = args
    obs = run_real(case)
    return cid, case, obs, protocol(cid, case, obs)


def run_cases(cases: List[Tuple[str, Dict[str, Any]]], procs: Optional[int] = None):
    """[(cid, case)] -> [(cid, case, obs, protocol lines)] using a fork pool (the real parser dominates)."""
    core_files()  # fill the cache before forking
    procs = procs or max(1, min(8, (os.cpu_count() or 2) - 1))
    if len(cases) < 64 or procs == 1:
        return [_work(c) for c in cases]
    ctx = mp.get_context("fork")
    with ctx.Pool(procs) as pool:
        return pool.map(_work, cases, chunksize=max(1, len(cases) // (procs * 8)))


def drive(results) -> Tuple[Dict[str, Dict[str, Any]], Dict[str, str]]:
    lines: List[str] = []
    for _, _, _, blk in results:
        lines += blk
    raw = C.run_driver("registry", lines)
    info = {}
    for ln in raw:
        t = ln.split(" ", 2)
        if len(t) == 3 and t[1] == "INFO":
            info[t[0]] = t[2]
    return C.parse_driver(raw), info


# --------------------------------------------------------------------------------------------------
# the `_RESERVED_` entry syntax: the real pattern, the real `re`, the real handle_reserve
# --------------------------------------------------------------------------------------------------

MODELLED_PATTERN = r"\s*(?P<start>[0-9]+)\s*(\-|to)\s*(?P<end>[0-9]+)\s*"     # what Model/ResRegex.lean: rangeRe spells


def reserve_pattern() -> Tuple[str, str]:
    """(pattern, function) of the `re.<function>(<pattern literal>, e)` call inside Parser.handle_reserve, read from
    the source by `ast` (not imported)"""
    import ast
    src = (C.REPO / "src" / "pyrtma" / "parser.py").read_text()
    tree = ast.parse(src)

    def literal(n):
        return n.value if isinstance(n, ast.Constant) and isinstance(n.value, str) else None

    # `NAME = re.compile(<literal>, ...)` anywhere in the file (module or class level, or inside a function)
    compiled: Dict[str, str] = {}
    for node in ast.walk(tree):
        val = node.value if isinstance(node, (ast.Assign, ast.AnnAssign)) else None
        if (isinstance(val, ast.Call) and isinstance(val.func, ast.Attribute) and val.func.attr == "compile"
                and isinstance(val.func.value, ast.Name) and val.func.value.id == "re" and val.args
                and literal(val.args[0]) is not None):
            tgts = node.targets if isinstance(node, ast.Assign) else [node.target]
            for t in tgts:
                nm = t.id if isinstance(t, ast.Name) else (t.attr if isinstance(t, ast.Attribute) else None)
                if nm:
                    compiled[nm] = literal(val.args[0])
    for node in ast.walk(tree):
        if isinstance(node, ast.FunctionDef) and node.name == "handle_reserve":
            for c in ast.walk(node):
                if not (isinstance(c, ast.Call) and isinstance(c.func, ast.Attribute)):
                    continue
                f, recv = c.func.attr, c.func.value
                # re.search(<literal>, e)
                if isinstance(recv, ast.Name) and recv.id == "re" and c.args and literal(c.args[0]) is not None:
                    return literal(c.args[0]), f
                if f not in ("search", "match", "fullmatch"):
                    continue
                # re.compile(<literal>).search(e)
                if (isinstance(recv, ast.Call) and isinstance(recv.func, ast.Attribute) and recv.func.attr == "compile"
                        and recv.args and literal(recv.args[0]) is not None):
                    return literal(recv.args[0]), f
                # PATTERN.search(e) / self.PATTERN.search(e) / Parser.PATTERN.search(e) with PATTERN = re.compile(<literal>)
                nm = recv.id if isinstance(recv, ast.Name) else (recv.attr if isinstance(recv, ast.Attribute) else None)
                if nm in compiled:
                    return compiled[nm], f
    # last resort: run the code — the compiled pattern objects the module holds and the method names handle_reserve uses
    try:
        import re as _re
        import pyrtma.parser as P
        used = set(P.Parser.handle_reserve.__code__.co_names)
        pats = [v for k, v in list(vars(P).items()) + list(vars(P.Parser).items())
                if isinstance(v, _re.Pattern) and k in used]
        fs = [f for f in ("search", "match", "fullmatch") if f in used]
        if len(pats) == 1 and len(fs) == 1:
            return pats[0].pattern, fs[0]
    except Exception:  # noqa: BLE001
        pass
    # a tree whose handle_reserve matches no pattern we can find is an observation about the tree, not a failure of the
    # framework: the caller falls back to the modelled pattern for the reference column and reports the tie as broken
    return None, None  # type: ignore[return-value]


_WS = [" ", " ", "  ", "\t", "\n", "\r", "\x0b", "\x0c", "\x1c", "\x1f", "\x85", "\xa0", "\u1680", "\u2000", "\u200a", "\u2028",
       "\u2029", "\u202f", "\u205f", "\u3000", " \t ", ""]
_NOT_WS = ["\u200b", "\u180e", "\ufeff", "_", ".", "\x00", "\x1b", "\u2060"]
_SEPS = ["-", "to"]
_BAD_SEPS = ["--", "\u2013", "\u2212", "To", "TO", "t o", "..", ":", "", "~", "- -", "t", "o", "ot", "until", "/"]
_ODD_DIGITS = ["\u0661\u0662", "\uff11\uff12", "\u0967", "\u00b2", "\u2460"]     # digits for \d / str.isdigit(), not for [0-9]


def rx_entries(rng, n: int) -> List[Any]:
    """well-formed and ill-formed entries: every writing of a range, near misses, junk, non-strings"""
    out: List[Any] = []

    def num(big=False):
        v = rng.choice([0, 1, 7, 99, 100, 101, 4999, 9999, 10000, 10001, rng.randrange(0, 12000)])
        if big and rng.random() < 0.1:
            v = rng.choice([1 << 31, 1 << 64, 10 ** 30])
        return v

    def digits(v):
        return rng.choice(["", "", "", "0", "000"]) + str(v)
    # directed
    out += ["10-12", "10 to 12", "10to12", " 10  -\t12 ", "7 8 10-12-99", "10", "10 -- 12", "12-10", "1-101", "1-100", "5-5", "",
            " ", "-", "to", "5-", "-5", "5to", "to5", "-5-7", "5 - -7", "+5-7", "5.0-7", "1e3-2e3", "0x10-0x20", "10-12\n", "\n10-12",
            "10\n-\n12", "10\u00a0-\u00a012", "10\u3000to\u300012", "10\u200b-12", "a10-12b", "10-12-14", "10 11-12", "10 11 - 12 13",
            "10-\u0661\u0662", "\uff11\uff10-12", "9999-10000", "10000-10001", "0-0", "00-000", "007-0012", "5 to6", "5t o6", "5 t-o 6",
            "5-to-6", "5to-6", "5-to6", "to 5-6", "5--6", "5 -6", "5- 6", "1-2 3-4", "3-1 5-6", "x" * 50 + "5-6", "5-6" + "9" * 30,
            "4294967296-4294967297", "18446744073709551616-18446744073709551617",
            True, False, 0, 5, -5, 10000, 10001, 2.5, None, [5], {"a": 1}, 5.0, b"5-6"]
    # every (ws, sep) combination once
    for w in _WS:
        for sp in _SEPS:
            a = num(); b = a + rng.choice([0, 1, 3, 99])
            out.append(f"{w}{a}{w}{sp}{w}{b}{w}")
    while len(out) < n:
        r = rng.random()
        a = num(True); b = a + rng.choice([0, 0, 1, 2, 5, 50, 99, 100, 101]) if rng.random() < 0.85 else max(0, a - rng.randrange(1, 5))
        ws = lambda: rng.choice(_WS)
        if r < 0.35:      # well-formed, any blanks, leading zeros, optional junk around
            pre = rng.choice(["", "", "", "ids ", "x", "7 8 ", "-", "to", "5 ", "5-", "\u0661"])
            post = rng.choice(["", "", "", " incl", "-99", "to 7", "x", ".5", "\uff11", " 3"])
            out.append(f"{pre}{ws()}{digits(a)}{ws()}{rng.choice(_SEPS)}{ws()}{digits(b)}{ws()}{post}")
        elif r < 0.55:    # near misses
            kind = rng.randrange(6)
            if kind == 0:
                out.append(f"{digits(a)}{ws()}{rng.choice(_BAD_SEPS)}{ws()}{digits(b)}")
            elif kind == 1:
                out.append(f"{digits(a)}{rng.choice(_NOT_WS)}{rng.choice(_SEPS)}{digits(b)}")
            elif kind == 2:
                out.append(f"{digits(a)}{rng.choice(_SEPS)}{rng.choice(_NOT_WS)}{digits(b)}")
            elif kind == 3:
                out.append(f"{rng.choice(_ODD_DIGITS)}{rng.choice(_SEPS)}{digits(b)}")
            elif kind == 4:
                out.append(f"{digits(a)}{rng.choice(_SEPS)}{rng.choice(_ODD_DIGITS)}")
            else:
                out.append(rng.choice([f"{digits(a)}", f"{digits(a)}{ws()}{rng.choice(_SEPS)}", f"{rng.choice(_SEPS)}{ws()}{digits(b)}"]))
        elif r < 0.9:     # random strings over the alphabet of the pattern (the regex-equivalence fuzz)
            alpha = "0123456789" + "  --tttooo" + "\t\n\xa0\u2003" + "xT_.\u0661"
            out.append("".join(rng.choice(alpha) for _ in range(rng.randrange(0, 14))))
        else:
            out.append(rng.choice([num(True), -num(), True, False, 2.5, None, [num()], str(num())]))
    return out


def _rx_work(args) -> Dict[str, Any]:
    entry, pattern, maxmsg = args
    import re
    from pyrtma import parser as P
    rec: Dict[str, Any] = {"entry": entry if not isinstance(entry, bytes) else repr(entry)}
    if isinstance(entry, str):
        m = re.search(pattern, entry)
        gd = m.groupdict() if m is not None else None
        rec["re"] = None if gd is None or "start" not in gd or "end" not in gd else [int(gd["start"]), int(gd["end"])]
    p = P.Parser(import_coredefs=False)
    p.logger.handlers.clear(); p.logger.addHandler(logging.NullHandler()); p.logger.setLevel(logging.CRITICAL + 10)
    p.root_path = Path("/nowhere"); p.current_file = Path("/nowhere/defs.yaml")
    try:
        p.handle_reserve("_RESERVED_", {"id": [entry]})
        ids = [[k, int(v.type_id)] for k, v in p.message_defs.items()]
        if [[k, int(v.value)] for k, v in p.message_ids.items()] != ids:
            rec["ids_mismatch"] = True
        rec["impl"] = {"ok": True, "ids": ids}
    except BaseException as e:  # noqa: BLE001
        if isinstance(e, (KeyboardInterrupt, SystemExit)):
            raise
        rec["impl"] = {"ok": False, "cls": type(e).__name__, "msg": str(e)[:120]}
    finally:
        from . import priv as _PV          # forget the per-instance loggers (named after a private counter)
        _PV.drop_parser_loggers()
    return rec


def rx_run(entries: List[Any]) -> Tuple[List[Dict[str, Any]], List[str], Dict[str, Any]]:
    """-> (records, protocol lines, meta): every entry through the real `re.search(<pattern of the source>)` and the real
    handle_reserve; the two character classes over every code point"""
    import re
    pattern, func = reserve_pattern()
    _, maxmsg = core_files()
    meta = {"pattern": pattern, "function": func, "pattern_is_the_modelled_one": pattern == MODELLED_PATTERN and func == "search"}
    if pattern is None:
        meta["pattern_missing"] = True
        pattern = MODELLED_PATTERN
    recs = [_rx_work((e, pattern, maxmsg)) for e in entries]
    lines: List[str] = []
    for k, r in enumerate(recs):
        r["cid"] = f"x{k}"
        e = entries[k]
        reobs = "none" if r.get("re") is None else f"{r['re'][0]}:{r['re'][1]}"
        impl = ("ok:" + (",".join(f"{n}={v}" for n, v in r["impl"]["ids"]) or "-")) if r["impl"]["ok"] else "err:" + r["impl"]["cls"]
        lines += [f"CASE {r['cid']}", f"RX {maxmsg} {_entry_tok(e)} {reobs} {impl}", "END"]
    for kind, pat in (("space", r"\s"), ("digit", r"[0-9]")):
        cre = re.compile(pat)
        pts = [i for i in range(0x110000) if not 0xd800 <= i <= 0xdfff and cre.fullmatch(chr(i))]
        lines += [f"CASE cls_{kind}", f"CLS {kind} " + " ".join(map(str, pts)), "END"]
        meta[f"class_{kind}_size"] = len(pts)
    return recs, lines, meta


# --------------------------------------------------------------------------------------------------
# generators
# --------------------------------------------------------------------------------------------------

# every way of planting one conflict: (tag, item for the first placement, item for the second placement)
# an "item" is (section key, value)
def conflict_pairs(maxmsg: int) -> List[Tuple[str, Tuple[str, Any], Tuple[str, Any]]]:
    out = []
    shared = [("consts", "X"), ("strs", "X"), ("aliases", "X"), ("structs", "X"), ("msgs", ["m", "X", 4242, "sig"]),
              ("msgs", ["m", "X", 4243, "def"])]
    for a in shared:
        for b in shared:
            b2 = b if b[0] != "msgs" else ("msgs", ["m", "X", b[1][2] + 10, b[1][3]])
            out.append((f"name:{a[0]}/{b[0]}", a, b2))
    idforms = [("msgs", ["m", "P", 4300, "sig"]), ("msgs", ["m", "P", 4300, "def"]), ("msgs", ["r", [4300]]),
               ("msgs", ["r", ["4299-4301"]]), ("msgs", ["r", ["4300 to 4310"]]), ("msgs", ["r", [4100, "4290 - 4300"]]),
               ("msgs", ["r", ["x4300to4300"]])]
    for a in idforms:
        for b in idforms:
            b2 = b if b[1][0] == "r" else ("msgs", ["m", "Q", b[1][2], b[1][3]])
            out.append((f"msgid:{a[1][0]}/{b[1][0]}", a, b2))
    out.append(("modid", ("modules", ["MA", 55]), ("modules", ["MB", 55])))
    out.append(("modname", ("modules", ["MA", 56]), ("modules", ["MA", 57])))
    out.append(("hostid", ("hosts", ["HA", 77]), ("hosts", ["HB", 77])))
    out.append(("hostname", ("hosts", ["HA", 78]), ("hosts", ["HA", 79])))
    out.append(("mdata", ("mdata", "VERSION"), ("mdata", "VERSION")))
    return out


def range_items(maxmsg: int) -> List[Tuple[str, Tuple[str, Any]]]:
    """single items at and around every range boundary (in range and out of range)"""
    out = []
    for v in (-1, 0, 1, maxmsg - 1, maxmsg, maxmsg + 1):
        out.append((f"msg{v}", ("msgs", ["m", "RB", v, "sig"])))
        out.append((f"msgdef{v}", ("msgs", ["m", "RB", v, "def"])))
        out.append((f"res{v}", ("msgs", ["r", [v]])))
    out.append(("resrange_hi", ("msgs", ["r", [f"{maxmsg - 1}-{maxmsg + 1}"]])))
    out.append(("resrange_ok", ("msgs", ["r", [f"{maxmsg - 2} to {maxmsg}"]])))
    for v in (-1, 0, 1, 9, 10, 11, 98, 99, 100, 101, 150, 198, 199, 200, 201, 5000):
        out.append((f"mod{v}", ("modules", ["RM", v])))
    for v in (-1, 0, 1, 2, 32766, 32767, 32768, 40000):
        out.append((f"host{v}", ("hosts", ["RH", v])))
    return out


def graph_shapes(n: int) -> Iterable[List[List[int]]]:
    """every import relation on n files (self imports included), as adjacency lists in index order"""
    pairs = [(i, j) for i in range(n) for j in range(n)]
    for mask in range(1 << len(pairs)):
        adj: List[List[int]] = [[] for _ in range(n)]
        for b, (i, j) in enumerate(pairs):
            if mask >> b & 1:
                adj[i].append(j)
        yield adj


def reachable(adj: List[List[int]], root: int = 0) -> List[int]:
    seen: List[int] = []

    def go(i):
        if i in seen:
            return
        seen.append(i)
        for j in adj[i]:
            go(j)
    go(root)
    return seen


def base_case(adj: List[List[int]], core: bool, rng=None, filler: bool = True) -> Dict[str, Any]:
    """files f0..fn-1 with the given import relation; each file carries distinct, conflict-free filler."""
    files = []
    for i, outs in enumerate(adj):
        d = "" if i % 2 == 0 else f"sub{i}/"
        f = new_file(f"{d}f{i}.yaml")
        for j in outs:
            f["imports"].append({"kind": "file", "target": j, "how": rng.choice(HOWS) if rng else "rel"})
        if filler:
            f["consts"] = [f"K{i}"]
            f["structs"] = [f"St{i}"]
            f["msgs"] = [["m", f"Msg{i}", 3000 + i, "def"], ["r", [3100 + 10 * i, f"{3200 + 10 * i}-{3202 + 10 * i}"]]]
            f["modules"] = [[f"Mod{i}", 20 + i]]
            f["hosts"] = [[f"Host{i}", 100 + i]]
        if rng and rng.random() < 0.3:
            f["comments"] = True
        if rng and rng.random() < 0.3:
            o = list(SECTIONS)
            rng.shuffle(o)
            f["order"] = o
        files.append(f)
    return {"core": core, "root": 0, "root_how": rng.choice(["abs", "symlink", "rel", "rel_up"]) if rng else "abs", "files": files}


def add_item(f: Dict[str, Any], item: Tuple[str, Any], front: bool = False):
    key, val = item
    val = list(val) if isinstance(val, list) else val
    if front:
        f[key].insert(0, val)
    else:
        f[key].append(val)


def planted(adj, core, pair, i, j, rng=None) -> Dict[str, Any]:
    c = base_case(adj, core, rng)
    add_item(c["files"][i], pair[1])
    add_item(c["files"][j], pair[2])
    return c


def small_scope(nmax: int, maxmsg: int, rng, sample: Optional[int]) -> List[Tuple[str, Dict[str, Any]]]:
    """every import relation on <= nmax files x conflict-free / every planted pair x every pair of placements;
    `sample` caps the planted cases per shape (seeded choice) — None = all of them"""
    pairs = conflict_pairs(maxmsg)
    out: List[Tuple[str, Dict[str, Any]]] = []
    k = 0
    for n in range(1, nmax + 1):
        for adj in graph_shapes(n):
            out.append((f"s{k}", dict(base_case(adj, False), tag="free")))
            k += 1
            combos = [(p, i, j) for p in pairs for i in range(n) for j in range(n)]
            if sample is not None and len(combos) > sample:
                combos = rng.sample(combos, sample)
            for p, i, j in combos:
                out.append((f"s{k}", dict(planted(adj, False, p, i, j), tag=p[0])))
                k += 1
    return out


NAMES = ["Alpha", "alpha", "Beta", "Gamma", "Delta", "N1", "n1", "N2", "Omega", "Pad", "Zed", "Q7"]
BAD_NAMES = ["_under", "9lives", "_RESERVED_"]


def rand_case(rng, maxmsg: int, malformed: bool) -> Dict[str, Any]:
    n = rng.choice([1, 2, 2, 3, 3, 4, 5, 6])
    core = rng.random() < (0.12 if not malformed else 0.05)
    dens = rng.choice([0.15, 0.3, 0.5])
    adj = [[j for j in range(n) if rng.random() < dens] for _ in range(n)]
    for i in range(n):        # repeated imports of the same file, in a random order
        if adj[i] and rng.random() < 0.3:
            adj[i].append(rng.choice(adj[i]))
        rng.shuffle(adj[i])
    c = base_case(adj, core, rng, filler=False)
    clash = rng.choice([0.0, 0.0, 0.05, 0.15, 0.4])     # how small the name / id pools are
    fresh = itertools.count()

    def name(msg=False):
        if malformed and rng.random() < 0.04:
            # (a message keyed `_RESERVED_` IS the reserved block: generated separately)
            return rng.choice(BAD_NAMES[:2] if msg else BAD_NAMES)
        if rng.random() < clash:
            return rng.choice(NAMES)
        return f"U{next(fresh)}x"

    def ident(kind):
        if malformed and rng.random() < 0.04:
            return None
        r = rng.random()
        if kind == "msg":
            if r < clash:
                return rng.choice([100, 101, 102, 150, 151])
            if r < clash + 0.03:
                return rng.choice([-1, 0, maxmsg, maxmsg + 1, 1 << 31])
            return rng.randrange(100, maxmsg)
        if kind == "mod":
            if r < clash:
                return rng.choice([10, 11, 12])
            if r < clash + 0.05:
                return rng.choice([0, 5, 9, 10, 99, 100, 150, 199, 200, 201, -3])
            return rng.randrange(10, 100) if rng.random() < 0.5 else rng.randrange(200, 30000)
        if r < clash:
            return rng.choice([1, 2, 3])
        if r < clash + 0.05:
            return rng.choice([0, 1, 32767, 32768, -1])
        return rng.randrange(1, 32768)

    def entries():
        es = []
        for _ in range(rng.choice([0, 1, 1, 2, 3])):
            a = rng.choice([100, 101, 150, rng.randrange(100, maxmsg - 200)]) if rng.random() < clash + 0.2 else rng.randrange(100, maxmsg - 200)
            b = a + rng.choice([0, 1, 2, 5, 99])
            form = rng.randrange(9)
            if form <= 1:
                es.append(a)
            elif form == 2:
                es.append(f"{a}-{b}")
            elif form == 3:
                es.append(f"{a} to {b}")
            elif form == 4:
                es.append(f" {a}  -\t{b} ")
            elif form == 5:
                es.append(f"{a}to{b}")
            elif form == 6:
                es.append(f"ids {a} - {b} incl")
            elif form == 7:
                es.append(f"7 8 {a}-{b}-{b + 50}")
            else:
                es.append(f"{a:05d}-{b:06d}")
            if malformed and rng.random() < 0.15:
                es[-1] = rng.choice([None, f"{b + 1}-{a}", f"{a}-{a + 100}", f"{a}-{a + 99}", "soon", str(a), f"{a} to", f"{a}..{b}",
                                     f"{a} -- {b}", f"{a}t o{b}", -a, f"-{a}-{b}"])
        return es

    for f in c["files"]:
        for key in ("mdata", "consts", "strs", "aliases", "structs"):
            for _ in range(rng.choice([0, 0, 1, 2])):
                f[key].append(name() if key != "mdata" else rng.choice(["version", "author", f"md{next(fresh)}"]))
        for _ in range(rng.choice([0, 0, 1, 2])):
            f["hosts"].append([name(), ident("host")])
        for _ in range(rng.choice([0, 0, 1, 2])):
            f["modules"].append([name(), ident("mod")])
        for _ in range(rng.choice([0, 1, 2, 3])):
            if rng.random() < 0.25 and not any(m[0] == "r" for m in f["msgs"]):
                f["msgs"].append(["r", None if (malformed and rng.random() < 0.05) else entries()])
            else:
                f["msgs"].append(["m", name(True), ident("msg"), rng.choice(["sig", "def"])])
        if malformed:
            r = rng.random()
            if r < 0.04:
                f["empty"] = True
            elif r < 0.10:
                f["imports"].insert(rng.randrange(len(f["imports"]) + 1), {"kind": rng.choice(["missing", "dir", "badsuffix", "missing", "dir", "badsuffix", "wrongcase", "dir_yaml",
                                                                                          "through_file_missing", "lexical_dir", "empty"])})
            elif r < 0.16:      # a repeated key inside one mapping
                key = rng.choice(["consts", "strs", "aliases", "structs", "mdata"])
                if f[key]:
                    f[key].append(f[key][0])
                elif f["msgs"]:
                    f["msgs"].append(list(f["msgs"][0]))
            elif r < 0.19 and not core:
                f["path"] = os.path.join(os.path.dirname(f["path"]), "core_defs.yaml")
        if core and rng.random() < 0.1:
            f["imports"].append({"kind": "file", "target": n + rng.randrange(3), "how": "abs"})
    # paths must stay distinct
    seen = set()
    for i, f in enumerate(c["files"]):
        if f["path"] in seen:
            f["path"] = f"dup{i}/" + f["path"]
        seen.add(f["path"])
    c["tag"] = "malformed" if malformed else "random"
    return c


def directed(maxmsg: int) -> List[Tuple[str, Dict[str, Any]]]:
    out = []
    k = 0

    def emit(c, tag):
        nonlocal k
        c["tag"] = tag
        out.append((f"d{k}", c))
        k += 1
    # range boundaries, alone, with and without the shipped core definitions, in a plain file and in one named core_defs.yaml
    for tag, it in range_items(maxmsg):
        for core in (False, True):
            for corename in (False, True):
                c = base_case([[]], core, filler=False)
                if corename:
                    c["files"][0]["path"] = "core_defs.yaml"
                add_item(c["files"][0], it)
                emit(c, "range:" + tag)
    # conflicts with the shipped core definitions
    for it in [("msgs", ["m", "MyExit", 0, "sig"]), ("msgs", ["m", "EXIT", 4000, "sig"]), ("consts", "EXIT"),
               ("consts", "MAX_MODULES"), ("aliases", "MODULE_ID"), ("structs", "RTMA_MSG_HEADER"), ("strs", "DATA_SET"),
               ("msgs", ["r", ["60-63"]]), ("msgs", ["r", [96]]), ("modules", ["MINE", 0]), ("modules", ["MESSAGE_MANAGER", 50]),
               ("hosts", ["LOCAL_HOST", 9]), ("hosts", ["H", 32767]), ("modules", ["MINE", 4]), ("consts", "exit"),
               ("msgs", ["m", "LM_READY2", 96, "def"]), ("msgs", ["m", "Fine", 4001, "def"])]:
        for depth in (0, 1):
            c = base_case([[1], []] if depth else [[]], True)
            add_item(c["files"][depth], it)
            emit(c, "core:" + str(it[0]))
    # a user file importing the shipped core files explicitly (already read: must not be read again)
    c = base_case([[], []], True)
    c["files"][0]["imports"] = [{"kind": "file", "target": 2, "how": "abs"}, {"kind": "file", "target": 1, "how": "rel"},
                                {"kind": "file", "target": 3, "how": "abs"}]
    emit(c, "core:reimport")
    # the same file through every differently written path and from three importers, every way of naming the root
    for rh in ("abs", "symlink", "rel", "rel_up"):
        c = base_case([[1] * len(HOWS) + [2], [2] * len(HOWS), [1, 0] + [0] * len(HOWS)], False)
        for f in c["files"]:
            for imp, h in zip([i for i in f["imports"]][-len(HOWS):] if f is c["files"][2] else f["imports"], HOWS):
                imp["how"] = h
        c["root_how"] = rh
        emit(c, "paths")
    # what is not a definition file, one kind at a time, first / in the middle / after a good import
    for kind in ("missing", "dir", "badsuffix", "wrongcase", "dir_yaml", "through_file_missing", "lexical_dir", "empty"):
        for pos in (0, 1):
            c = base_case([[1], []], False)
            c["files"][0]["imports"].insert(pos, {"kind": kind})
            emit(c, "notafile:" + kind)
    # the reserved block is looked up by its literal key
    for first in ("consts", "strs", "aliases", "structs"):
        c = base_case([[1], []], False)
        add_item(c["files"][1], (first, "_RESERVED_"))
        emit(c, "reserved-as-name")
    return out
