"""Tie B for M10 (Model/DataLog.lean): the real `DataCollection` / `DataSet` / formatters / `QLReader`
of the working tree against the Lean model, plus the Spec of C17 evaluated on what the real code did.

Nothing in /repo is changed.  The code under test is made deterministic from outside:

  * `pyrtma.data_logger.data_collection.threading` is rebound to a shim whose `Event` is a *gated* event
    (`set / clear / is_set / wait` first report to a controller and block until the controller lets the
    calling thread continue; `wait` then returns the flag without blocking) and whose `Thread` runs the
    real `DataCollection.write` loop in a real thread that the controller knows as `W`;
  * `pyrtma.data_logger.data_collection.time` is rebound to a scripted clock;
  * every `DataSet` gets two *instance* attributes `stage_for_write` / `write` that pass through one more
    gate and then call the real method.

A *step* of a thread = the gated operation it is parked at plus all code up to (not including) its next
gated operation.  The recording thread `R` additionally parks at the start of every operation
(`begin`).  A schedule is a string over {R, W}; when it is exhausted the controller continues
round-robin `RW…` for a fixed number of steps.  The same string drives the Lean model, which must produce
the same trace of gate labels and the same files.  The observation is taken at the moment `stop()`
returns (after that the writer is released and the collection closed).

Case grammar sent to `drv_datalog` (see Drv/DataLog.lean):

    CASE <id> S <writePeriod> <tail>
    DS <A|-|t,t,..> <interval|0> <raw|json|ql|csv>    one per data set (A = ALL_MESSAGE_TYPES, - = selects nothing)
    OPS u:<dt>:<type>:<id> t:<dt> p:<dt> r:<dt> … s:<dt>      (exactly one s, last)
    SCHED <string over R W>
    OBS <done|stuck|raise:X> warn=<n> wdead=<0|1>
    TR <label> …                            gate labels in execution order
    F <ds> <ids…>                           one per file of data set <ds>, in file order ('?' = undecodable)
    HDR <hdrsize> <offset of num_data_bytes>   (the next three kinds only when stop() returned)
    ENC <id> <hdrhex> <datahex|-> <jsonhex>  what the formatters read of message <id>
    FB <ds> <hex|->                          bytes of each file of data set <ds>, same order as the F lines
    END

    CASE <id> F <fmt> <hdrsize> <offset of num_data_bytes in the header>
    M <hdrhex> <datahex|->                  one per message, in order
    J <hex of msg.to_json(minify=True)>     one per message (json cases only)
    PART <n> <n> … | <nlast>                sizes of the write() batches, then the size of the finalize batch
    FILE <hex|->                            bytes of the file the real formatter produced
    RD <hdrhex>:<datahex|-> …               what the package's reader (QL) / line decoder gave back
    END
"""
from __future__ import annotations

import io
import json
import logging
import os
import queue
import shutil
import sys
import tempfile
import threading as _real_threading
import _thread
import time as _real_time
from pathlib import Path
from typing import Any, Dict, List, Optional, Sequence, Tuple

from . import common as C

TYPE_IDS = [4001, 4002, 4003, 0, 1]    # 8-byte, 16-byte and 0-byte (signal) payloads; the core signals EXIT (0), KILL (1)
TYPE_SIZES = [8, 16, 0, 0, 0]
ZERO_PAD = 3                           # the data logger passes a fixed-size, zero-padded array as `msg_types`


def real_types(types) -> List[int]:
    """what `DataSet.__init__` is given for a selection of the harness: ALL_MESSAGE_TYPES or the type ids, followed by
    the zero padding of `MDF_ADD_DATA_SET.msg_types` (the code drops entries <= 0: the padding is not a request for
    message type 0, so a data set never selects EXIT unless it selects everything)"""
    if types == "A":
        return [2147483647]
    assert 3 not in types, "type id 0 cannot be selected by a list (it is the padding value)"
    return [TYPE_IDS[t] for t in types] + [0] * ZERO_PAD
FORMATS = ["raw", "json", "quicklogger", "msg_header"]

DEFS_SRC = '''"""hand-written message definitions for the C17 harness (same shape as pyrtma.compile output)"""
import pyrtma
from typing import ClassVar
from pyrtma.message_base import MessageBase, MessageMeta
from pyrtma.message_data import MessageData
from pyrtma.validators import Int32, Uint8, IntArray
from pyrtma.context import _update_context

MT_VDL_A: int = 4001
MT_VDL_B: int = 4002
MT_VDL_C: int = 4003


@pyrtma.message_def
class MDF_VDL_A(MessageData, metaclass=MessageMeta):
    type_id: ClassVar[int] = 4001
    type_name: ClassVar[str] = "VDL_A"
    type_hash: ClassVar[int] = 0x0000A001
    type_size: ClassVar[int] = 8
    type_source: ClassVar[str] = "verif"
    type_def: ClassVar[str] = "'VDL_A'"

    serial: Int32 = Int32()
    twice: Int32 = Int32()


@pyrtma.message_def
class MDF_VDL_B(MessageData, metaclass=MessageMeta):
    type_id: ClassVar[int] = 4002
    type_name: ClassVar[str] = "VDL_B"
    type_hash: ClassVar[int] = 0x0000A002
    type_size: ClassVar[int] = 16
    type_source: ClassVar[str] = "verif"
    type_def: ClassVar[str] = "'VDL_B'"

    serial: Int32 = Int32()
    blob: IntArray[Uint8] = IntArray(Uint8, 12)


@pyrtma.message_def
class MDF_VDL_C(MessageData, metaclass=MessageMeta):
    type_id: ClassVar[int] = 4003
    type_name: ClassVar[str] = "VDL_C"
    type_hash: ClassVar[int] = 0x0000A003
    type_size: ClassVar[int] = 0
    type_source: ClassVar[str] = "verif"
    type_def: ClassVar[str] = "'VDL_C'"


_update_context(__name__)
'''

_ENV: Dict[str, Any] = {}


class Abort(BaseException):
    """raised inside a gated thread to unwind it when a case is torn down"""


def fast_tmp() -> None:
    """Every case creates and removes a directory tree and (QL) a NamedTemporaryFile; on the disk behind /tmp that
    costs ~10 ms per case, more than the case itself.  Where a memory file system is mounted the process-wide default
    of `tempfile` (what TMPDIR would set; the code under test uses the same default) is pointed at it."""
    if os.environ.get("TMPDIR") or tempfile.tempdir:
        return
    shm = "/dev/shm"
    try:
        if os.path.isdir(shm) and os.access(shm, os.W_OK | os.X_OK):
            with tempfile.TemporaryDirectory(prefix="pyrtma_verif_probe_", dir=shm):
                pass
            tempfile.tempdir = shm
    except OSError:
        pass


def env() -> Dict[str, Any]:
    """Import the code under test once per process, write the message definitions module."""
    if _ENV:
        return _ENV
    C.use_repo()
    fast_tmp()
    import pyrtma
    import pyrtma.data_logger  # noqa: F401  (registers the formatters)
    from pyrtma.data_logger import data_collection as dcm
    from pyrtma.data_logger.data_set import DataSet
    from pyrtma.data_logger.metadata import LoggingMetadata
    from pyrtma.data_logger.data_formatter import get_formatter
    from pyrtma.utils.quicklogger_reader import QLReader

    d = os.environ.get("VERIF_DL_DEFS_DIR")      # written once by the parent of a worker pool
    own = not (d and os.path.exists(os.path.join(d, "verif_dl_defs.py")))
    if own:
        d = tempfile.mkdtemp(prefix="pyrtma_verif_dl_")
        write_defs(d)
    defs = os.path.join(d, "verif_dl_defs.py")
    sys.path.insert(0, d)
    import importlib
    mod = importlib.import_module("verif_dl_defs")
    sys.path.remove(d)
    logging.getLogger("data_logger").setLevel(logging.WARNING)
    logging.getLogger("data_logger").propagate = False
    dcm.print = lambda *a, **k: None  # the writer prints when it exits
    _ENV.update(dict(pyrtma=pyrtma, dcm=dcm, DataSet=DataSet, LoggingMetadata=LoggingMetadata,
                     get_formatter=get_formatter, QLReader=QLReader, dir=d, defs=defs, mod=mod,
                     types=[mod.MDF_VDL_A, mod.MDF_VDL_B, mod.MDF_VDL_C, pyrtma.core_defs.MDF_EXIT,
                            pyrtma.core_defs.MDF_KILL],
                     hdr_cls=pyrtma.get_header_cls()))
    if own:
        import atexit
        atexit.register(lambda: shutil.rmtree(d, ignore_errors=True))
    return _ENV


def write_defs(d: str) -> str:
    p = os.path.join(d, "verif_dl_defs.py")
    with open(p, "w") as f:
        f.write(DEFS_SRC)
    return p


def mk_msg(tidx: int, serial: int):
    E = env()
    cls = E["types"][tidx]
    data = cls()
    if tidx == 0:
        data.serial = serial
        data.twice = 2 * serial
    elif tidx == 1:
        data.serial = serial
        data.blob[:] = [(serial * 7 + k) % 256 for k in range(12)]
    hdr = E["hdr_cls"]()
    hdr.msg_type = cls.type_id
    hdr.msg_count = serial
    hdr.send_time = float(serial) + 0.5
    hdr.recv_time = float(serial) + 0.75
    hdr.src_host_id = 0
    hdr.src_mod_id = 10 + serial % 7
    hdr.dest_host_id = 0
    hdr.dest_mod_id = serial % 3
    hdr.num_data_bytes = cls.type_size
    return E["pyrtma"].Message(hdr, data)


def key_of(msg) -> Tuple[bytes, bytes]:
    return (bytes(msg.header), bytes(msg.data))


# ------------------------------------------------------------------------------------------------
# the gate controller and the shims
# ------------------------------------------------------------------------------------------------

class Controller:
    """Hands the processor to exactly one gated thread at a time.

    Two modes.  *park* (set-up and tear-down): a thread arriving at a gate reports to the main thread and waits to be
    released.  *auto* (`run`): the arriving thread itself reads the next letter of the schedule; if it is its own it
    simply goes on, otherwise it releases the other thread and parks.  So a run of k equal letters costs no thread
    switch at all and an alternation one switch per step (the former design had a third, controlling thread and
    two switches per step); the trace and the meaning of a schedule are the same: a step of a thread = the gate it is
    parked at plus all code up to its next gate, and a letter naming a finished thread is skipped."""

    def __init__(self):
        self.arrive: "queue.SimpleQueue[None]" = queue.SimpleQueue()
        self.go = {"R": _thread.allocate_lock(), "W": _thread.allocate_lock()}
        for l in self.go.values():
            l.acquire()                      # binary semaphores, initially 0
        self.done = _thread.allocate_lock()
        self.done.acquire()
        self.at: Dict[str, Any] = {}
        self.tid_of: Dict[int, str] = {}
        self.free = False
        self.abort = False
        self.auto = False
        self.started = False             # did the code under test start a writer thread?
        self.progress = 0
        self.exc: Dict[str, BaseException] = {}
        self.names: Dict[int, str] = {}
        self._sched: Any = iter(())
        self._stop: Any = None
        self._trace: List[str] = []

    def _pick(self) -> Optional[str]:
        """next thread to run according to the schedule (None: schedule exhausted or the stop condition holds)"""
        for t in self._sched:
            if self._stop():
                return None
            if self.at.get(t, "finished") == "finished":      # ended, or (W) never started by the code under test
                continue
            self._trace.append(f"{t}:{self.label(t)}")
            self.progress += 1
            return t
        return None

    def _hand_over(self, me: Optional[str]) -> bool:
        """called by the only running thread; True = `me` itself continues"""
        n = self._pick()
        if n is not None and n == me:
            return True
        if n is None:
            self.auto = False
            self.done.release()
        else:
            self.go[n].release()
        return False

    def gate(self, what: Any):
        t = self.tid_of.get(_real_threading.get_ident())
        if t is None:
            return
        if self.abort:
            raise Abort()
        if self.free:
            return
        self.at[t] = what
        if self.auto:
            if self._hand_over(t):
                return
        else:
            self.arrive.put(None)
        self.go[t].acquire()
        if self.abort:
            raise Abort()

    def finish(self, t: str):
        self.at[t] = "finished"
        if self.auto:
            self._hand_over(None)
        else:
            self.arrive.put(None)

    def wait_arrival(self):
        try:
            self.arrive.get(timeout=30)
        except queue.Empty:
            raise C.MachineryError("gated thread did not reach its next gate within 30 s") from None

    def label(self, t: str) -> str:
        w = self.at[t]
        if isinstance(w, tuple) and not isinstance(w[0], str):
            return f"{self.names.get(id(w[0]), 'ev?')}.{w[1]}"
        if isinstance(w, tuple):
            return f"{w[0]}{w[1]}"
        return str(w)

    def run(self, sched, stop, trace: List[str]):
        """all gated threads are parked; execute `sched` (an iterable over "R"/"W") until it is exhausted or `stop()`
        holds before a step; on return every unfinished thread is parked at a gate again"""
        self._sched, self._stop, self._trace = iter(sched), stop, trace
        self.auto = True
        if self._hand_over(None):
            raise C.MachineryError("controller: impossible hand-over")
        last = -1
        while not self.done.acquire(timeout=30):
            if self.progress == last:
                self.auto = False
                raise C.MachineryError("gated thread did not reach its next gate within 30 s")
            last = self.progress


class ShimThreading:
    """stands in for the `threading` module inside data_collection.py"""

    def __init__(self, ctl: Controller):
        self.ctl = ctl
        ctl_ = ctl

        class Event:
            def __init__(self):
                self._flag = False

            def is_set(self):
                ctl_.gate((self, "is_set"))
                return self._flag

            def set(self):
                ctl_.gate((self, "set"))
                self._flag = True

            def clear(self):
                ctl_.gate((self, "clear"))
                self._flag = False

            def wait(self, timeout=None):
                ctl_.gate((self, "wait"))
                return self._flag

        class Thread:
            def __init__(self, target=None, args=(), kwargs=None, **kw):
                self._target = target
                self._t = _real_threading.Thread(target=self._run, daemon=True)

            def _run(self):
                ctl_.tid_of[_real_threading.get_ident()] = "W"
                try:
                    self._target()
                except Abort:
                    pass
                except BaseException as e:  # noqa: BLE001  (a dying writer is an observation)
                    ctl_.exc["W"] = e
                finally:
                    ctl_.finish("W")

            def start(self):
                ctl_.started = True
                self._t.start()

            def is_alive(self):
                return self._t.ident is not None and ctl_.at.get("W") != "finished"

            def join(self, timeout=None):
                if self._t.ident is None:
                    raise RuntimeError("cannot join thread before it is started")
                self._t.join(timeout)

        self.Event = Event
        self.Thread = Thread


class ShimTime:
    def __init__(self):
        self.now = 1000.0

    def time(self):
        return self.now

    def sleep(self, s):
        pass


class WarnCounter(logging.Handler):
    def __init__(self):
        super().__init__(level=logging.WARNING)
        self.n = 0
        self.other: List[str] = []

    def emit(self, record):
        if "Unable to write fast enough" in record.getMessage():
            self.n += 1
        else:
            self.other.append(record.getMessage())


# ------------------------------------------------------------------------------------------------
# decoding the files a data set left behind
# ------------------------------------------------------------------------------------------------

def ql_read(path: str, both: bool = False) -> List[Tuple[Optional[bytes], Optional[bytes]]]:
    """`QLReader.load` as a user calls it (default arguments; one reader object per process, used for file after file).
    Every message type the harness records is defined in the definitions module, so a message the reader *skips* as
    unknown is a message it failed to give back: it counts as undecodable, as does a disagreement between the three
    views the reader offers (`headers` / `data` / `messages`)."""
    E = env()
    rd = E.get("ql_reader")
    if rd is None:
        rd = E["ql_reader"] = E["QLReader"]()
    n0 = len(sys.path)
    try:
        rd.load(path, E["defs"])
    except BaseException:
        E.pop("ql_reader", None)        # a load that raised may leave the object half filled: start afresh
        raise
    finally:
        while len(sys.path) > n0:   # QLReader.load prepends the definitions' directory on every call
            sys.path.pop(0)
    out: List[Tuple[Optional[bytes], Optional[bytes]]] = [(bytes(h), bytes(d)) for h, d in zip(rd.headers, rd.data)]
    if [(bytes(m.header), bytes(m.data)) for m in rd.messages] != out or len(rd.headers) != len(rd.data):
        out.append((None, b"headers/data/messages disagree"))
    out += [(None, b"skipped as unknown")] * int(rd.skipped or 0)
    if both:
        # the other value of the reader's option: with every type defined it must give the same messages
        n0 = len(sys.path)
        try:
            rd.load(path, E["defs"], skip_unknown=False)
        finally:
            while len(sys.path) > n0:
                sys.path.pop(0)
        if [(bytes(h), bytes(d)) for h, d in zip(rd.headers, rd.data)] != out or len(rd.messages) != len(out):
            out.append((None, b"load(skip_unknown=False) gives other messages than load()"))
    return out


def raw_read(blob: bytes) -> List[Tuple[Optional[bytes], Optional[bytes]]]:
    E = env()
    H = E["hdr_cls"]().size
    out = []
    i = 0
    while i < len(blob):
        h = blob[i:i + H]
        if len(h) < H:
            out.append((None, b"truncated"))
            break
        n = E["hdr_cls"].from_buffer_copy(h).num_data_bytes
        if n < 0 or i + H + n > len(blob):
            out.append((None, b"truncated"))
            break
        out.append((h, blob[i + H:i + H + n]))
        i += H + n
    return out


def json_read(text: str) -> List[Tuple[Optional[bytes], Optional[bytes]]]:
    E = env()
    out = []
    lines = text.split("\n")
    if lines and lines[-1] == "":
        lines.pop()
    else:
        out.append((None, b"no-final-newline"))
    for ln in lines:
        try:
            m = E["pyrtma"].Message.from_json(ln)
            out.append(key_of(m))
        except Exception as e:  # noqa: BLE001
            out.append((None, repr(e).encode()))
    return out


def csv_read(text: str) -> List[Tuple[Optional[bytes], Optional[bytes]]]:
    """msg_header files: header line, then one line of header values per message (no payload)."""
    E = env()
    lines = text.split("\n")
    if lines and lines[-1] == "":
        lines.pop()
    keys = list(E["hdr_cls"]().to_dict().keys())
    if not lines or lines[0] != ",".join(keys):
        return [(None, b"bad-csv-header")]
    out = []
    for ln in lines[1:]:
        vals = ln.split(",")
        if vals and vals[-1] == "":
            vals.pop()          # the formatter joins a trailing "\n" element: "a,b,...,z,\n"
        try:
            h = E["hdr_cls"]()
            for k, v in zip(keys, vals, strict=True):
                cur = getattr(h, k)
                setattr(h, k, type(cur)(float(v)) if isinstance(cur, int) else float(v))
            out.append((bytes(h), None))
        except Exception as e:  # noqa: BLE001
            out.append((None, repr(e).encode()))
    return out


def decode_file(fmt: str, path: str, both: bool = False) -> List[Tuple[Optional[bytes], Optional[bytes]]]:
    """`both`: quicklogger files are read twice, with the default arguments and with `skip_unknown=False` (format
    cases and multi-session runs; the scheduled cases read once, with the defaults)"""
    try:
        if fmt == "quicklogger":
            return ql_read(path, both)
        if fmt == "raw":
            return raw_read(open(path, "rb").read())
        if fmt == "json":
            return json_read(open(path, "rt").read())
        return csv_read(open(path, "rt").read())
    except Exception as e:  # noqa: BLE001
        return [(None, repr(e).encode())]


# ------------------------------------------------------------------------------------------------
# one scheduled run of the real classes
# ------------------------------------------------------------------------------------------------

def tail_len(case: Dict[str, Any]) -> int:
    return 2 * (len(case["ops"]) + 2) * (len(case["ds"]) + 6) + 40


def pre_ops(case: Dict[str, Any], dc, shim_time) -> None:
    """case["pre"]: operations handed to the collection *before* `start()` (the data logger passes every message it
    reads to `collection.update`, whether a recording is running or not): same shapes as the operations of the
    session.  None of them may leave a trace in the files of the session that follows."""
    for op in case.get("pre") or []:
        shim_time.now += float(op[1])
        k = op[0]
        if k == "u":
            dc.update(mk_msg(op[2], op[3]))
        elif k == "t":
            dc.update(None)
        elif k == "p":
            dc.pause()
        elif k == "r":
            dc.resume()


def all_updates(case: Dict[str, Any]):
    return [op for op in (case.get("pre") or []) + case["ops"] if op[0] == "u"]


def ops_toks(ops) -> str:
    return " ".join(f"u:{op[1]}:{op[2]}:{op[3]}" if op[0] == "u" else f"{op[0]}:{op[1]}" for op in ops)


def pre_lines(case: Dict[str, Any]) -> List[str]:
    """the driver does not read this line: what happens before start() is not part of the session the model runs, and
    the Spec's `accepted` is a function of the session's operations alone"""
    return ["PRE " + ops_toks(case["pre"])] if case.get("pre") else []


def run_sched_case(case: Dict[str, Any]) -> Dict[str, Any]:
    """case = {"ds": [{"fmt","types": "A"|[tidx..],"interval": int}], "ops": [[k, dt, (tidx)]...], "sched": "RW.."}
    ops kinds: u (update with a message), t (update(None)), p (pause), r (resume), s (stop; last)."""
    E = env()
    dcm = E["dcm"]
    ctl = Controller()
    shim_thr, shim_time = ShimThreading(ctl), ShimTime()
    old = (dcm.threading, dcm.time)
    dcm.threading, dcm.time = shim_thr, shim_time
    base = tempfile.mkdtemp(prefix="pyrtma_verif_dlrun_")
    wc = WarnCounter()
    root_logger = logging.getLogger("data_logger")
    root_logger.addHandler(wc)
    dc = None
    obs: Dict[str, Any] = {"status": "stuck", "warn": 0, "wdead": 0, "trace": [], "files": [], "rexc": None,
                           "wexc": None}
    try:
        # set-up; an exception of the code under test here is an observation (the session "raised"), never a crash
        dsets = []
        try:
            md = E["LoggingMetadata"]()
            dc = dcm.DataCollection("c", base, "run", md)
            ctl.names[id(dc.write_to_disk)] = "td"
            ctl.names[id(dc.write_finished)] = "fin"
            if ctl.started:
                ctl.wait_arrival()                   # the writer is parked at its first gate (or has ended)
            for i, d in enumerate(case["ds"]):
                ds = E["DataSet"]("c", f"ds{i}", f"ds{i}", "f", E["get_formatter"](d["fmt"]), d["interval"],
                                  real_types(d["types"]), md)
                _wrap(ctl, ds, i)
                dc.add_data_set(ds)
                dsets.append(ds)
            pre_ops(case, dc, shim_time)
            dc.start()
        except C.MachineryError:
            raise
        except Exception as e:  # noqa: BLE001
            obs["status"] = "raise:" + type(e).__name__
            obs["rexc"] = "during set-up (constructors / add_data_set / start): " + repr(e)
            obs["wdead"] = 1 if ctl.at.get("W") == "finished" else 0
            return obs
        # messages
        msgs: Dict[int, Any] = {}
        keys: Dict[Tuple[bytes, bytes], int] = {}
        hkeys: Dict[bytes, int] = {}
        for op in all_updates(case):
            m = mk_msg(op[2], op[3])
            msgs[op[3]] = m
            keys[key_of(m)] = op[3]
            hkeys[bytes(m.header)] = op[3]

        def r_main():
            ctl.tid_of[_real_threading.get_ident()] = "R"
            try:
                for op in case["ops"]:
                    ctl.gate("begin")
                    shim_time.now += float(op[1])
                    k = op[0]
                    if k == "u":
                        dc.update(msgs[op[3]])
                    elif k == "t":
                        dc.update(None)
                    elif k == "p":
                        dc.pause()
                    elif k == "r":
                        dc.resume()
                    elif k == "s":
                        dc.stop()
                obs["status"] = "done"
            except Abort:
                pass
            except BaseException as e:  # noqa: BLE001
                obs["status"] = "raise:" + type(e).__name__
                obs["rexc"] = repr(e)
            finally:
                ctl.finish("R")

        rt = _real_threading.Thread(target=r_main, daemon=True)
        rt.start()
        ctl.wait_arrival()
        sched = list(case["sched"]) + ["R", "W"] * (tail_len(case) // 2)
        ctl.run(sched, lambda: ctl.at.get("R") == "finished", obs["trace"])
        obs["warn"] = wc.n
        obs["wdead"] = 1 if ctl.at.get("W") == "finished" else 0
        if "W" in ctl.exc:
            obs["wexc"] = repr(ctl.exc["W"])
        # observation point: stop() has returned (or never will within the budget)
        for i, d in enumerate(case["ds"]):
            ddir = os.path.join(base, "run", f"ds{i}")
            names = sorted(os.listdir(ddir)) if os.path.isdir(ddir) else []
            ext = E["get_formatter"](d["fmt"]).ext
            ordered = [n for n in names if n == "f" + ext] + sorted(n for n in names if n != "f" + ext)
            flist = []
            blist = []
            for n in ordered:
                if obs["status"] != "done":
                    flist.append(["?"])
                    continue
                blist.append(open(os.path.join(ddir, n), "rb").read())
                dec = decode_file(d["fmt"], os.path.join(ddir, n))
                ids: List[Any] = []
                for hk, dk in dec:
                    if hk is None:
                        ids.append("?")
                    elif d["fmt"] == "msg_header":
                        ids.append(hkeys.get(hk, "?"))
                    else:
                        ids.append(keys.get((hk, dk), "?"))
                flist.append(ids)
            obs["files"].append(flist)
            obs.setdefault("fbytes", []).append(blist)
    finally:
        # tear down: unwind R if it is still inside stop(), let the writer run out
        ctl.abort = "R" in ctl.at and ctl.at["R"] != "finished"      # R was started and is parked inside an operation
        if ctl.abort:
            ctl.go["R"].release()
            ctl.wait_arrival()
            ctl.abort = False
        ctl.free = True
        if dc is not None:
            dc._close = True
            if ctl.started and ctl.at.get("W") != "finished":
                ctl.go["W"].release()
            try:
                if getattr(dc, "write_thread", None) is not None and ctl.started:
                    dc.write_thread.join(10)
                for ds in dc.datasets:
                    try:
                        ds.close()
                    except Exception:  # noqa: BLE001
                        pass
                    try:
                        ds.formatter.data_tmp.close()   # QL temp file of a formatter that was never finalised
                    except Exception:  # noqa: BLE001
                        pass
            finally:
                dc._dead = True
        root_logger.removeHandler(wc)
        dcm.threading, dcm.time = old
        shutil.rmtree(base, ignore_errors=True)
    return obs


def _wrap(ctl: Controller, ds, i: int):
    real_write, real_stage = ds.write, ds.stage_for_write

    def write():
        ctl.gate(("write", i))
        return real_write()

    def stage_for_write():
        ctl.gate(("stage", i))
        return real_stage()

    ds.write = write
    ds.stage_for_write = stage_for_write


# ------------------------------------------------------------------------------------------------
# protocol text
# ------------------------------------------------------------------------------------------------

_ENC_CACHE: Dict[Tuple[int, int], str] = {}
FMT_TOK = {"raw": "raw", "json": "json", "quicklogger": "ql", "msg_header": "csv"}


def bytes_lines(case: Dict[str, Any], obs: Dict[str, Any]) -> List[str]:
    """what the formatters read of every message of the case (ENC) and the bytes of every file left behind (FB):
    the driver renders the model's files through the formatter model and compares, and evaluates the
    files-read-back clauses of the Spec on the real bytes"""
    if obs["status"] != "done" or "fbytes" not in obs:
        return []
    E = env()
    lines = [f"HDR {E['hdr_cls']().size} {ndb_offset()}"]
    for op in case["ops"]:
        if op[0] == "u":
            k = (op[2], op[3])
            if k not in _ENC_CACHE:
                m = mk_msg(op[2], op[3])
                _ENC_CACHE[k] = f"{hx(bytes(m.header))} {hx(bytes(m.data))} {hx(m.to_json(minify=True).encode())}"
            lines.append(f"ENC {op[3]} {_ENC_CACHE[k]}")
    for i, bl in enumerate(obs["fbytes"]):
        for b in bl:
            lines.append(f"FB {i} {hx(b)}")
    return lines


def sel_tok(types) -> str:
    if types == "A":
        return "A"
    return ",".join(str(t) for t in types) if types else "-"


def sched_block(cid: str, case: Dict[str, Any], obs: Dict[str, Any]) -> List[str]:
    E = env()
    wp = E["dcm"].DataCollection.WRITE_PERIOD
    lines = [f"CASE {cid} S {int(wp) if float(wp).is_integer() else wp} {tail_len(case)}"]
    for d in case["ds"]:
        lines.append(f"DS {sel_tok(d['types'])} {eff_interval(d['interval'])} {FMT_TOK[d['fmt']]}")
    lines.append("OPS " + ops_toks(case["ops"]))
    lines += pre_lines(case)
    lines.append("SCHED " + (case["sched"] or "-"))
    lines.append(f"OBS {obs['status']} warn={obs['warn']} wdead={obs['wdead']}")
    lines.append("TR " + " ".join(obs["trace"]))
    for i, fl in enumerate(obs["files"]):
        for ids in fl:
            lines.append(f"F {i} " + " ".join(str(x) for x in ids))
    lines += bytes_lines(case, obs)
    lines.append("END")
    return lines


def eff_interval(iv: int) -> int:
    """what DataSet.__init__ makes of the requested interval, read from the class constants (0 = continuous)"""
    DS = env()["DataSet"]
    if iv <= 0:
        return 0
    return max(DS.MIN_INTERVAL, min(DS.MAX_INTERVAL, iv))


# ------------------------------------------------------------------------------------------------
# formatter-level cases (no threads): any partition of a message list into write() calls + finalize
# ------------------------------------------------------------------------------------------------

def hx(b: bytes) -> str:
    return b.hex() if b else "-"


def run_fmt_case(fmt: str, types: Sequence[int], part: Sequence[int], last: int) -> Dict[str, Any]:
    """Drive the real formatter class directly: write(batch) for each size in `part`, then finalize(last batch)."""
    E = env()
    msgs = [mk_msg(t, k + 1) for k, t in enumerate(types)]
    out: Dict[str, Any] = {"fmt": fmt, "msgs": [key_of(m) for m in msgs], "part": list(part), "last": last,
                           "exc": None}
    if fmt == "json":
        out["json"] = [m.to_json(minify=True) for m in msgs]
    try:
        cls = E["get_formatter"](fmt)
    except Exception as e:  # noqa: BLE001   (the registry of formatters is part of the code under test)
        out.update(exc="get_formatter:" + type(e).__name__, file=b"", read=[])
        return out
    d = tempfile.mkdtemp(prefix="pyrtma_verif_dlfmt_")
    path = os.path.join(d, "f" + cls.ext)
    try:
        fd = open(path, cls.mode)
        try:
            f = cls(fd)
            i = 0
            for n in part:
                f.write(msgs[i:i + n])
                i += n
            f.finalize(msgs[i:i + last])
        except Exception as e:  # noqa: BLE001
            out["exc"] = type(e).__name__
        finally:
            fd.close()
        out["file"] = open(path, "rb").read()
        out["read"] = decode_file(fmt, path, both=True)
    finally:
        shutil.rmtree(d, ignore_errors=True)
    return out


def ndb_offset() -> int:
    """where `num_data_bytes` sits in the header, measured on the real header class"""
    E = env()
    if "ndb_off" not in E:
        h = E["hdr_cls"]()
        h.num_data_bytes = 0x01020304
        E["ndb_off"] = bytes(h).index((0x01020304).to_bytes(4, sys.byteorder))
    return E["ndb_off"]


def fmt_block(cid: str, o: Dict[str, Any]) -> List[str]:
    E = env()
    lines = [f"CASE {cid} F {o['fmt']} {E['hdr_cls']().size} {ndb_offset()}"]
    for h, dd in o["msgs"]:
        lines.append(f"M {hx(h)} {hx(dd)}")
    for j in o.get("json", []):
        lines.append(f"J {hx(j.encode())}")
    lines.append("PART " + " ".join(map(str, o["part"])) + f" | {o['last']}")
    lines.append("FILE " + hx(o["file"]))
    if o["exc"]:
        lines.append("EXC " + o["exc"])
    rd = []
    for h, dd in o["read"]:
        rd.append("X:X" if h is None or dd is None else f"{hx(h)}:{hx(dd)}")
    lines.append("RD " + " ".join(rd))
    lines.append("END")
    return lines


# ------------------------------------------------------------------------------------------------
# several recordings with one DataCollection object (START / STOP / START …, as the data logger does)
# ------------------------------------------------------------------------------------------------

class _DaemonThreading:
    """the real `threading` module, except that threads are daemons: a writer thread that a changed `stop()` /
    `close()` no longer ends must not keep the checking process alive"""

    def __getattr__(self, name):
        return getattr(_real_threading, name)

    @staticmethod
    def Thread(*a, **k):
        k.setdefault("daemon", True)
        return _real_threading.Thread(*a, **k)


MULTI_SESSION_LIMIT_S = 60.0


def multi_session_check(fmt: str = "raw", flush_every_update: bool = False, sessions=(5, 6, 4)) -> Dict[str, Any]:
    """Real DataCollection, real writer thread, real clock; one data set selecting every type; three recordings in a row
    with the same objects (only the file name changes, as the metadata would).  Between the recordings (before the
    first, after each stop) the collection is handed messages, time-outs and pause / resume as the data logger does
    with everything it reads; the first recording is stopped while paused; in the second one message arrives while
    paused.  Returns the per-session sequences of message serials that had to be recorded ("sent") and that the
    files contain.  The run is given MULTI_SESSION_LIMIT_S seconds (it
    needs about one): a `stop()` that waits for ever is an observation ("exc"), not a hanging check."""
    E = env()
    dcm = E["dcm"]
    base = tempfile.mkdtemp(prefix="pyrtma_verif_dlmulti_")
    old_period = dcm.DataCollection.WRITE_PERIOD
    old_thr = dcm.threading
    out: Dict[str, Any] = {"fmt": fmt, "flush_every_update": flush_every_update, "sessions": [], "exc": None}
    box: Dict[str, Any] = {"dc": None}

    def body():
        try:
            md = E["LoggingMetadata"]()
            dc = box["dc"] = dcm.DataCollection("c", base, "run", md)
            ds = E["DataSet"]("c", "ds0", "ds0", "f0", E["get_formatter"](fmt), 0, [2147483647], md)
            dc.add_data_set(ds)
            serial = 0
            outside = 9000

            def not_recording():
                """what the data logger hands over between two recordings: every message it reads, and time-outs"""
                nonlocal outside
                for t in (0, 1):
                    outside += 1
                    dc.update(mk_msg(t, outside))
                dc.update(None)

            not_recording()                      # before the first start()
            for si, n in enumerate(sessions):
                ds.file_name_fmt = f"rec{si}"
                dc.start()
                sent, keys = [], {}
                for k in range(n):
                    serial += 1
                    m = mk_msg(k % 3, serial)
                    keys[key_of(m)] = serial
                    if si == 1 and k == 2:       # second recording: one message arrives while paused
                        dc.pause()
                        dc.update(m)
                        dc.resume()
                    else:
                        sent.append(serial)
                        dc.update(m)
                    if flush_every_update:
                        _real_time.sleep(0.02)
                if si == 0:                      # first recording: stopped while paused; the next one is not paused
                    dc.pause()
                dc.stop()
                got: List[Any] = []
                # the data set's file(s) of this recording
                paths = sorted(str(p) for p in Path(base).rglob(f"rec{si}*"))
                for pth in paths:
                    for kk in decode_file(fmt, pth, both=True):
                        got.append(keys.get(kk, ("foreign", kk[0][:8].hex() if kk[0] else None)))
                out["sessions"].append({"sent": sent, "read": got, "files": [os.path.basename(p) for p in paths]})
                not_recording()                  # after stop(): dropped, and harmless for the next recording
                if si == 1:
                    dc.pause()                   # pause / resume of a stopped collection
                    not_recording()
                    dc.resume()
        except Exception as e:  # noqa: BLE001
            out["exc"] = f"{type(e).__name__}: {e}"[:300]

    try:
        dcm.threading = _DaemonThreading()
        if flush_every_update:
            dcm.DataCollection.WRITE_PERIOD = 0.0
        t = _real_threading.Thread(target=body, daemon=True)
        t.start()
        t.join(MULTI_SESSION_LIMIT_S)
        hung = t.is_alive()
        if hung:
            out = dict(out, sessions=list(out["sessions"]),
                       exc=f"recording {len(out['sessions'])} did not end within {MULTI_SESSION_LIMIT_S:.0f} s "
                           "(start / update / stop hangs)")
    finally:
        dcm.DataCollection.WRITE_PERIOD = old_period
        dc = box["dc"]
        if dc is not None:
            dc._close = True
            closer = _real_threading.Thread(target=_quiet, args=(dc.close,), daemon=True)
            closer.start()
            closer.join(5)
            dc._dead = True
        dcm.threading = old_thr
        shutil.rmtree(base, ignore_errors=True)
    return out


def _quiet(fn) -> None:
    try:
        fn()
    except Exception:  # noqa: BLE001
        pass
