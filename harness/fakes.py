"""Hook-free deterministic drivers for the real code under test.

`ManagerRun` executes the unmodified `MessageManager.run()` in-process with no network and no threads by rebinding the
module attributes `pyrtma.manager.{socket,select,time,random}`:

  * a socket shim (fake listen socket with `accept`, fake connections with `recv_into/sendall/close/setsockopt`) that
    reproduces CPython's own argument errors (negative size, size larger than the buffer, EBADF after close);
  * a scripted `select` that plays one *round* per read-select call (which sockets are readable and in which order,
    which are writable, how far the clock advances) and calls `mgr.close()` when the script is exhausted;
  * a frozen clock and a no-op `shuffle`;
  * insertion-ordered sets for `mgr.subscriptions[*]` and `mgr.logger_modules` so that recipient order is reproducible
    (`order='rev'` reverses iteration to cover the other order).

Everything the manager writes, every close and every failed write is recorded in one global, ordered event list.
"""
from __future__ import annotations

import errno
import socket as _socket
import socket as _real_socket
from collections import defaultdict
from typing import Any, Dict, Iterable, List, Optional, Tuple


import contextlib
import io
import os

from .rebind import rebind


@contextlib.contextmanager
def _quiet():
    """the manager prints progress marks ('x') and rich console log lines; keep the check's stdout clean"""
    with open(os.devnull, "w") as dn, contextlib.redirect_stdout(dn), contextlib.redirect_stderr(dn):
        yield


class OrderedSet:
    """set API subset used by manager.py, deterministic iteration (insertion order, or reversed)."""

    def __init__(self, rev: bool = False):
        self._d: Dict[Any, None] = {}
        self._rev = rev

    def add(self, x):
        self._d[x] = None

    def discard(self, x):
        self._d.pop(x, None)

    def clear(self):
        self._d.clear()

    def __contains__(self, x):
        return x in self._d

    def __len__(self):
        return len(self._d)

    def __iter__(self):
        # real `set` iteration raises RuntimeError when the set changes size during iteration; keep that behaviour
        n = len(self._d)
        keys = list(self._d)
        if self._rev:
            keys.reverse()
        for k in keys:
            if len(self._d) != n:
                raise RuntimeError("Set changed size during iteration")
            yield k
        if len(self._d) != n:
            raise RuntimeError("Set changed size during iteration")


class FakeConn:
    def __init__(self, world: "World", uid: int):
        self.world = world
        self.uid = uid
        self.closed = False
        self.inbuf = b""          # bytes available to recv_into for the current read event
        self.eof = True           # after inbuf: EOF (short read) -- a peer never blocks the manager in the fake
        self.read_error: Optional[str] = None    # "hdr" | "pay": raise ConnectionResetError at that recv
        # "hdr": the write that starts a frame fails; "pay": the header goes out, what follows it does not
        self.fail_write: Optional[str] = None
        self._in_frame = False                   # a header has been written, (the rest of) its payload is outstanding
        self._remaining: Optional[int] = None    # payload bytes outstanding (None: "the next write is the payload")
        self._empty_payload_recorded = False
        self._recv_calls = 0

    # --- socket API used by manager.py -------------------------------------------------
    def fileno(self):
        return 1000 + self.uid

    def setsockopt(self, *a):
        pass

    def recv_into(self, buf, nbytes=0, flags=0):
        if self.closed:
            raise OSError(errno.EBADF, "Bad file descriptor")
        if nbytes < 0:
            raise ValueError("negative buffersize in recv_into")
        if nbytes == 0:
            nbytes = len(buf)
        if nbytes > len(buf):
            raise ValueError("buffer too small for requested bytes")
        self._recv_calls += 1
        which = "hdr" if self._recv_calls == 1 else "pay"
        if which == "hdr":
            self.world.events.append(("RD", self.uid))
        if self.read_error == which:
            raise ConnectionResetError(errno.ECONNRESET, "Connection reset by peer")
        n = min(nbytes, len(self.inbuf))
        if not (flags & _socket.MSG_WAITALL) and n > 1:
            # without MSG_WAITALL a read returns what has arrived so far: the bytes of a frame arrive in two pieces
            n = (n + 1) // 2
        memoryview(buf)[:n] = self.inbuf[:n]
        self.inbuf = self.inbuf[n:]
        return n

    def _declared(self, hdr: bytes) -> Optional[int]:
        """num_data_bytes of a whole header in the manager's layout (None: not a whole header / layout unknown)"""
        H = getattr(self.world, "hdr_cls", None)
        if H is None or len(hdr) != self.world.hdr_size:
            return None
        return int(H.from_buffer_copy(hdr).num_data_bytes)

    def _fail(self):
        self._in_frame, self._remaining = False, None
        self.world.events.append(("WF", self.uid))
        raise BrokenPipeError(errno.EPIPE, "Broken pipe")

    def sendall(self, data, flags=0):
        """One event ("W", uid, bytes) per call, in call order.  How the code cuts a frame into writes is its own business
        (header and payload in two calls, in one, an empty payload written or not): the failure modes are defined on the
        byte stream — "hdr": the write that starts a frame fails and nothing of the frame goes out; "pay": the frame's
        header goes out and nothing after it (a real `sendall` can fail after part of the data has been sent)."""
        if self.closed:
            raise OSError(errno.EBADF, "Bad file descriptor")
        buf = bytes(data)
        if flags & getattr(_socket, "MSG_DONTWAIT", 0x40) and len(buf) > 8:
            # a non-blocking send may find the buffer full at any byte: half of the data goes out, then EAGAIN
            self.world.events.append(("W", self.uid, buf[:len(buf) // 2]))
            raise BlockingIOError(errno.EAGAIN, "Resource temporarily unavailable")
        hs = getattr(self.world, "hdr_size", None)
        if self._in_frame:
            # (part of) the payload of the frame whose header is out
            if self.fail_write == "pay":
                self._fail()
            self.world.events.append(("W", self.uid, buf))
            if self._remaining is None:
                self._in_frame = False
            else:
                self._remaining -= len(buf)
                if self._remaining <= 0:
                    self._in_frame, self._remaining = False, None
            return
        if not buf:
            # an empty write between frames: nothing to fail on.  After the header of a frame without payload it is that
            # frame's (empty) payload, which is on record already
            if self._empty_payload_recorded:
                self._empty_payload_recorded = False
            else:
                self.world.events.append(("W", self.uid, buf))
            return
        self._empty_payload_recorded = False
        if self.fail_write == "hdr":
            self._fail()
        if hs is not None and len(buf) > hs:
            # header and payload (or several frames) handed over in one call
            if self.fail_write == "pay":
                self.world.events.append(("W", self.uid, buf[:hs]))
                self._fail()
            self.world.events.append(("W", self.uid, buf))
            pos = 0
            while len(buf) - pos >= hs:
                n = max(0, self._declared(buf[pos:pos + hs]) or 0)
                if len(buf) - pos < hs + n:
                    self._in_frame, self._remaining = True, hs + n - (len(buf) - pos)
                    break
                pos += hs + n
            return
        # a write of at most one header: the header of a frame on its own
        declared = self._declared(buf)
        self.world.events.append(("W", self.uid, buf))
        if declared == 0:
            # a frame without payload is whole (an empty write may follow, or not): "pay" fails here, the header is out;
            # otherwise the empty payload goes on record now, so that the events do not depend on whether the code
            # bothers to write nothing
            if self.fail_write == "pay":
                self._fail()
            self.world.events.append(("W", self.uid, b""))
            self._empty_payload_recorded = True
            return
        self._in_frame, self._remaining = True, None

    def close(self):
        if not self.closed:
            self.closed = True
            self.world.events.append(("C", self.uid))

    def shutdown(self, how):
        # as the kernel does it: EBADF on a closed descriptor, ENOTCONN once the peer has reset the connection (the states
        # in which the fake makes reads / writes fail), success otherwise; no event: nothing is written
        if self.closed:
            raise OSError(errno.EBADF, "Bad file descriptor")
        if self.read_error is not None or self.fail_write is not None:
            raise OSError(errno.ENOTCONN, "Transport endpoint is not connected")

    def getpeername(self):
        if self.closed:
            raise OSError(errno.EBADF, "Bad file descriptor")
        return ("127.0.0.1", 40000 + self.uid)

    def getsockname(self):
        return ("127.0.0.1", 7111)

    def settimeout(self, t):
        pass

    def setblocking(self, flag):
        pass

    def __hash__(self):
        return id(self)

    def __repr__(self):
        return f"<FakeConn {self.uid}>"


class FakeListen:
    def __init__(self, world: "World"):
        self.world = world
        self.closed = False

    def bind(self, *a): pass
    def listen(self, *a): pass
    def setsockopt(self, *a): pass
    def fileno(self): return 999

    def accept(self):
        w = self.world
        w.next_uid += 1
        c = FakeConn(w, w.next_uid)
        w.conns[w.next_uid] = c
        return c, ("127.0.0.1", 40000 + w.next_uid)

    def close(self):
        self.closed = True

    def __hash__(self):
        return id(self)


class SocketShim:
    """stands in for the `socket` module inside pyrtma.manager"""

    def __init__(self, world: "World"):
        self._w = world
        # every constant of the real module (a rewrite may use flags the current code does not: MSG_DONTWAIT, SO_SNDBUF, …)
        for k in dir(_real_socket):
            if k.isupper() and isinstance(getattr(_real_socket, k), int):
                setattr(self, k, getattr(_real_socket, k))
        for k in ("timeout", "error", "gaierror", "herror"):
            setattr(self, k, getattr(_real_socket, k))
        self.socket = self._socket_type()

    def _socket_type(self):
        w = self._w

        class _S:  # `socket.socket` is used both as constructor and in annotations
            def __new__(cls, *a, **k):
                return w.listen

        return _S

    def getprotobyname(self, name):
        return 6


class Clock:
    def __init__(self):
        self.t = 1000.0

    def perf_counter(self):
        return self.t

    monotonic = perf_counter

    def time(self):
        return 1.7e9 + self.t

    def sleep(self, s):
        pass


class NoShuffle:
    def shuffle(self, l):
        pass


class World:
    def __init__(self):
        self.events: List[Tuple] = []
        self.conns: Dict[int, FakeConn] = {}
        self.next_uid = 0
        self.listen = FakeListen(self)
        self.clock = Clock()
        self.hdr_cls = None          # the manager's header class and its size (make_manager): framing of the byte streams
        self.hdr_size: Optional[int] = None


class ScriptedSelect:
    """Round = dict(dt=float seconds, accept=bool, reads=[(uid, readspec)], writable=[uid], fail={uid: mode|None}).
    readspec = ("bytes", b"...")            whatever is there, then EOF (a complete frame, or a truncated one)
             | ("err", "hdr"|"pay", b"...") ConnectionResetError at the header / payload recv"""

    def __init__(self, world: World, rounds: List[Dict[str, Any]], mgr_ref):
        self.w = world
        self.rounds = list(rounds)
        self.i = 0
        self.mgr_ref = mgr_ref
        self.cur: Optional[Dict[str, Any]] = None
        self.round_marks: List[int] = []     # index into world.events at which each round starts

    def select(self, r, w, x, timeout=None):
        r = list(r)
        w = list(w)
        if r and not w:
            # ---- the read select: start of a round
            self.round_marks.append(len(self.w.events))
            if self.i >= len(self.rounds):
                self.mgr_ref().close()
                return [], [], []
            rd = self.rounds[self.i]
            self.i += 1
            self.cur = rd
            self.w.clock.t += rd.get("dt", 0.0)
            for uid, mode in rd.get("fail", {}).items():
                if uid in self.w.conns:
                    self.w.conns[uid].fail_write = mode
            out = []
            if rd.get("accept"):
                out.append(self.w.listen)
            for uid, spec in rd.get("reads", []):
                c = self.w.conns.get(uid)
                if c is None or c.closed or c not in r:
                    continue
                c._recv_calls = 0
                c.read_error = None
                if spec[0] == "bytes":
                    c.inbuf = spec[1]
                else:
                    c.read_error = spec[1]
                    c.inbuf = spec[2]
                out.append(c)
            return out, [], []
        if w and not r and timeout is None:
            return [], w, []          # blocking wait for a logger: returns at once in the fake
        if w and not r:
            rd = self.cur or {}
            ws = [self.w.conns[u] for u in rd.get("writable", []) if u in self.w.conns]
            return [], [c for c in ws if c in w and not c.closed], []
        return [], [], []


def make_manager(timecode: bool = False, log_level: int = 100, send_msg_timing: bool = True, order: str = "fwd",
                 debug: bool = False):
    """Construct a real MessageManager wired to a fresh fake world.  Returns (mgr, world, module `pyrtma.manager`)."""
    import pyrtma.manager as M

    world = World()
    # whatever the import style of manager.py (`import time` / `from time import perf_counter` / aliases): harness/rebind.py
    rebind(M, {"socket": SocketShim(world), "time": world.clock, "random": NoShuffle()})
    with _quiet():
        mgr = M.MessageManager(ip_address="127.0.0.1", port=7111, timecode=timecode, log_level=log_level,
                               debug=debug, send_msg_timing=send_msg_timing)
    # keep console logging quiet; the RTMA handler (forwarding logs as messages) follows log_level
    try:
        mgr.logger.enable_console = False
    except Exception:
        pass
    try:
        import ctypes
        from pyrtma.header import get_header_cls
        world.hdr_cls = get_header_cls(timecode)
        world.hdr_size = ctypes.sizeof(world.hdr_cls)
    except Exception:  # noqa: BLE001 -- without it every write of at most a header starts a two-call frame (as before)
        pass
    rev = order == "rev"
    mgr.subscriptions = defaultdict(lambda: OrderedSet(rev))
    mgr.logger_modules = OrderedSet(rev)
    return mgr, world, M


def run_manager(rounds: List[Dict[str, Any]], **kw) -> Dict[str, Any]:
    """Run the script; returns {"events": [...], "marks": [...], "crash": None | "ExcType: msg", "mgr": mgr, "world": world}."""
    import weakref
    mgr, world, M = make_manager(**kw)
    ss = ScriptedSelect(world, rounds, weakref.ref(mgr))

    class _Sel:
        select = staticmethod(ss.select)

    rebind(M, {"select": _Sel})
    crash = None
    try:
        with _quiet():
            mgr.run()
    except BaseException as e:  # noqa: BLE001 -- any exception escaping run() is the observation `crash`
        if isinstance(e, (KeyboardInterrupt, SystemExit)):
            raise
        crash = f"{type(e).__name__}: {e}"
    # run()'s `finally` closes every socket still in the table; on a crash these closes follow the events of the round in
    # which the exception was raised and are not part of it: the observation of the crash round ends before them
    crash_end = len(world.events)
    if crash is not None:
        while crash_end > 0 and world.events[crash_end - 1][0] == "C" and \
                any(getattr(c, "uid", None) == world.events[crash_end - 1][1] for c in list(mgr.modules.keys())):
            crash_end -= 1
    rtma_on = True
    try:
        rtma_on = bool(mgr.logger.enable_rtma)
    except Exception:
        pass
    return {"events": world.events, "marks": ss.round_marks, "crash": crash, "mgr": mgr, "world": world,
            "rounds_played": ss.i, "rtma_log_enabled": rtma_on, "crash_end": crash_end}
