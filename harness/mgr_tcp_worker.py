"""Sub-process half of harness/mgr_tcp.py: a real MessageManager on localhost, raw client sockets, no fakes."""
import json
import select
import socket
import sys
import threading
import time


def main():
    job = json.loads(sys.stdin.read())
    import contextlib
    import io
    import os
    import pyrtma.manager as M
    from harness import mgr_corr as G
    frames = {int(k): bytes.fromhex(v) for k, v in job["frames"].items()}
    ignored = set(job["ignored"])
    # a free port
    probe = socket.socket(); probe.bind(("127.0.0.1", 0)); port = probe.getsockname()[1]; probe.close()
    devnull = open(os.devnull, "w")
    with contextlib.redirect_stdout(devnull), contextlib.redirect_stderr(devnull):
        mgr = M.MessageManager(ip_address="127.0.0.1", port=port, timecode=False, log_level=100, debug=True,
                               send_msg_timing=True)
    try:
        mgr.logger.enable_console = False
    except Exception:
        pass
    # the fake run has a frozen clock: no periodic section.  On a loaded machine a scenario can take longer than the 5 s of
    # the ACTIVE_CLIENTS period, whose CLIENT_INFO frames a subscriber to everything would then see: switch the periods off
    for obj, name in ((mgr, "min_timing_message_period"), (type(mgr), "TRAFFIC_INTERVAL"), (type(mgr), "INFO_INTERVAL")):
        if hasattr(obj, name):
            setattr(obj, name, 1e9)
    crash = []

    def run():
        try:
            with contextlib.redirect_stdout(devnull):
                mgr.run()
        except BaseException as e:  # noqa: BLE001
            crash.append(f"{type(e).__name__}: {e}")
    th = threading.Thread(target=run, daemon=True)
    th.start()
    socks = {}
    bufs = {}
    closed = set()

    def drain(quiet=0.15):
        while True:
            live = [s for u, s in socks.items() if u not in closed]
            if not live:
                time.sleep(quiet); return
            r, _, _ = select.select(live, [], [], quiet)
            if not r:
                return
            for s in r:
                u = next(k for k, v in socks.items() if v is s)
                try:
                    d = s.recv(1 << 20)
                except ConnectionError:
                    d = b""
                if not d:
                    closed.add(u)
                else:
                    bufs[u] = bufs.get(u, b"") + d

    for st in job["steps"]:
        if st[0] == "accept":
            u = len(socks) + 1
            s = socket.create_connection(("127.0.0.1", port), timeout=5)
            s.setsockopt(socket.IPPROTO_TCP, socket.TCP_NODELAY, 1)
            socks[u] = s
            time.sleep(0.08)          # one accept per manager loop: keeps uid = accept order
        else:
            u, data = st[1], bytes.fromhex(st[2])
            if u not in closed:
                try:
                    socks[u].sendall(data)
                except ConnectionError:
                    closed.add(u)
        drain()
    drain(0.3)
    mgr.close()
    th.join(3)
    H = G.header_cls(False)
    import ctypes
    hs = ctypes.sizeof(H)
    out = {}
    for u, b in bufs.items():
        pos = 0
        seq = []
        while pos + hs <= len(b):
            h = H.from_buffer_copy(b[pos:pos + hs])
            n = h.num_data_bytes
            hb, pay = b[pos:pos + hs], b[pos + hs:pos + hs + n]
            pos += hs + n
            if h.msg_type in ignored:
                continue
            seq.append(G.decode_frame(hb, pay, frames, False))
        out[str(u)] = seq
    print(json.dumps({"frames": out, "closed": sorted(closed), "crash": crash[0] if crash else None}))


if __name__ == "__main__":
    main()
