"""Tie B for M2 (Model/ClientSub.lean): the real `Client` subscription API wired to the real
`MessageManager.run()` in one process, no network and no threads, against the Lean model; plus the Spec of C02
evaluated on what the real pair did.

No hooks in /repo.  `pyrtma.manager.{socket,select,time,random}` are rebound to a socket shim (fake listen socket
with `accept`, duplex in-memory connections), a scripted `select`, a frozen clock and a no-op `shuffle`;
`pyrtma.client.{select,time}` likewise.  Whenever the client side waits for data (or after every phase), the
manager is *pumped*: `MessageManager.run()` itself executes, serving every pending connection one message per
round, until nothing is pending; then the scripted select calls `mgr.close()` and `run()` returns.  (`run()` closes
its sockets in a `finally`; the fakes are re-opened for the next pump — the Module table is untouched by that.)

After each phase of an API call a second, raw connection sends one probe message per type of the universe `U`
and the bytes that arrive on the client's socket are decoded: that is the `delivered` set.

Case grammar sent to `drv_clientsub`:
    CASE <id> <ALL_MESSAGE_TYPES>
    U <type> ...
    OP <subscribe|unsubscribe|pause|resume|subCtx|pauseCtx> <type> ... | OP unsubAll|pauseAll|resumeAll|reconnect|reconnectLost
    PH <ok|refused|crash:X> <nframes> S <subscribed..> P <paused..> D <delivered..> F <kind:type..> M <Module.subs..>
       I <types whose subscriptions[] holds the module..> A <_sub_all 0|1>          (one per phase of the OP)
    END

Life-cycle cases (second layer of M2, `Model/ClientLife.lean`): ONE `Client` object from its construction on, driven
through the real `Client.connect` / `disconnect` / subscription API / `read_message` / `send_signal` on sockets made
by a `socket` shim inside `pyrtma.client`; connections can die (`cut`) with or without the manager noticing.
    LCASE <id> <ALL_MESSAGE_TYPES> <DYN_MOD_ID_START> <MAX_MODULES> <created module_id> <next_dynamic_mod_id_offset> [ids]
          (`ids`: CORR compares the identity projection only - outcome, connected, ids, table without subscriptions, cursor)
    U <type> ...
    OTHER <mod_id> <unique 0|1>                 every module record that exists before the client's first call
    LOP connect <allow 0|1> | connectLate <allow> | disconnect | lostRead <noticed 0|1> | lostSend <noticed> | ctlLost <kind> <noticed> <type..>
        | mgrNotices | sub <OP syntax of above>
    LPH <ok|refused|notConnected|lost|crash:X> <nframes> S.. P.. D.. F.. M.. I.. A <0|1> C <connected> N <module_id>
        R <CONNECT_V2.mod_id|-> K <ACK.dest_mod_id|-> H <mod_id of the other records..> T <mod_id:connected:unique:[subs] of
        the client's own records..> X <next_dynamic_mod_id_offset>
    END
"""
from __future__ import annotations

import itertools
import logging
import struct
import types
import warnings
from typing import Any, Dict, List, Optional, Sequence, Tuple

from . import common as C
from . import priv as PV          # private state of Client objects, found on the object (not by name)

MSG_WAITALL = 0x100


class WouldBlock(BaseException):
    pass


class Pipe:
    """one TCP connection: two byte queues"""

    def __init__(self, name: str):
        self.name = name
        self.to_mgr = bytearray()
        self.to_cli = bytearray()
        self.eof = False            # the client side is gone: the manager reads EOF
        self.cut = ""               # "fin" | "rst": the connection is dead as seen from the client
        self.accepted = False
        self.mgr_sent = bytearray() # everything the manager ever wrote to this connection
        self.mgr_end = MgrEnd(self)
        self.cli_end = CliEnd(self)


class MgrEnd:
    """the manager's socket object for a connection"""

    def __init__(self, pipe: Pipe):
        self.pipe = pipe
        self.closed = False

    def fileno(self):
        return 1000 + id(self) % 1000

    def pending(self) -> bool:
        return len(self.pipe.to_mgr) > 0 or (self.pipe.eof and not self.closed)

    def recv_into(self, buffer, nbytes=0, flags=0):
        mv = memoryview(buffer).cast("B")
        if nbytes == 0:
            nbytes = len(mv)
        if nbytes < 0 or nbytes > len(mv):
            raise ValueError("bad nbytes")
        q = self.pipe.to_mgr
        if len(q) == 0 and self.pipe.eof:
            return 0
        if len(q) < nbytes:
            raise C.MachineryError("manager would block on a partial frame (harness always writes whole frames)")
        mv[:nbytes] = q[:nbytes]
        del q[:nbytes]
        return nbytes

    def sendall(self, b, flags=0):
        self.pipe.to_cli += bytes(b)
        self.pipe.mgr_sent += bytes(b)

    def setsockopt(self, *a):
        pass

    def close(self):
        self.closed = True

    def __hash__(self):
        return id(self)


class CliEnd:
    """the client's socket object"""

    def __init__(self, pipe: Pipe):
        self.pipe = pipe
        self.world: Optional["World"] = None
        self.sent: List[bytes] = []

    def fileno(self):
        return 2000 + id(self) % 1000

    def dead(self) -> bool:
        """the client can see that the connection is gone: cut, or the manager has removed (closed) it"""
        p = self.pipe
        return bool(p.cut) or (p.accepted and self.world is not None and p.mgr_end not in self.world.mgr.modules)

    def readable(self) -> bool:
        return len(self.pipe.to_cli) > 0 or self.dead()

    def sendall(self, b, flags=0):
        if self.pipe.cut:
            raise ConnectionResetError(104, "Connection reset by peer")
        bb = bytes(b)
        self.pipe.to_mgr += bb
        self.sent.append(bb)
        if self.world is not None:
            self.world.cli_log.append(bb)

    def _take(self, n: int) -> bytes:
        q = self.pipe.to_cli
        if len(q) < n and self.world is not None and not self.pipe.cut:
            self.world.pump()
        if len(q) < n and self.dead():
            if self.pipe.cut == "rst":
                del q[:]
                raise ConnectionResetError(104, "Connection reset by peer")
            out = bytes(q)
            del q[:]
            return out
        if len(q) < n:
            raise WouldBlock()
        out = bytes(q[:n])
        del q[:n]
        return out

    def recv(self, n, flags=0):
        return self._take(n)

    def recv_into(self, buffer, nbytes=0, flags=0):
        mv = memoryview(buffer).cast("B")
        if nbytes == 0:
            nbytes = len(mv)
        got = self._take(nbytes)
        mv[:len(got)] = got
        return len(got)

    def close(self):
        pass

    def setsockopt(self, *a):
        pass


class ListenSock:
    def __init__(self):
        self.backlog: List[Pipe] = []
        self.closed = False

    def bind(self, a):
        pass

    def listen(self, n):
        pass

    def setsockopt(self, *a):
        pass

    def fileno(self):
        return 999

    def pending(self) -> bool:
        return bool(self.backlog)

    def accept(self):
        p = self.backlog.pop(0)
        p.accepted = True
        return p.mgr_end, ("127.0.0.1", 40000 + len(self.backlog))

    def close(self):
        self.closed = True

    def __hash__(self):
        return id(self)


class OrderedSet:
    """insertion-ordered set (reproducible recipient order); only what manager.py uses"""

    def __init__(self, it=()):
        self.d = dict.fromkeys(it)

    def add(self, x):
        self.d[x] = None

    def discard(self, x):
        self.d.pop(x, None)

    def __contains__(self, x):
        return x in self.d

    def __iter__(self):
        return iter(list(self.d))

    def __len__(self):
        return len(self.d)


class LSock:
    """what `socket.socket()` returns inside pyrtma.client: unconnected until `connect`, then one end of a new Pipe"""

    def __init__(self, world: "World"):
        self.world = world
        self.end: Optional[CliEnd] = None
        self.closed = False
        world.cli_socks.append(self)

    def connect(self, addr):
        p = self.world.new_pipe("client")
        p.own = True
        self.end = p.cli_end

    def _e(self) -> CliEnd:
        if self.end is None or self.closed:
            raise OSError(9, "Bad file descriptor")
        return self.end

    def fileno(self):
        return 3000 + id(self) % 1000

    def readable(self) -> bool:
        return self._e().readable()

    def sendall(self, b, flags=0):
        return self._e().sendall(b, flags)

    def recv(self, n, flags=0):
        return self._e().recv(n, flags)

    def recv_into(self, buffer, nbytes=0, flags=0):
        return self._e().recv_into(buffer, nbytes, flags)

    def setsockopt(self, *a):
        pass

    def close(self):
        self.closed = True


class World:
    """one manager + connections"""

    def __init__(self):
        import pyrtma.manager as PM
        import pyrtma.client as PC
        import pyrtma.core_defs as cd
        self.PM, self.PC, self.cd = PM, PC, cd
        self.listen = ListenSock()
        world = self

        sockshim = types.SimpleNamespace(
            socket=lambda *a, **k: world.listen, AF_INET=2, SOCK_STREAM=1, IPPROTO_TCP=6, INADDR_ANY=0,
            SOMAXCONN=128, TCP_NODELAY=1, SOL_SOCKET=1, SO_REUSEADDR=2, MSG_WAITALL=MSG_WAITALL,
            getprotobyname=lambda n: 6)
        self.clock = 1000.0
        timeshim = types.SimpleNamespace(time=lambda: world.clock, perf_counter=lambda: world.clock,
                                         sleep=lambda s: None)
        from .rebind import rebind          # installs the stand-ins under any import style of manager.py / client.py
        rebind(PM, {"socket": sockshim, "time": timeshim, "random": types.SimpleNamespace(shuffle=lambda l: None),
                    "select": types.SimpleNamespace(select=self.mgr_select)})
        self.cli_log: List[bytes] = []          # every buffer a client socket accepted, in order
        self.cli_socks: List["LSock"] = []      # every socket object the client code created
        rebind(PC, {"select": types.SimpleNamespace(select=self.cli_select), "socket": types.SimpleNamespace(
            socket=lambda *a, **k: LSock(world), AF_INET=2, SOCK_STREAM=1, IPPROTO_TCP=6, TCP_NODELAY=1,
            SOL_SOCKET=1, SO_REUSEADDR=2, MSG_WAITALL=MSG_WAITALL, getprotobyname=lambda n: 6),
            "time": types.SimpleNamespace(perf_counter=self._cli_clock, sleep=lambda s: None, time=self._cli_clock,
                                          monotonic=self._cli_clock)})
        self._cclock = 0.0
        self.mgr = PM.MessageManager(ip_address="", port=7111, timecode=False, log_level=100, send_msg_timing=False)
        self.mgr.logger_modules = OrderedSet()
        self.pumps = 0

    def _cli_clock(self):
        self._cclock += 0.001
        return self._cclock

    # --- scripted selects ------------------------------------------------------------------
    def mgr_select(self, r, w, x, timeout=None):
        r = list(r)
        w = list(w)
        if not r:
            return [], w, []          # write-select: every connection takes data
        ready = [s for s in r if s.pending()]
        if not ready:
            self.mgr.close()
            return [], [], []
        return ready, [], []

    def cli_select(self, r, w, x, timeout=None):
        if r:
            self.pump()
            rr = [s for s in r if s.readable()]
            if not rr and timeout is None:
                raise WouldBlock()
            return rr, [], []
        return [], list(w), []

    def pump(self):
        """let the real MessageManager.run() serve everything that is pending"""
        if not (self.listen.pending() or any(m.pending() for m in list(self.mgr.modules) if m is not self.listen)):
            return
        self.pumps += 1
        self.mgr.run()
        for s in list(self.mgr.modules):
            s.closed = False        # run()'s `finally` closed the fakes; the Module table is intact

    # --- connections ------------------------------------------------------------------------
    def new_pipe(self, name: str) -> Pipe:
        p = Pipe(name)
        p.cli_end.world = self
        self.listen.backlog.append(p)
        return p

    def module_of(self, pipe: Pipe):
        return self.mgr.modules.get(pipe.mgr_end)


def frames_of(buf: bytes, hsize: int = 48) -> List[Tuple[int, bytes, bytes]]:
    out = []
    pos = 0
    while len(buf) - pos >= hsize:
        mt = struct.unpack_from("<i", buf, pos)[0]
        n = struct.unpack_from("<i", buf, pos + 32)[0]
        out.append((mt, bytes(buf[pos:pos + hsize]), bytes(buf[pos + hsize:pos + hsize + n])))
        pos += hsize + n
    if pos != len(buf):
        raise C.MachineryError("partial frame in a pipe")
    return out


CTL_NAME: Dict[int, str] = {}


class Pair:
    """one real Client connected to the real manager, plus the raw probe connection"""

    def __init__(self):
        self.w = World()
        cd = self.w.cd
        CTL_NAME.update({cd.MT_SUBSCRIBE: "subscribe", cd.MT_UNSUBSCRIBE: "unsubscribe",
                         cd.MT_PAUSE_SUBSCRIPTION: "pause", cd.MT_RESUME_SUBSCRIPTION: "resume"})
        self.client = self.w.PC.Client(module_id=0)
        try:
            PV.get_sock(self.client).close()
        except Exception:
            pass
        self.pipe: Optional[Pipe] = None
        self.probe = self.w.new_pipe("probe")
        self.connect()

    def connect(self):
        """what Client.connect does after the TCP connect: `_connect_helper` + `send_module_ready`"""
        c = self.client
        self.pipe = self.w.new_pipe("client")
        PV.set_sock(c, self.pipe.cli_end)
        PV.set_connected(c, True)
        c._connect_helper(False, False, False)
        c.send_module_ready()
        self.w.pump()

    def reconnect(self):
        self.client.disconnect()
        self.w.pump()
        self.connect()

    def reconnect_after_loss(self):
        """the connection dies (the client has seen ConnectionLost: `_connected` False, sets untouched), the
        manager reads EOF and drops the module; then the application connects again"""
        PV.set_connected(self.client, False)
        self.pipe.eof = True
        self.w.pump()
        self.connect()

    def mark(self) -> int:
        return len(self.pipe.cli_end.sent)

    def ctl_frames_since(self, mark: int) -> List[str]:
        out = []
        for b in self._joined(self.pipe.cli_end.sent[mark:]):
            mt, hdr, pay = b
            if mt in CTL_NAME:
                out.append(f"{CTL_NAME[mt]}:{struct.unpack('<i', pay[:4])[0]}")
            elif mt == self.w.cd.MT_DISCONNECT:
                out.append("reset")
        return out

    @staticmethod
    def _joined(chunks: List[bytes]):
        return frames_of(b"".join(chunks))

    def observe(self, U: Sequence[int]) -> Dict[str, Any]:
        """pump, then probe every type of U from the raw connection and see what reaches the client's socket"""
        w = self.w
        w.pump()
        del self.pipe.to_cli[:]          # ACKs, CLIENT_INFO ... queued so far
        H = w.mgr.header_cls
        from pyrtma.validators import disable_message_validation
        for t in U:
            h = H()
            with disable_message_validation():
                h.msg_type = t
                h.num_data_bytes = 0
                h.src_mod_id = 0
                h.dest_mod_id = 0
                h.dest_host_id = 0
            self.probe.to_mgr += bytes(h)
        w.pump()
        got = [mt for mt, _, _ in frames_of(bytes(self.pipe.to_cli))]
        del self.pipe.to_cli[:]
        delivered = sorted(t for t in set(U) if t in got)
        dup = [t for t in set(U) if got.count(t) > 1]
        mod = w.module_of(self.pipe)
        msubs = sorted(mod.subs) if mod is not None else []
        index = sorted(t for t, s in w.mgr.subscriptions.items() if mod is not None and mod in s)
        c = self.client
        return {"S": sorted(c.subscribed_types), "P": sorted(c.paused_subscribed_types), "D": delivered,
                "M": msubs, "I": index, "A": int(PV.get_sub_all(c)), "dup": dup}


def _ph(status: str, frames: List[str], o: Dict[str, Any]) -> str:
    j = lambda l: " ".join(map(str, l))  # noqa: E731
    return (f"PH {status} {len(frames)} S {j(o['S'])} P {j(o['P'])} D {j(o['D'])} F {j(sorted(frames))} "
            f"M {j(o['M'])} I {j(o['I'])} A {o['A']}")


def _status(EX, e: Optional[BaseException]) -> str:
    if e is None:
        return "ok"
    if isinstance(e, EX.InvalidSubscription):
        return "refused"
    return f"crash:{type(e).__name__}"


def run_case(cid: str, case: Dict[str, Any]) -> List[str]:
    """case: U [types], ops [(kind, [types])]"""
    from .read_corr import cpu_guard, Hang, HANGS, HANG_BREAKER, note_hang
    if HANGS[0] >= HANG_BREAKER:
        raise Hang("skipped: this process has already seen %d cases that did not return" % HANGS[0])
    try:
        with cpu_guard(4.0):    # an endless loop in the code under test ends the case (`Hang`), not the harness
            return _run_case(cid, case)
    except Hang:
        note_hang()
        raise


def _run_case(cid: str, case: Dict[str, Any]) -> List[str]:
    from pyrtma import exceptions as EX
    logging.getLogger().setLevel(logging.CRITICAL + 10)
    pr = Pair()
    c = pr.client
    U = case["U"]
    lines = [f"CASE {cid} {pr.w.cd.ALL_MESSAGE_TYPES}", "U " + " ".join(map(str, U))]
    with warnings.catch_warnings():
        warnings.simplefilter("ignore")
        for opno, (kind, args) in enumerate(case["ops"]):
            lines.append(f"OP {kind} " + " ".join(map(str, args)))
            mark = pr.mark()
            # the API takes any iterable of ids: every second call gets a tuple instead of a list (same order, duplicates kept)
            args = tuple(args) if opno % 2 else list(args)
            if kind in ("subCtx", "pauseCtx"):
                cm = (c.subscription_context if kind == "subCtx" else c.paused_subscription_context)(args)
                try:
                    cm.__enter__()
                    err = None
                except Exception as e:  # noqa: BLE001
                    err = e
                lines.append(_ph(_status(EX, err), pr.ctl_frames_since(mark), pr.observe(U)))
                if err is None:
                    mark = pr.mark()
                    try:
                        cm.__exit__(None, None, None)
                        err = None
                    except Exception as e:  # noqa: BLE001
                        err = e
                    lines.append(_ph(_status(EX, err), pr.ctl_frames_since(mark), pr.observe(U)))
                continue
            try:
                if kind == "subscribe":
                    c.subscribe(args)
                elif kind == "unsubscribe":
                    c.unsubscribe(args)
                elif kind == "pause":
                    c.pause_subscription(args)
                elif kind == "resume":
                    c.resume_subscription(args)
                elif kind == "unsubAll":
                    c.unsubscribe_from_all()
                elif kind == "pauseAll":
                    c.pause_all_subscriptions()
                elif kind == "resumeAll":
                    c.resume_all_subscriptions()
                elif kind == "reconnect":
                    pr.reconnect()
                elif kind == "reconnectLost":
                    pr.reconnect_after_loss()
                else:
                    raise C.MachineryError(f"unknown op {kind}")
                err = None
            except C.MachineryError:
                raise
            except Exception as e:  # noqa: BLE001
                err = e
            if kind in ("reconnect", "reconnectLost") and err is None:
                fr = ["reset"]
            else:
                fr = pr.ctl_frames_since(mark)
            lines.append(_ph(_status(EX, err), fr, pr.observe(U)))
    lines.append("END")
    PV.set_connected(c, False)
    return lines


# ------------------------------------------------------------------------------------------------
# generators
# ------------------------------------------------------------------------------------------------
ALLT = 2147483647
T = [101, 102, 103]
FRESH = 104


def boundary_types() -> List[int]:
    """message ids at the edges of what the client API accepts (any int32): the lowest ids, both sides of
    MAX_MESSAGE_TYPES (the definition compiler accepts 0..MAX_MESSAGE_TYPES inclusive), a large id, the neighbour of
    ALL_MESSAGE_TYPES, negative ids.  None of them is a type the manager handles itself."""
    try:
        import pyrtma.core_defs as cd
        m = int(cd.MAX_MESSAGE_TYPES)
    except Exception:  # noqa: BLE001
        m = 10000
    return [0, 1, m - 1, m, m + 1, 65536, ALLT - 1, -1, -2147483648]


def arg_lists(maxlen: int) -> List[List[int]]:
    """every argument list over {t1,t2,t3,ALL} up to maxlen, duplicates included"""
    out: List[List[int]] = []
    for n in range(0, maxlen + 1):
        out += [list(p) for p in itertools.product(T + [ALLT], repeat=n)]
    return out


LIST_OPS = ["subscribe", "unsubscribe", "pause", "resume", "subCtx", "pauseCtx"]
NULLARY = ["unsubAll", "pauseAll", "resumeAll", "reconnect", "reconnectLost"]


def all_ops(maxlen: int) -> List[Tuple[str, List[int]]]:
    ops: List[Tuple[str, List[int]]] = [(k, []) for k in NULLARY]
    for k in LIST_OPS:
        ops += [(k, l) for l in arg_lists(maxlen)]
    return ops


def reach_prefixes() -> List[List[Tuple[str, List[int]]]]:
    """short op sequences that reach every client state over {t1,t2,t3}: each type none/subscribed/paused, and ALL"""
    pres: List[List[Tuple[str, List[int]]]] = []
    for st in itertools.product("nsp", repeat=3):
        subs = [T[i] for i in range(3) if st[i] == "s"]
        paus = [T[i] for i in range(3) if st[i] == "p"]
        pre: List[Tuple[str, List[int]]] = []
        if subs:
            pre.append(("subscribe", subs))
        if paus:
            pre.append(("pause", paus))
        pres.append(pre)
    pres.append([("subscribe", [ALLT])])
    pres.append([("subscribe", [T[0]]), ("pause", [T[1]]), ("subscribe", [ALLT])])
    return pres


def exhaustive(arglen: int, seqlen: int):
    U = T + [FRESH]
    ops1 = all_ops(arglen)
    # every reachable state x every op x every argument list
    for pre in reach_prefixes():
        for op in ops1:
            yield {"U": U, "ops": pre + [op, ("resumeAll", [])], "tag": "state-x-op"}
    # all sequences of <= seqlen operations with short argument lists
    ops2 = all_ops(1) + [(k, l) for k in LIST_OPS for l in ([T[0], T[1]], [T[1], T[0], T[1]], [ALLT, T[0]],
                                                            [T[0], T[1], T[2]])]
    for n in range(2, seqlen + 1):
        for seq in itertools.product(ops2, repeat=n):
            yield {"U": U, "ops": list(seq), "tag": f"seq{n}"}


def rand_case(rng, n_ops: int = 30) -> Dict[str, Any]:
    pool = [101, 102, 103, 105, 106, 107, 108]
    if rng.random() < 0.3:      # ids at the edges of the id space next to ordinary ones
        pool = pool[:3] + rng.sample(boundary_types(), 4)
    U = pool + [FRESH]
    ops = []
    for _ in range(rng.randint(3, n_ops)):
        r = rng.random()
        if r < 0.12:
            ops.append((rng.choice(NULLARY[:3]), []))
        elif r < 0.16:
            ops.append((rng.choice(["reconnect", "reconnectLost"]), []))
        else:
            k = rng.choice(LIST_OPS)
            n = rng.choice([0, 1, 1, 2, 2, 3, 4, 6])
            l = [rng.choice(pool) for _ in range(n)]
            if rng.random() < 0.12:
                l.insert(rng.randint(0, len(l)), ALLT)
            if rng.random() < 0.2 and l:
                l.append(rng.choice(l))
            ops.append((k, l))
    return {"U": U, "ops": ops, "tag": "random"}


def directed() -> List[Dict[str, Any]]:
    U = T + [FRESH]
    d = [
        # C02-F1: a second subscribe / resume [ALL]
        [("subscribe", [ALLT]), ("subscribe", [ALLT])],
        [("subscribe", [ALLT]), ("resume", [ALLT])],
        [("subscribe", [ALLT]), ("subscribe", [ALLT, 101])],
        # C02-F2: context lists overlapping the state in adjacent positions
        [("subscribe", [101, 102, 103]), ("subCtx", [101, 102, 104])],
        [("subscribe", [101]), ("pauseCtx", [105, 106, 101])],
        [("subscribe", [101, 102]), ("subCtx", [101, 102])],
        # C02-F3: context on a paused type
        [("subscribe", [101]), ("pause", [101]), ("subCtx", [101])],
        [("pause", [102]), ("subCtx", [102, 103])],
        # refused while subscribed to all
        [("subscribe", [ALLT]), ("subscribe", [101]), ("unsubscribe", [101]), ("pause", [101]), ("resume", [101]),
         ("subCtx", [101]), ("pauseCtx", [101]), ("resumeAll", []), ("subscribe", [])],
        [("subscribe", [101]), ("pauseAll", []), ("resumeAll", [])],
        [("subscribe", [ALLT]), ("pauseAll", []), ("resumeAll", [])],
        [("subscribe", [101]), ("reconnect", []), ("subscribe", [102])],
        [("subscribe", [101]), ("pause", [102]), ("reconnectLost", []), ("subscribe", [103])],
        [("subscribe", [ALLT]), ("reconnectLost", []), ("subscribe", [103])],
    ]
    out = [{"U": U + [105, 106], "ops": ops, "tag": "directed"} for ops in d]
    # every operation on ids at the edges of the id space (one probe per edge id after every phase)
    B = boundary_types()
    UB = B + [101]
    for b in B:
        o = B[(B.index(b) + 1) % len(B)]
        out.append({"U": UB, "tag": "directed-boundary", "ops": [
            ("subscribe", [b]), ("pause", [b]), ("resume", [b]), ("pauseCtx", [b, 101]), ("unsubscribe", [b]),
            ("subCtx", [b, o]), ("subscribe", [101, b, o]), ("pauseAll", []), ("resumeAll", []), ("subCtx", [o, b]),
            ("unsubAll", []), ("pause", [b]), ("subCtx", [b]), ("resumeAll", []), ("subscribe", [ALLT]), ("subscribe", [b]),
            ("unsubscribe", [ALLT]), ("resume", [b, o])]})
    out.append({"U": UB, "tag": "directed-boundary", "ops": [("subscribe", B), ("pause", B[::2]), ("unsubscribe", B[1::2]),
                                                              ("resumeAll", []), ("pauseCtx", B), ("unsubAll", [])]})
    return out


# ------------------------------------------------------------------------------------------------
# life cycle: one Client object over several sessions (second layer of M2)
# ------------------------------------------------------------------------------------------------
class LifePair:
    """one real `Client` object (never connected yet), the real manager, a raw probe connection and `others`: raw
    connections of other programs that completed a handshake before the client's first call"""

    def __init__(self, created: int, others: Sequence[Tuple[int, bool]] = (), burn: int = 0):
        self.w = World()
        w = self.w
        cd = w.cd
        CTL_NAME.update({cd.MT_SUBSCRIBE: "subscribe", cd.MT_UNSUBSCRIBE: "unsubscribe",
                         cd.MT_PAUSE_SUBSCRIPTION: "pause", cd.MT_RESUME_SUBSCRIPTION: "resume"})
        self.probe = w.new_pipe("probe")
        w.pump()
        self.other_pipes = []
        for req, allow in others:
            p = w.new_pipe("other")
            p.to_mgr += self._v2(req, allow)
            self.other_pipes.append(p)
            w.pump()
        for _ in range(burn):       # move the dynamic-id cursor: connect dynamically and leave again
            p = w.new_pipe("burn")
            p.to_mgr += self._v2(0, False)
            w.pump()
            p.eof = True
            w.pump()
        self.others = [(m.mod_id, int(m.unique)) for m in w.mgr.modules.values()]
        self.cursor0 = w.mgr.next_dynamic_mod_id_offset
        self.client = w.PC.Client(module_id=created)

    def _v2(self, req: int, allow: bool) -> bytes:
        from pyrtma.validators import disable_message_validation
        cd = self.w.cd
        m = cd.MDF_CONNECT_V2()
        h = self.w.mgr.header_cls()
        with disable_message_validation():
            m.mod_id = req
            m.allow_multiple = int(allow)
            h.msg_type = cd.MT_CONNECT_V2
            h.num_data_bytes = ctypes_sizeof(m)
            h.src_mod_id = req
        return bytes(h) + bytes(m)

    # --- the client's connections ------------------------------------------------------------
    def own_pipes(self) -> List[Pipe]:
        return [s.end.pipe for s in self.w.cli_socks if s.end is not None]

    def cur(self) -> Optional[Pipe]:
        ps = self.own_pipes()
        return ps[-1] if ps else None

    def mark(self) -> int:
        return len(self.w.cli_log)

    def wire_since(self, mark: int) -> Tuple[List[str], Optional[int]]:
        """subscription control frames and the CONNECT_V2.mod_id the client wrote since `mark`"""
        cd = self.w.cd
        out: List[str] = []
        req: Optional[int] = None
        for mt, hdr, pay in frames_of(b"".join(self.w.cli_log[mark:])):
            if mt in CTL_NAME:
                out.append(f"{CTL_NAME[mt]}:{struct.unpack('<i', pay[:4])[0]}")
            elif mt == cd.MT_CONNECT_V2 and req is None:
                req = int(cd.MDF_CONNECT_V2.from_buffer_copy(pay).mod_id)
        return out, req

    def ack_on(self, pipe: Optional[Pipe]) -> Optional[int]:
        if pipe is None:
            return None
        H = self.w.mgr.header_cls
        for mt, hdr, pay in frames_of(bytes(pipe.mgr_sent)):
            if mt == self.w.cd.MT_ACKNOWLEDGE:
                return int(H.from_buffer_copy(hdr).dest_mod_id)
        return None

    def observe(self, U: Sequence[int]) -> Dict[str, Any]:
        w = self.w
        w.pump()
        pipe = self.cur()
        if pipe is not None:
            del pipe.to_cli[:]
        H = w.mgr.header_cls
        from pyrtma.validators import disable_message_validation
        for t in U:
            h = H()
            with disable_message_validation():
                h.msg_type = t
                h.num_data_bytes = 0
            self.probe.to_mgr += bytes(h)
        w.pump()
        got: List[int] = []
        if pipe is not None:
            got = [mt for mt, _, _ in frames_of(bytes(pipe.to_cli))]
            del pipe.to_cli[:]
        mod = w.module_of(pipe) if pipe is not None else None
        c = self.client
        table = []
        for p in self.own_pipes():
            m = w.module_of(p)
            if m is not None:
                table.append(f"{m.mod_id}:{int(m.connected)}:{int(m.unique)}:[{','.join(map(str, sorted(m.subs)))}]")
        return {"S": sorted(c.subscribed_types), "P": sorted(c.paused_subscribed_types),
                "D": sorted(t for t in set(U) if t in got),
                "M": sorted(mod.subs) if mod is not None else [],
                "I": sorted(t for t, s in w.mgr.subscriptions.items() if mod is not None and mod in s),
                "A": int(PV.get_sub_all(c)), "C": int(bool(c.connected)), "N": int(c.module_id),
                "H": sorted(m.mod_id for m in w.mgr.modules.values() if m is not mod),
                "T": table, "X": w.mgr.next_dynamic_mod_id_offset,
                "dup": [t for t in set(U) if got.count(t) > 1]}

    # --- events --------------------------------------------------------------------------------
    def kill(self, noticed: bool, how: str = "fin"):
        """the current connection dies; with `noticed` the manager reads EOF on it at once"""
        p = self.cur()
        p.cut = how
        if noticed:
            p.eof = True
            self.w.pump()

    def mgr_notices(self):
        cur = self.cur()
        for p in self.own_pipes():
            if p is cur and self.client.connected:
                continue
            if self.w.module_of(p) is not None:
                p.eof = True
        self.w.pump()


def ctypes_sizeof(x) -> int:
    import ctypes
    return ctypes.sizeof(x)


def _lph(status: str, frames: List[str], o: Dict[str, Any], req: Optional[int], ack: Optional[int]) -> str:
    j = lambda l: " ".join(map(str, l))  # noqa: E731
    d = lambda v: "-" if v is None else str(v)  # noqa: E731
    return (f"LPH {status} {len(frames)} S {j(o['S'])} P {j(o['P'])} D {j(o['D'])} F {j(sorted(frames))} "
            f"M {j(o['M'])} I {j(o['I'])} A {o['A']} C {o['C']} N {o['N']} R {d(req)} K {d(ack)} H {j(o['H'])} "
            f"T {j(o['T'])} X {o['X']}")


def _lstatus(EX, e: Optional[BaseException]) -> str:
    if e is None:
        return "ok"
    if isinstance(e, EX.InvalidSubscription):
        return "refused"
    if isinstance(e, EX.NotConnectedError):
        return "notConnected"
    if isinstance(e, EX.ConnectionLost):
        return "lost"
    if isinstance(e, EX.AcknowledgementTimeout):
        return "ackTimeout"
    return f"crash:{type(e).__name__}"


def _call(f) -> Optional[BaseException]:
    try:
        f()
        return None
    except C.MachineryError:
        raise
    except Exception as e:  # noqa: BLE001  every exception of the code under test is an observation
        return e


SUB_CALL = {"subscribe": "subscribe", "unsubscribe": "unsubscribe", "pause": "pause_subscription",
            "resume": "resume_subscription"}


def run_life_case(cid: str, case: Dict[str, Any]) -> List[str]:
    """case: created, others [(req id, allow)], burn, U [types], ops [(kind, args...)]"""
    from .read_corr import cpu_guard, Hang, HANGS, HANG_BREAKER, note_hang
    if HANGS[0] >= HANG_BREAKER:
        raise Hang("skipped: this process has already seen %d cases that did not return" % HANGS[0])
    try:
        with cpu_guard(4.0):
            return _run_life_case(cid, case)
    except Hang:
        note_hang()
        raise


def _run_life_case(cid: str, case: Dict[str, Any]) -> List[str]:
    from pyrtma import exceptions as EX
    logging.getLogger().setLevel(logging.CRITICAL + 10)
    lp = LifePair(case["created"], case.get("others", ()), case.get("burn", 0))
    c = lp.client
    try:
        c.logger.enable_console = False
    except Exception:  # noqa: BLE001
        pass
    cd = lp.w.cd
    U = case["U"]
    lines = [f"LCASE {cid} {cd.ALL_MESSAGE_TYPES} {cd.DYN_MOD_ID_START} {cd.MAX_MODULES} {case['created']} {lp.cursor0}"
             + (" ids" if case.get("proj") == "ids" else ""),
             "U " + " ".join(map(str, U))]
    lines += [f"OTHER {i} {u}" for i, u in lp.others]
    flip = 0
    with warnings.catch_warnings():
        warnings.simplefilter("ignore")
        for op in case["ops"]:
            kind = op[0]
            mark = lp.mark()
            n_socks = len(lp.own_pipes())

            def emit(err, ack_from_new=True):
                fr, req = lp.wire_since(mark)
                ps = lp.own_pipes()
                ack = lp.ack_on(ps[-1]) if (len(ps) > n_socks and ack_from_new) else None
                lines.append(_lph(_lstatus(EX, err), fr, lp.observe(U), req, ack))

            if kind == "connect":
                lines.append(f"LOP connect {int(op[1])}")
                emit(_call(lambda: c.connect("h:1", False, False, bool(op[1]))))
            elif kind == "connectLate":
                # the manager is busy: it gets to the new connection only after the client's 3 s are over
                lines.append(f"LOP connectLate {int(op[1])}")
                real_pump = lp.w.pump
                lp.w.pump = lambda: None
                try:
                    err = _call(lambda: c.connect("h:1", False, False, bool(op[1])))
                finally:
                    lp.w.pump = real_pump
                lp.w.pump()
                emit(err)
            elif kind == "disconnect":
                lines.append("LOP disconnect")
                emit(_call(c.disconnect))
            elif kind in ("lostRead", "lostSend"):
                lines.append(f"LOP {kind} {int(op[1])}")
                flip += 1
                if c.connected:
                    lp.kill(bool(op[1]), "rst" if flip % 2 else "fin")
                if kind == "lostRead":
                    emit(_call(lambda: c.read_message(timeout=0.05)))
                else:
                    emit(_call(lambda: c.send_signal(1234)))
            elif kind == "ctlLost":
                _, k, noticed, args = op
                lines.append(f"LOP ctlLost {k} {int(noticed)} " + " ".join(map(str, args)))
                was = c.connected
                if was:
                    lp.cur().cut = "rst"
                err = _call(lambda: getattr(c, SUB_CALL[k])(list(args)))
                if was:
                    if isinstance(err, EX.ConnectionLost):
                        if noticed:
                            lp.cur().eof = True
                            lp.w.pump()
                    else:
                        lp.cur().cut = ""       # the call never touched the socket
                emit(err)
            elif kind == "mgrNotices":
                lines.append("LOP mgrNotices")
                lp.mgr_notices()
                emit(None)
            elif kind == "sub":
                _, k, args = op
                lines.append(f"LOP sub {k} " + " ".join(map(str, args)))
                if k in ("subCtx", "pauseCtx"):
                    cm = (c.subscription_context if k == "subCtx" else c.paused_subscription_context)(list(args))
                    err = _call(cm.__enter__)
                    emit(err)
                    if err is None:
                        mark = lp.mark()
                        emit(_call(lambda: cm.__exit__(None, None, None)))
                elif k in SUB_CALL:
                    emit(_call(lambda: getattr(c, SUB_CALL[k])(list(args))))
                elif k == "unsubAll":
                    emit(_call(c.unsubscribe_from_all))
                elif k == "pauseAll":
                    emit(_call(c.pause_all_subscriptions))
                elif k == "resumeAll":
                    emit(_call(c.resume_all_subscriptions))
                elif k == "reconnect":
                    emit(_call(c.disconnect))
                    mark = lp.mark()
                    n_socks = len(lp.own_pipes())
                    emit(_call(lambda: c.connect("h:1")))
                else:
                    raise C.MachineryError(f"unknown sub op {k}")
            else:
                raise C.MachineryError(f"unknown life op {kind}")
    lines.append("END")
    PV.set_connected(c, False)
    return lines


# --- life-cycle generators ---------------------------------------------------------------------
LIFE_ALPHABET: List[Tuple] = [
    ("connect", 0), ("connect", 1), ("disconnect",), ("lostRead", 0), ("lostRead", 1), ("lostSend", 0), ("lostSend", 1),
    ("mgrNotices",), ("ctlLost", "subscribe", 0, [103]), ("ctlLost", "pause", 1, [101]), ("ctlLost", "unsubscribe", 0, []),
    ("sub", "subscribe", [101]), ("sub", "subscribe", [ALLT]), ("sub", "pause", [101]), ("sub", "subCtx", [102, 103]),
    ("sub", "unsubAll", []), ("sub", "reconnect", []),
]
LIFE_PREFIXES: List[List[Tuple]] = [
    [],
    [("connect", 0), ("sub", "subscribe", [101, 102]), ("sub", "pause", [102])],
    [("connect", 1), ("sub", "subscribe", [ALLT])],
]
LIFE_SETUPS = [  # (created id, others [(requested id, allow_multiple)], dynamic connects burnt before)
    (0, [], 0), (12, [], 0), (0, [(0, False), (0, False)], 1), (12, [(12, True)], 0), (0, [(0, False)], 99),
]


def life_exhaustive(seqlen: int):
    U = T + [FRESH]
    tail = [("connect", 0), ("sub", "subscribe", [103]), ("lostRead", 1)]
    for created, others, burn in LIFE_SETUPS:
        for pre in LIFE_PREFIXES:
            for n in range(1, seqlen + 1):
                if n == seqlen and (burn or others) and seqlen > 2:
                    continue        # the longest sequences only on the two plain setups
                for seq in itertools.product(LIFE_ALPHABET, repeat=n):
                    yield {"life": True, "created": created, "others": others, "burn": burn, "U": U,
                           "ops": pre + list(seq) + tail, "tag": f"life-seq{n}"}


def life_rand_case(rng, n_ops: int = 25) -> Dict[str, Any]:
    pool = [101, 102, 103, 105, 106]
    U = pool + [FRESH]
    created = rng.choice([0, 0, 12, 57, 99])
    others: List[Tuple[int, bool]] = []
    for _ in range(rng.choice([0, 0, 1, 2, 3])):
        r = rng.random()
        if r < 0.5:
            others.append((0, rng.random() < 0.3))
        elif r < 0.8:
            others.append((created or 31, rng.random() < 0.6))
        else:
            others.append((rng.choice([1, 12, 57, 100]), rng.random() < 0.5))
    burn = rng.choice([0, 0, 0, 1, 5, 98, 99, 100, 101])
    ops: List[Tuple] = []

    def types():
        n = rng.choice([0, 1, 1, 2, 3])
        l = [rng.choice(pool) for _ in range(n)]
        if rng.random() < 0.12:
            l.insert(rng.randint(0, len(l)), ALLT)
        return l

    for _ in range(rng.randint(3, n_ops)):
        r = rng.random()
        if r < 0.015:
            ops.append(("connectLate", int(rng.random() < 0.4)))
        elif r < 0.18:
            ops.append(("connect", int(rng.random() < 0.4)))
        elif r < 0.25:
            ops.append(("disconnect",))
        elif r < 0.31:
            ops.append(("lostRead", int(rng.random() < 0.5)))
        elif r < 0.37:
            ops.append(("lostSend", int(rng.random() < 0.5)))
        elif r < 0.43:
            ops.append(("ctlLost", rng.choice(list(SUB_CALL)), int(rng.random() < 0.5), types()))
        elif r < 0.49:
            ops.append(("mgrNotices",))
        elif r < 0.53:
            ops.append(("sub", rng.choice(["unsubAll", "pauseAll", "resumeAll"]), []))
        elif r < 0.55:
            ops.append(("sub", "reconnect", []))
        else:
            ops.append(("sub", rng.choice(LIST_OPS), types()))
    return {"life": True, "created": created, "others": others, "burn": burn, "U": U, "ops": ops, "tag": "life-random"}


def life_directed() -> List[Dict[str, Any]]:
    U = T + [FRESH]
    sub = lambda k, l: ("sub", k, l)  # noqa: E731
    d: List[Tuple[int, List[Tuple[int, bool]], int, List[Tuple]]] = [
        # seeded C08d / C02c: the sets survive a lost connection and must be gone after the next connect
        (12, [], 0, [("connect", 0), sub("subscribe", [101]), ("lostRead", 1), ("connect", 0)]),
        (12, [], 0, [("connect", 0), sub("subscribe", [ALLT]), ("lostSend", 1), ("connect", 0), sub("subscribe", [102])]),
        (0, [], 0, [("connect", 0), sub("subscribe", [101]), sub("pause", [101]), ("ctlLost", "subscribe", 1, [102]),
                    ("connect", 0), sub("resumeAll", [])]),
        # seeded C06d: a dynamic client must ask for id 0 again, however the session ended; the old id may still be held
        (0, [], 0, [("connect", 0), ("lostRead", 0), ("connect", 0), ("mgrNotices",), ("connect", 0)]),
        (0, [(0, False)], 0, [("connect", 0), ("lostSend", 0), ("connect", 0), ("disconnect",), ("connect", 0)]),
        (0, [], 0, [("connect", 0), ("connect", 0), ("connect", 1), ("disconnect",), ("connect", 0)]),
        # a unique static id whose old connection the manager has not noticed yet: refused until it does
        (12, [], 0, [("connect", 0), sub("subscribe", [101]), ("lostRead", 0), ("connect", 0), sub("subscribe", [102]),
                     ("mgrNotices",), ("connect", 0), sub("subscribe", [103])]),
        (12, [], 0, [("connect", 1), ("lostRead", 0), ("connect", 1), ("connect", 0)]),
        (12, [(12, True)], 0, [("connect", 0), ("connect", 1), sub("subscribe", [101]), ("connect", 1)]),
        # every dynamic id taken: refused
        (0, [], 100, [("connect", 0)]),
        # C02-F4 (fixed by 5d9f32d): the handshake is answered too late; the object must end disconnected
        (12, [], 0, [("connect", 0), sub("subscribe", [101, 102]), ("lostRead", 1), ("connectLate", 0), sub("subscribe", [103]),
                     ("connect", 0)]),
        (0, [], 0, [("connect", 0), sub("subscribe", [ALLT]), ("lostSend", 0), ("connectLate", 0), ("disconnect",), ("connect", 0)]),
        (0, [], 0, [("connectLate", 0), sub("subscribe", [101]), ("connectLate", 1), ("connect", 0)]),
        # calls on a client that was never connected / is disconnected
        (0, [], 0, [sub("subscribe", [101]), sub("subCtx", [101]), ("lostRead", 0), ("disconnect",), ("mgrNotices",),
                    ("connect", 0), ("disconnect",), sub("unsubAll", []), ("ctlLost", "pause", 0, [101])]),
    ]
    return [{"life": True, "created": c, "others": o, "burn": b, "U": U, "ops": ops, "tag": "life-directed"}
            for c, o, b, ops in d]


def life_id_cases(rng, n_random: int) -> List[Dict[str, Any]]:
    """the life-cycle histories as C06 uses them (identity projection): the directed ones, every sequence of <= 2
    identity-relevant operations on every set-up, random histories"""
    ident = [op for op in LIFE_ALPHABET if op[0] != "sub" or op[1] in ("reconnect",)] + [("sub", "subscribe", [101])]
    out = [dict(c, proj="ids") for c in life_directed()]
    U = T + [FRESH]
    for created, others, burn in LIFE_SETUPS + [(57, [(57, False)], 3), (0, [(0, True), (12, False)], 98)]:
        for n in (1, 2):
            for seq in itertools.product(ident, repeat=n):
                out.append({"life": True, "proj": "ids", "created": created, "others": others, "burn": burn, "U": U,
                            "ops": [("connect", 0)] + list(seq) + [("connect", 1), ("connect", 0)], "tag": f"life-id-seq{n}"})
    out += [dict(life_rand_case(rng, 20), proj="ids") for _ in range(n_random)]
    return out
