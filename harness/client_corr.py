"""Tie B for M2 (Model/ClientSub.lean): the real `Client` subscription API wired to the real
`MessageManager.run()` in one process, no network and no threads, against the Lean model; plus the Spec of C02
evaluated on what the real pair did.

No hooks in /repo.  `pyrtma.manager.{socket,select,time,random}` are rebound to a socket shim (fake listen socket
with `accept`, duplex in-memory connections), a scripted `select`, a frozen clock and a no-op `shuffle`;
`pyrtma.client.{select,time}` likewise.  Whenever the client side waits for data (or after every phase), the
manager is *pumped*: `MessageManager.run()` itself executes, serving every pending connection one message per
round, until nothing is pending; then the scripted select calls `mgr.close()` and `run()` returns.  (`run()` closes
its sockets in a `finally`; the fakes are re-opened for the next pump — the Module table is untouched by that.)

After each phase of an API call a second, raw connection sends one probe message per type of the universe `U`
and the bytes that arrive on the client's socket are decoded: that is the `delivered` set.

Case grammar sent to `drv_clientsub`:
    CASE <id> <ALL_MESSAGE_TYPES>
    U <type> ...
    OP <subscribe|unsubscribe|pause|resume|subCtx|pauseCtx> <type> ... | OP unsubAll|pauseAll|resumeAll|reconnect|reconnectLost
    PH <ok|refused|crash:X> <nframes> S <subscribed..> P <paused..> D <delivered..> F <kind:type..> M <Module.subs..>
       I <types whose subscriptions[] holds the module..> A <_sub_all 0|1>          (one per phase of the OP)
    END
"""
from __future__ import annotations

import itertools
import logging
import struct
import types
import warnings
from typing import Any, Dict, List, Optional, Sequence, Tuple

from . import common as C

MSG_WAITALL = 0x100


class WouldBlock(BaseException):
    pass


class Pipe:
    """one TCP connection: two byte queues"""

    def __init__(self, name: str):
        self.name = name
        self.to_mgr = bytearray()
        self.to_cli = bytearray()
        self.eof = False            # the client side is gone: the manager reads EOF
        self.mgr_end = MgrEnd(self)
        self.cli_end = CliEnd(self)


class MgrEnd:
    """the manager's socket object for a connection"""

    def __init__(self, pipe: Pipe):
        self.pipe = pipe
        self.closed = False

    def fileno(self):
        return 1000 + id(self) % 1000

    def pending(self) -> bool:
        return len(self.pipe.to_mgr) > 0 or (self.pipe.eof and not self.closed)

    def recv_into(self, buffer, nbytes=0, flags=0):
        mv = memoryview(buffer).cast("B")
        if nbytes == 0:
            nbytes = len(mv)
        if nbytes < 0 or nbytes > len(mv):
            raise ValueError("bad nbytes")
        q = self.pipe.to_mgr
        if len(q) == 0 and self.pipe.eof:
            return 0
        if len(q) < nbytes:
            raise C.MachineryError("manager would block on a partial frame (harness always writes whole frames)")
        mv[:nbytes] = q[:nbytes]
        del q[:nbytes]
        return nbytes

    def sendall(self, b, flags=0):
        self.pipe.to_cli += bytes(b)

    def setsockopt(self, *a):
        pass

    def close(self):
        self.closed = True

    def __hash__(self):
        return id(self)


class CliEnd:
    """the client's socket object"""

    def __init__(self, pipe: Pipe):
        self.pipe = pipe
        self.world: Optional["World"] = None
        self.sent: List[bytes] = []

    def fileno(self):
        return 2000 + id(self) % 1000

    def readable(self) -> bool:
        return len(self.pipe.to_cli) > 0

    def sendall(self, b, flags=0):
        bb = bytes(b)
        self.pipe.to_mgr += bb
        self.sent.append(bb)

    def _take(self, n: int) -> bytes:
        q = self.pipe.to_cli
        if len(q) < n and self.world is not None:
            self.world.pump()
        if len(q) < n:
            raise WouldBlock()
        out = bytes(q[:n])
        del q[:n]
        return out

    def recv(self, n, flags=0):
        return self._take(n)

    def recv_into(self, buffer, nbytes=0, flags=0):
        mv = memoryview(buffer).cast("B")
        if nbytes == 0:
            nbytes = len(mv)
        got = self._take(nbytes)
        mv[:len(got)] = got
        return len(got)

    def close(self):
        pass

    def setsockopt(self, *a):
        pass


class ListenSock:
    def __init__(self):
        self.backlog: List[Pipe] = []
        self.closed = False

    def bind(self, a):
        pass

    def listen(self, n):
        pass

    def setsockopt(self, *a):
        pass

    def fileno(self):
        return 999

    def pending(self) -> bool:
        return bool(self.backlog)

    def accept(self):
        p = self.backlog.pop(0)
        return p.mgr_end, ("127.0.0.1", 40000 + len(self.backlog))

    def close(self):
        self.closed = True

    def __hash__(self):
        return id(self)


class OrderedSet:
    """insertion-ordered set (reproducible recipient order); only what manager.py uses"""

    def __init__(self, it=()):
        self.d = dict.fromkeys(it)

    def add(self, x):
        self.d[x] = None

    def discard(self, x):
        self.d.pop(x, None)

    def __contains__(self, x):
        return x in self.d

    def __iter__(self):
        return iter(list(self.d))

    def __len__(self):
        return len(self.d)


class World:
    """one manager + connections"""

    def __init__(self):
        import pyrtma.manager as PM
        import pyrtma.client as PC
        import pyrtma.core_defs as cd
        self.PM, self.PC, self.cd = PM, PC, cd
        self.listen = ListenSock()
        world = self

        sockshim = types.SimpleNamespace(
            socket=lambda *a, **k: world.listen, AF_INET=2, SOCK_STREAM=1, IPPROTO_TCP=6, INADDR_ANY=0,
            SOMAXCONN=128, TCP_NODELAY=1, SOL_SOCKET=1, SO_REUSEADDR=2, MSG_WAITALL=MSG_WAITALL,
            getprotobyname=lambda n: 6)
        self.clock = 1000.0
        timeshim = types.SimpleNamespace(time=lambda: world.clock, perf_counter=lambda: world.clock,
                                         sleep=lambda s: None)
        PM.socket = sockshim
        PM.time = timeshim
        PM.random = types.SimpleNamespace(shuffle=lambda l: None)
        PM.select = types.SimpleNamespace(select=self.mgr_select)
        PC.select = types.SimpleNamespace(select=self.cli_select)
        PC.time = types.SimpleNamespace(perf_counter=self._cli_clock, sleep=lambda s: None, time=self._cli_clock)
        self._cclock = 0.0
        self.mgr = PM.MessageManager(ip_address="", port=7111, timecode=False, log_level=100, send_msg_timing=False)
        self.mgr.logger_modules = OrderedSet()
        self.pumps = 0

    def _cli_clock(self):
        self._cclock += 0.001
        return self._cclock

    # --- scripted selects ------------------------------------------------------------------
    def mgr_select(self, r, w, x, timeout=None):
        r = list(r)
        w = list(w)
        if not r:
            return [], w, []          # write-select: every connection takes data
        ready = [s for s in r if s.pending()]
        if not ready:
            self.mgr.close()
            return [], [], []
        return ready, [], []

    def cli_select(self, r, w, x, timeout=None):
        if r:
            self.pump()
            rr = [s for s in r if s.readable()]
            if not rr and timeout is None:
                raise WouldBlock()
            return rr, [], []
        return [], list(w), []

    def pump(self):
        """let the real MessageManager.run() serve everything that is pending"""
        if not (self.listen.pending() or any(m.pending() for m in list(self.mgr.modules) if m is not self.listen)):
            return
        self.pumps += 1
        self.mgr.run()
        for s in list(self.mgr.modules):
            s.closed = False        # run()'s `finally` closed the fakes; the Module table is intact

    # --- connections ------------------------------------------------------------------------
    def new_pipe(self, name: str) -> Pipe:
        p = Pipe(name)
        p.cli_end.world = self
        self.listen.backlog.append(p)
        return p

    def module_of(self, pipe: Pipe):
        return self.mgr.modules.get(pipe.mgr_end)


def frames_of(buf: bytes, hsize: int = 48) -> List[Tuple[int, bytes, bytes]]:
    out = []
    pos = 0
    while len(buf) - pos >= hsize:
        mt = struct.unpack_from("<i", buf, pos)[0]
        n = struct.unpack_from("<i", buf, pos + 32)[0]
        out.append((mt, bytes(buf[pos:pos + hsize]), bytes(buf[pos + hsize:pos + hsize + n])))
        pos += hsize + n
    if pos != len(buf):
        raise C.MachineryError("partial frame in a pipe")
    return out


CTL_NAME: Dict[int, str] = {}


class Pair:
    """one real Client connected to the real manager, plus the raw probe connection"""

    def __init__(self):
        self.w = World()
        cd = self.w.cd
        CTL_NAME.update({cd.MT_SUBSCRIBE: "subscribe", cd.MT_UNSUBSCRIBE: "unsubscribe",
                         cd.MT_PAUSE_SUBSCRIPTION: "pause", cd.MT_RESUME_SUBSCRIPTION: "resume"})
        self.client = self.w.PC.Client(module_id=0)
        try:
            self.client._sock.close()
        except Exception:
            pass
        self.pipe: Optional[Pipe] = None
        self.probe = self.w.new_pipe("probe")
        self.connect()

    def connect(self):
        """what Client.connect does after the TCP connect: `_connect_helper` + `send_module_ready`"""
        c = self.client
        self.pipe = self.w.new_pipe("client")
        c._sock = self.pipe.cli_end
        c._connected = True
        c._connect_helper(False, False, False)
        c.send_module_ready()
        self.w.pump()

    def reconnect(self):
        self.client.disconnect()
        self.w.pump()
        self.connect()

    def reconnect_after_loss(self):
        """the connection dies (the client has seen ConnectionLost: `_connected` False, sets untouched), the
        manager reads EOF and drops the module; then the application connects again"""
        self.client._connected = False
        self.pipe.eof = True
        self.w.pump()
        self.connect()

    def mark(self) -> int:
        return len(self.pipe.cli_end.sent)

    def ctl_frames_since(self, mark: int) -> List[str]:
        out = []
        for b in self._joined(self.pipe.cli_end.sent[mark:]):
            mt, hdr, pay = b
            if mt in CTL_NAME:
                out.append(f"{CTL_NAME[mt]}:{struct.unpack('<i', pay[:4])[0]}")
            elif mt == self.w.cd.MT_DISCONNECT:
                out.append("reset")
        return out

    @staticmethod
    def _joined(chunks: List[bytes]):
        return frames_of(b"".join(chunks))

    def observe(self, U: Sequence[int]) -> Dict[str, Any]:
        """pump, then probe every type of U from the raw connection and see what reaches the client's socket"""
        w = self.w
        w.pump()
        del self.pipe.to_cli[:]          # ACKs, CLIENT_INFO ... queued so far
        H = w.mgr.header_cls
        from pyrtma.validators import disable_message_validation
        for t in U:
            h = H()
            with disable_message_validation():
                h.msg_type = t
                h.num_data_bytes = 0
                h.src_mod_id = 0
                h.dest_mod_id = 0
                h.dest_host_id = 0
            self.probe.to_mgr += bytes(h)
        w.pump()
        got = [mt for mt, _, _ in frames_of(bytes(self.pipe.to_cli))]
        del self.pipe.to_cli[:]
        delivered = sorted(t for t in set(U) if t in got)
        dup = [t for t in set(U) if got.count(t) > 1]
        mod = w.module_of(self.pipe)
        msubs = sorted(mod.subs) if mod is not None else []
        index = sorted(t for t, s in w.mgr.subscriptions.items() if mod is not None and mod in s)
        c = self.client
        return {"S": sorted(c.subscribed_types), "P": sorted(c.paused_subscribed_types), "D": delivered,
                "M": msubs, "I": index, "A": int(bool(c._sub_all)), "dup": dup}


def _ph(status: str, frames: List[str], o: Dict[str, Any]) -> str:
    j = lambda l: " ".join(map(str, l))  # noqa: E731
    return (f"PH {status} {len(frames)} S {j(o['S'])} P {j(o['P'])} D {j(o['D'])} F {j(sorted(frames))} "
            f"M {j(o['M'])} I {j(o['I'])} A {o['A']}")


def _status(EX, e: Optional[BaseException]) -> str:
    if e is None:
        return "ok"
    if isinstance(e, EX.InvalidSubscription):
        return "refused"
    return f"crash:{type(e).__name__}"


def run_case(cid: str, case: Dict[str, Any]) -> List[str]:
    """case: U [types], ops [(kind, [types])]"""
    from pyrtma import exceptions as EX
    logging.getLogger().setLevel(logging.CRITICAL + 10)
    pr = Pair()
    c = pr.client
    U = case["U"]
    lines = [f"CASE {cid} {pr.w.cd.ALL_MESSAGE_TYPES}", "U " + " ".join(map(str, U))]
    with warnings.catch_warnings():
        warnings.simplefilter("ignore")
        for kind, args in case["ops"]:
            lines.append(f"OP {kind} " + " ".join(map(str, args)))
            mark = pr.mark()
            if kind in ("subCtx", "pauseCtx"):
                cm = (c.subscription_context if kind == "subCtx" else c.paused_subscription_context)(list(args))
                try:
                    cm.__enter__()
                    err = None
                except Exception as e:  # noqa: BLE001
                    err = e
                lines.append(_ph(_status(EX, err), pr.ctl_frames_since(mark), pr.observe(U)))
                if err is None:
                    mark = pr.mark()
                    try:
                        cm.__exit__(None, None, None)
                        err = None
                    except Exception as e:  # noqa: BLE001
                        err = e
                    lines.append(_ph(_status(EX, err), pr.ctl_frames_since(mark), pr.observe(U)))
                continue
            try:
                if kind == "subscribe":
                    c.subscribe(list(args))
                elif kind == "unsubscribe":
                    c.unsubscribe(list(args))
                elif kind == "pause":
                    c.pause_subscription(list(args))
                elif kind == "resume":
                    c.resume_subscription(list(args))
                elif kind == "unsubAll":
                    c.unsubscribe_from_all()
                elif kind == "pauseAll":
                    c.pause_all_subscriptions()
                elif kind == "resumeAll":
                    c.resume_all_subscriptions()
                elif kind == "reconnect":
                    pr.reconnect()
                elif kind == "reconnectLost":
                    pr.reconnect_after_loss()
                else:
                    raise C.MachineryError(f"unknown op {kind}")
                err = None
            except C.MachineryError:
                raise
            except Exception as e:  # noqa: BLE001
                err = e
            if kind in ("reconnect", "reconnectLost") and err is None:
                fr = ["reset"]
            else:
                fr = pr.ctl_frames_since(mark)
            lines.append(_ph(_status(EX, err), fr, pr.observe(U)))
    lines.append("END")
    c._connected = False
    return lines


# ------------------------------------------------------------------------------------------------
# generators
# ------------------------------------------------------------------------------------------------
ALLT = 2147483647
T = [101, 102, 103]
FRESH = 104


def arg_lists(maxlen: int) -> List[List[int]]:
    """every argument list over {t1,t2,t3,ALL} up to maxlen, duplicates included"""
    out: List[List[int]] = []
    for n in range(0, maxlen + 1):
        out += [list(p) for p in itertools.product(T + [ALLT], repeat=n)]
    return out


LIST_OPS = ["subscribe", "unsubscribe", "pause", "resume", "subCtx", "pauseCtx"]
NULLARY = ["unsubAll", "pauseAll", "resumeAll", "reconnect", "reconnectLost"]


def all_ops(maxlen: int) -> List[Tuple[str, List[int]]]:
    ops: List[Tuple[str, List[int]]] = [(k, []) for k in NULLARY]
    for k in LIST_OPS:
        ops += [(k, l) for l in arg_lists(maxlen)]
    return ops


def reach_prefixes() -> List[List[Tuple[str, List[int]]]]:
    """short op sequences that reach every client state over {t1,t2,t3}: each type none/subscribed/paused, and ALL"""
    pres: List[List[Tuple[str, List[int]]]] = []
    for st in itertools.product("nsp", repeat=3):
        subs = [T[i] for i in range(3) if st[i] == "s"]
        paus = [T[i] for i in range(3) if st[i] == "p"]
        pre: List[Tuple[str, List[int]]] = []
        if subs:
            pre.append(("subscribe", subs))
        if paus:
            pre.append(("pause", paus))
        pres.append(pre)
    pres.append([("subscribe", [ALLT])])
    pres.append([("subscribe", [T[0]]), ("pause", [T[1]]), ("subscribe", [ALLT])])
    return pres


def exhaustive(arglen: int, seqlen: int):
    U = T + [FRESH]
    ops1 = all_ops(arglen)
    # every reachable state x every op x every argument list
    for pre in reach_prefixes():
        for op in ops1:
            yield {"U": U, "ops": pre + [op, ("resumeAll", [])], "tag": "state-x-op"}
    # all sequences of <= seqlen operations with short argument lists
    ops2 = all_ops(1) + [(k, l) for k in LIST_OPS for l in ([T[0], T[1]], [T[1], T[0], T[1]], [ALLT, T[0]],
                                                            [T[0], T[1], T[2]])]
    for n in range(2, seqlen + 1):
        for seq in itertools.product(ops2, repeat=n):
            yield {"U": U, "ops": list(seq), "tag": f"seq{n}"}


def rand_case(rng, n_ops: int = 30) -> Dict[str, Any]:
    pool = [101, 102, 103, 105, 106, 107, 108]
    U = pool + [FRESH]
    ops = []
    for _ in range(rng.randint(3, n_ops)):
        r = rng.random()
        if r < 0.12:
            ops.append((rng.choice(NULLARY[:3]), []))
        elif r < 0.16:
            ops.append((rng.choice(["reconnect", "reconnectLost"]), []))
        else:
            k = rng.choice(LIST_OPS)
            n = rng.choice([0, 1, 1, 2, 2, 3, 4, 6])
            l = [rng.choice(pool) for _ in range(n)]
            if rng.random() < 0.12:
                l.insert(rng.randint(0, len(l)), ALLT)
            if rng.random() < 0.2 and l:
                l.append(rng.choice(l))
            ops.append((k, l))
    return {"U": U, "ops": ops, "tag": "random"}


def directed() -> List[Dict[str, Any]]:
    U = T + [FRESH]
    d = [
        # C02-F1: a second subscribe / resume [ALL]
        [("subscribe", [ALLT]), ("subscribe", [ALLT])],
        [("subscribe", [ALLT]), ("resume", [ALLT])],
        [("subscribe", [ALLT]), ("subscribe", [ALLT, 101])],
        # C02-F2: context lists overlapping the state in adjacent positions
        [("subscribe", [101, 102, 103]), ("subCtx", [101, 102, 104])],
        [("subscribe", [101]), ("pauseCtx", [105, 106, 101])],
        [("subscribe", [101, 102]), ("subCtx", [101, 102])],
        # C02-F3: context on a paused type
        [("subscribe", [101]), ("pause", [101]), ("subCtx", [101])],
        [("pause", [102]), ("subCtx", [102, 103])],
        # refused while subscribed to all
        [("subscribe", [ALLT]), ("subscribe", [101]), ("unsubscribe", [101]), ("pause", [101]), ("resume", [101]),
         ("subCtx", [101]), ("pauseCtx", [101]), ("resumeAll", []), ("subscribe", [])],
        [("subscribe", [101]), ("pauseAll", []), ("resumeAll", [])],
        [("subscribe", [ALLT]), ("pauseAll", []), ("resumeAll", [])],
        [("subscribe", [101]), ("reconnect", []), ("subscribe", [102])],
        [("subscribe", [101]), ("pause", [102]), ("reconnectLost", []), ("subscribe", [103])],
        [("subscribe", [ALLT]), ("reconnectLost", []), ("subscribe", [103])],
    ]
    return [{"U": U + [105, 106], "ops": ops, "tag": "directed"} for ops in d]
