"""State of the objects under test that has no public setter — reached without depending on how it is spelled.

The client drivers must put a real `Client` object on a fake socket, mark it connected and (for the read path) give it a
subscription state, and they read the subscribe-to-all flag back.  The package offers read-only properties for most of
this (`sock`, `connected`, `header_cls`, `subscribed_types`, `paused_subscribed_types`), nothing for the flag.  Writing
`c._sock = …` ties the check to the *name* of a private attribute; a maintainer who renames `_sock` to `_socket` changes
nothing any property speaks about, and the check must keep deciding the property instead of failing on the stale name.

So the names are *found* on the object, in this order:

  1. the attribute the public property returns — read off the property's getter (`Client.sock.fget` loads exactly one
     attribute of `self` that exists on the instance);
  2. for the subscribe-to-all flag, which no property shows: the conventional name if the instance has it; otherwise by
     observation — a scratch object of the same class gets a sink socket, performs the public `subscribe([ALL])`, and the
     one Boolean instance attribute that turned on is the flag;
  3. if nothing is found the public view is used for reading (`ALL_MESSAGE_TYPES in c.subscribed_types`) and the public
     API for writing (subscription calls on a sink socket), so the drivers degrade to what every user of the class can do.

Nothing here changes what a check demands: these helpers only say *where* the state lives.
"""
from __future__ import annotations

import contextlib
from typing import Any, Dict, Iterable, Optional

_CACHE: Dict[type, Dict[str, Optional[str]]] = {}

# public read-only property -> conventional private name (used only when the property gives no answer)
_CLIENT_PROPS = {"sock": "_sock", "connected": "_connected", "header_cls": "_header_cls",
                 "subscribed_types": "_subscribed_types", "paused_subscribed_types": "_paused_types",
                 "module_id": "_module_id", "msg_count": "_msg_count"}


def behind(obj, prop: str, default: Optional[str] = None) -> Optional[str]:
    """name of the instance attribute the read-only property `prop` of obj's class returns"""
    p = getattr(type(obj), prop, None)
    fget = getattr(p, "fget", None)
    have = vars(obj)
    if fget is not None:
        cands = [n for n in fget.__code__.co_names if n in have]
        if len(cands) == 1:
            return cands[0]
        if default in cands:
            return default
        if cands:
            return cands[0]
    return default if default in have else None


class _Sink:
    """a socket that accepts everything (for the scratch object of `names`)"""

    def sendall(self, b, flags=0):
        pass

    def close(self):
        pass

    def fileno(self):
        return 9998

    def setsockopt(self, *a):
        pass


@contextlib.contextmanager
def _always_ready(mod):
    """module-level `select` of `mod` answers 'ready' for the duration (whatever the import style), then exactly what
    was there before is put back"""
    from .rebind import rebind
    before = dict(vars(mod))

    class _Sel:
        @staticmethod
        def select(r, w, x, timeout=None):
            return list(r), list(w), []

    table = rebind(mod, {"select": _Sel})
    try:
        yield
    finally:
        for g in list(table) + ["select"]:
            if g in before:
                setattr(mod, g, before[g])
            elif g in vars(mod):
                delattr(mod, g)


def _observe_sub_all(c, names: Dict[str, Optional[str]]) -> Optional[str]:
    """which Boolean instance attribute does a public subscribe-to-all switch on?"""
    import importlib
    import logging
    cls = type(c)
    if not (names.get("sock") and names.get("connected")):
        return None
    try:
        mod = importlib.import_module(cls.__module__)
        all_types = importlib.import_module(cls.__module__.rsplit(".", 1)[0] + ".core_defs").ALL_MESSAGE_TYPES
        lvl = logging.getLogger().level
        scratch = cls()
        try:
            try:
                getattr(scratch, names["sock"]).close()
            except Exception:  # noqa: BLE001
                pass
            setattr(scratch, names["sock"], _Sink())
            setattr(scratch, names["connected"], True)
            before = {k: v for k, v in vars(scratch).items() if isinstance(v, bool)}
            with _always_ready(mod):
                scratch.subscribe([all_types])
            flipped = [k for k, v in vars(scratch).items()
                       if isinstance(v, bool) and v and before.get(k) is False and k != names["connected"]]
        finally:
            setattr(scratch, names["connected"], False)      # keeps __del__ from "disconnecting" (it sleeps)
            logging.getLogger().setLevel(lvl)
        return flipped[0] if len(flipped) == 1 else None
    except Exception:  # noqa: BLE001 -- discovery is best effort; the public view remains
        return None


def names(c) -> Dict[str, Optional[str]]:
    """where a Client object keeps: sock, connected, header_cls, subscribed_types, paused_subscribed_types, sub_all"""
    cls = type(c)
    got = _CACHE.get(cls)
    if got is not None and all(n is None or n in vars(c) for n in got.values()):
        return got
    got = {p: behind(c, p, d) for p, d in _CLIENT_PROPS.items()}
    if "_sub_all" in vars(c):
        got["sub_all"] = "_sub_all"
    else:
        got["sub_all"] = _observe_sub_all(c, got)
    _CACHE[cls] = got
    return got


def _need(c, key: str) -> str:
    n = names(c).get(key)
    if n is None:
        from . import common as C
        raise C.MachineryError(f"the harness can not find where {type(c).__name__} keeps its `{key}` "
                               f"(no attribute behind the public property)")
    return n


# ---- what the drivers use -------------------------------------------------------------------------------------------

def get_sock(c):
    return getattr(c, _need(c, "sock"))


def set_sock(c, sock) -> None:
    setattr(c, _need(c, "sock"), sock)


def set_connected(c, flag: bool) -> None:
    setattr(c, _need(c, "connected"), bool(flag))


def header_cls(c):
    return c.header_cls


def get_sub_all(c) -> bool:
    n = names(c).get("sub_all")
    if n is not None:
        return bool(getattr(c, n))
    import importlib
    cd = importlib.import_module(type(c).__module__.rsplit(".", 1)[0] + ".core_defs")
    return cd.ALL_MESSAGE_TYPES in c.subscribed_types


def set_subscription_state(c, sub_all: bool, types: Iterable[int]) -> None:
    """the client is subscribed to `types` (to everything if `sub_all`) — as if the calls had been made and acknowledged"""
    nm = names(c)
    types = set(types)
    if nm.get("sub_all") is not None and nm.get("subscribed_types") is not None:
        setattr(c, nm["sub_all"], bool(sub_all))
        setattr(c, nm["subscribed_types"], set(types))
        return
    # public API on a sink socket: same filtering behaviour of the read path
    import importlib
    mod = importlib.import_module(type(c).__module__)
    cd = importlib.import_module(type(c).__module__.rsplit(".", 1)[0] + ".core_defs")
    real_sock, was = get_sock(c), c.connected
    set_sock(c, _Sink())
    set_connected(c, True)
    try:
        with _always_ready(mod):
            if c.subscribed_types:
                c.unsubscribe([cd.ALL_MESSAGE_TYPES] if cd.ALL_MESSAGE_TYPES in c.subscribed_types else list(c.subscribed_types))
            if sub_all:
                c.subscribe([cd.ALL_MESSAGE_TYPES])
            elif types:
                c.subscribe(sorted(types))
    finally:
        set_sock(c, real_sock)
        set_connected(c, was)


def attr(obj, *candidates: str, default: Any = None, where=None):
    """first of `candidates` the object has; else the single instance attribute satisfying `where(name, value)`;
    else `default` — for the few remaining private reads (data logger flags, validator internals)"""
    for n in candidates:
        if hasattr(obj, n):
            return getattr(obj, n)
    if where is not None:
        try:
            hits = [(k, v) for k, v in vars(obj).items() if where(k, v)]
        except TypeError:
            hits = []
        if len(hits) == 1:
            return hits[0][1]
    return default


def set_attr(obj, value, *candidates: str, where=None) -> bool:
    """assign to the first of `candidates` the object has (else to the single attribute satisfying `where`);
    returns False when there is no such attribute (callers fall back to the public API)"""
    for n in candidates:
        if n in getattr(obj, "__dict__", {}) or hasattr(type(obj), n):
            setattr(obj, n, value)
            return True
    if where is not None:
        hits = [k for k, v in vars(obj).items() if where(k, v)]
        if len(hits) == 1:
            setattr(obj, hits[0], value)
            return True
    return False


# ---- validators.py ---------------------------------------------------------------------------------------------------

def validation_switch(V):
    """the module-level object behind `disable_message_validation()` (a ContextVar today): the conventional name, else
    the only ContextVar of the module; None if there is no such object"""
    import contextvars
    sw = getattr(V, "_VALIDATION_ENABLED", None)
    if sw is not None:
        return sw
    cands = [v for v in vars(V).values() if isinstance(v, contextvars.ContextVar)]
    return cands[0] if len(cands) == 1 else None


def validation_in_force(V) -> bool:
    """is field validation on for the calling context?  Read from the switch when it is found, else measured through the
    public field API: an out-of-range assignment to a scratch header is refused exactly when validation is on"""
    sw = validation_switch(V)
    if sw is not None:
        try:
            return bool(sw.get())
        except Exception:  # noqa: BLE001
            pass
    try:
        import importlib
        H = importlib.import_module(V.__name__.rsplit(".", 1)[0] + ".header").MessageHeader
        try:
            H().src_mod_id = 1 << 40
        except (ValueError, TypeError):
            return True
        return False
    except Exception:  # noqa: BLE001
        return True


def element_validator(V, d):
    """the validator object an array descriptor delegates to (whatever the attribute is called)"""
    return attr(d, "_validator", where=lambda k, v: isinstance(v, V.FieldValidator) and v is not d)


# ---- parser.py ---------------------------------------------------------------------------------------------------------

def drop_parser_loggers() -> int:
    """every `Parser()` registers a logger of its own with the logging module (named after a private instance counter);
    the drivers that build thousands of parsers forget them again — by what the names start with, not by the counter"""
    import logging
    d = logging.Logger.manager.loggerDict
    names = [k for k in list(d) if k.startswith("pyrtma.parser")]
    for k in names:
        d.pop(k, None)
    return len(names)


# ---- data_logger: flags without a public setter -------------------------------------------------------------------------

def flag_read_by(obj, method: str, default: Optional[str] = None) -> Optional[str]:
    """name of the one Boolean instance attribute that `method` of obj's class reads (the writer loop's stop flag is the
    Boolean `DataCollection.write` looks at, the closed marker the one `__del__` looks at), `default` if it is among them"""
    have = vars(obj)
    code = getattr(getattr(type(obj), method, None), "__code__", None)
    cands = [n for n in code.co_names if isinstance(have.get(n), bool)] if code is not None else []
    if default in cands or (not cands and default in have):
        return default
    return cands[0] if len(cands) == 1 else None


def set_flag_read_by(obj, method: str, value: bool, default: Optional[str] = None) -> bool:
    n = flag_read_by(obj, method, default)
    if n is None:
        return False
    setattr(obj, n, value)
    return True
