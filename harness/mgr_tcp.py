"""Validation of the fake socket layer of the manager harness (`fakes.py`) against real TCP.

A handful of *sequential* scripts (one frame at a time, every socket writable, no injected failure, no clock jump) is
played twice: through the fakes (as every other manager case) and against a real `MessageManager` listening on a
localhost port, driven by raw client sockets from a clean interpreter (the fakes rebind module attributes of
`pyrtma.manager`, so the real run happens in a sub-process).  Compared: for every connection, the decoded sequence of
frames it received (including `msg_count`), and whether the manager closed it.  Periodic statistics frames are ignored.

Thorough tier only; a difference is reported as a correspondence difference `corr:fakes/tcp` (not a violation by itself)."""
from __future__ import annotations

import json
import os
import subprocess
import sys
from typing import Any, Dict, List, Tuple

from . import common as C


def scenarios():
    from . import mgr_corr as G
    from . import mgr_gen as MG
    cd = MG.cdm()
    out = []

    def base(n):
        s = G.Script(); s.accept(n); return s

    # 1. connect matrix: explicit ids, clash, out of range, dynamic, v2 with name
    s = base(5)
    s.round([s.rd(1, cd.MT_CONNECT, G.p_connect(), src=10)])
    s.round([s.rd(2, cd.MT_CONNECT, G.p_connect(), src=10)])            # clash: refused, closed
    s.round([s.rd(3, cd.MT_CONNECT, G.p_connect(), src=500)])           # out of range: refused
    s.round([s.rd(4, cd.MT_CONNECT_V2, G.p_connect_v2(mod_id=0, pid=77, name=b"dyn"))])
    s.round([s.rd(4, cd.MT_CONNECT, G.p_connect())])                    # v1 after v2: ignored
    s.round([s.rd(5, cd.MT_CONNECT_V2, G.p_connect_v2(mod_id=12, allow_multiple=1, name=b"multi"))])
    out.append(("connect_matrix", s))
    # 2. subscribe / publish / unsubscribe / pause / resume, destination filter
    s = base(3)
    for u, i in ((1, 10), (2, 11), (3, 12)):
        s.round([s.rd(u, cd.MT_CONNECT, G.p_connect(), src=i)])
    s.round([s.rd(2, cd.MT_SUBSCRIBE, G.p_i32(5000))])
    s.round([s.rd(3, cd.MT_SUBSCRIBE, G.p_i32(5000))])
    s.round([s.rd(1, 5000, b"to-everybody", src=10)])
    s.round([s.rd(1, 5000, b"to-eleven", src=10, dest=11)])
    s.round([s.rd(1, 5000, b"to-nobody", src=10, dest=999)])
    s.round([s.rd(3, cd.MT_PAUSE_SUBSCRIPTION, G.p_i32(5000))])
    s.round([s.rd(1, 5000, b"while-paused", src=10)])
    s.round([s.rd(3, cd.MT_RESUME_SUBSCRIPTION, G.p_i32(5000))])
    s.round([s.rd(2, cd.MT_UNSUBSCRIBE, G.p_i32(5000))])
    s.round([s.rd(1, 5000, b"after", src=10)])
    out.append(("pubsub", s))
    # 3. subscribe to all, loggers, acknowledgement copies
    s = base(3)
    s.round([s.rd(1, cd.MT_CONNECT, G.p_connect(logger=1), src=10)])
    s.round([s.rd(2, cd.MT_CONNECT, G.p_connect(), src=11)])
    s.round([s.rd(3, cd.MT_CONNECT, G.p_connect(), src=12)])
    s.round([s.rd(1, cd.MT_SUBSCRIBE, G.p_i32(cd.ALL_MESSAGE_TYPES))])
    s.round([s.rd(2, cd.MT_SUBSCRIBE, G.p_i32(6000))])
    s.round([s.rd(3, 6000, b"hello", src=12, dest=11)])
    s.round([s.rd(3, 6001, b"", src=12)])
    out.append(("logger_all", s))
    # 4. departures: DISCONNECT, impossible length, observers of CLIENT_CLOSED / CLIENT_INFO
    s = base(4)
    for u, i in ((1, 10), (2, 11), (3, 12), (4, 13)):
        s.round([s.rd(u, cd.MT_CONNECT, G.p_connect(), src=i)])
    s.round([s.rd(4, cd.MT_SUBSCRIBE, G.p_i32(cd.MT_CLIENT_CLOSED))])
    s.round([s.rd(4, cd.MT_SUBSCRIBE, G.p_i32(cd.MT_CLIENT_INFO))])
    s.round([s.rd(1, cd.MT_CLIENT_SET_NAME, G.p_name(b"renamed"))])
    s.round([s.rd(2, cd.MT_MODULE_READY, G.p_i32(4321))])
    s.round([s.rd(1, cd.MT_DISCONNECT)])
    s.round([s.rd(2, 5000, b"", nbytes=-3)])
    s.round([s.rd(3, cd.MT_CLIENT_SET_NAME, G.p_name(b"\xff\xfe"))])
    out.append(("departures", s))
    # 5. failure notices without any injected fault do not exist; the FAILED_MESSAGE subscriber sees nothing
    s = base(2)
    s.round([s.rd(1, cd.MT_CONNECT, G.p_connect(), src=10)])
    s.round([s.rd(2, cd.MT_CONNECT, G.p_connect(), src=11)])
    s.round([s.rd(2, cd.MT_SUBSCRIBE, G.p_i32(cd.MT_FAILED_MESSAGE))])
    s.round([s.rd(1, 7000, b"x" * 40000, src=10)])
    s.round([s.rd(1, -5, b"neg", src=10)])
    s.round([s.rd(1, 123456, b"big-type", src=10)])
    out.append(("odd_types", s))
    return out


IGNORED = None


def _ignored_types():
    from . import mgr_gen as MG
    cd = MG.cdm()
    return {cd.MT_MESSAGE_TRAFFIC, cd.MT_ACTIVE_CLIENTS, cd.MT_TIMING_MESSAGE}


def fake_side(script) -> Dict[str, Any]:
    from . import mgr_corr as G
    r = G.run_script(script.rounds, timecode=False, log_level=100, timing=True, order="fwd")
    ign = _ignored_types()
    per: Dict[int, List[str]] = {}
    closed = set()
    for ln in r["obs"]:
        t = ln.split()
        if t[0] == "S" and int(t[3]) not in ign:
            per.setdefault(int(t[1]), []).append(" ".join(t[2:]))
        elif t[0] == "X":
            closed.add(int(t[1]))
    return {"frames": {str(k): v for k, v in per.items()}, "closed": sorted(closed), "crash": r["crash"]}


def real_side(script, timeout: float = 60.0) -> Dict[str, Any]:
    from . import mgr_corr as G
    rounds, frames = G.to_fake_rounds(script.rounds, False)
    steps = []
    for r in rounds:
        if r["accept"]:
            steps.append(["accept"])
        for uid, spec in r["reads"]:
            if spec[0] != "bytes":
                raise ValueError("sequential scenarios carry no injected errors")
            steps.append(["send", uid, spec[1].hex()])
    job = {"steps": steps, "frames": {str(k): v.hex() for k, v in frames.items()}, "ignored": sorted(_ignored_types())}
    env = dict(os.environ, PYTHONPATH=f"{C.REPO / 'src'}:{C.VERIF}")
    p = subprocess.run([sys.executable, "-m", "harness.mgr_tcp_worker"], input=json.dumps(job), capture_output=True,
                       text=True, timeout=timeout, cwd=str(C.VERIF), env=env)
    if p.returncode != 0:
        raise OSError("tcp worker failed: " + (p.stderr or p.stdout)[-400:])
    return json.loads(p.stdout.strip().splitlines()[-1])


def compare() -> Dict[str, Any]:
    C.use_repo()
    res = {"runs": 0, "agree": 0, "diffs": []}
    for name, s in scenarios():
        f = fake_side(s)
        try:
            r = real_side(s)
        except (OSError, subprocess.TimeoutExpired) as e:
            res.setdefault("skipped", []).append(f"{name}: {e}")
            continue
        res["runs"] += 1
        same = lambda r: f["frames"] == r["frames"] and f["closed"] == r["closed"] and not f["crash"] and not r.get("crash")
        if not same(r):
            # real sockets and a wall clock: a difference must reproduce before it is reported
            try:
                r2 = real_side(s, timeout=120.0)
                if same(r2):
                    r = r2
                    res["retried"] = res.get("retried", 0) + 1
            except (OSError, subprocess.TimeoutExpired):
                pass
        if same(r):
            res["agree"] += 1
        else:
            d = {"scenario": name}
            for u in sorted(set(f["frames"]) | set(r["frames"]), key=int):
                if f["frames"].get(u, []) != r["frames"].get(u, []):
                    ff, rr = f["frames"].get(u, []), r["frames"].get(u, [])
                    k = next((i for i, (x, y) in enumerate(zip(ff, rr)) if x != y), min(len(ff), len(rr)))
                    d[f"uid{u}"] = {"first_difference_at": k, "fake": ff[k:k + 4], "real": rr[k:k + 4]}
            if f["closed"] != r["closed"]:
                d["closed"] = {"fake": f["closed"], "real": r["closed"]}
            if f["crash"] or r.get("crash"):
                d["crash"] = {"fake": f["crash"], "real": r.get("crash")}
            res["diffs"].append(d)
    return res
