"""Tie B for M3 (Model/ClientRead.lean): the real `Client.read_message` on a scripted socket against the Lean
model, plus the Spec of C08 evaluated on what the real client did.

No hooks in /repo: `Client._sock` is replaced by `FakeSock`, `pyrtma.client.select` is rebound to `FakeSelect`.
The fake socket implements the contract of DESIGN.md section 4: with MSG_WAITALL a receive returns short only at
FIN, raises ConnectionResetError at RST and would block (here: raises `WouldBlock`, a BaseException nothing in
the code catches) on an idle peer; without MSG_WAITALL it returns at most up to the next segment boundary.

Case grammar sent to `drv_clientread`:
    CASE <id> <hsize> <MT_ACKNOWLEDGE>
    DEF  <type id> <type_size> <type_hash>              local definitions of the types that occur
    FRAME <hex header> <hex payload|->                  whole frames on the wire, in order
    TAIL <hex|-> <idle|fin|rst>                         incomplete last frame, and what the peer does then
    SUB  <sub_all 0|1> <type> ...                       initial subscription state
    CALL read <none|zero|pos|neg> <ack 0|1> <sync 0|1> | CALL sub <sub_all> <type> ...
    CALL defs <type> <size> <hash> ...                  the local definitions of the occurring types from now on (a type
                                                        registered again with another layout / added / removed)
    OBS  <consumed> <connected 0|1> <msg hdr payload|none|unknownType hdr raw|invalidDef|lost|notConnected|blocked|crash:X>
    END

Several sessions of ONE client object (second layer of M3, `Model/ClientReadLife.lean`): the real `Client.connect()` /
`disconnect()` / `send_signal` next to `read_message`; `pyrtma.client.socket` is a shim whose `socket()` hands out the
next prepared `FakeSock` (one scripted byte stream per connection), `pyrtma.client.time` a clock that moves only when read.
    LCASE <id> <hsize> <MT_ACKNOWLEDGE>
    DEF ...
    CALL connect            followed by the FRAME / TAIL lines of the NEW connection's incoming stream
    CALL read .. | CALL sub .. | CALL disconnect | CALL sendFail
    OBS ..                                                              after a read
    COBS <consumed> <connected> <joined|ackTimeout|unknownType|invalidDef|lost|blocked|notConnected|crash:X>   after connect / sendFail
    UOBS                                                                after disconnect / sub
    END
"""
from __future__ import annotations

import itertools
import socket as _socket
import struct
from typing import Any, Dict, List, Optional, Sequence, Tuple

from . import common as C
from . import priv as PV          # private state of Client objects, found on the object (not by name)

ALLT = 2147483647
ACK = 2
# test definitions: type id -> (size, hash)
TEST_DEFS = {5001: (0, 0x11111111), 5002: (4, 0x22222222), 5003: (8, 0xFEDCBA98), 5004: (3, 0x00000001),
             5005: (0, 0x00000005)}
UNKNOWN_T = 7777


class WouldBlock(BaseException):
    """The real call would not return (idle peer)."""


class Hang(BaseException):
    """The code under test does not come back from one API call: it keeps polling the socket without consuming anything
    new (an endless loop).  Reported as the observation `crash:Hang`, never as a time-out of the harness."""


class cpu_guard:
    """`with cpu_guard(seconds):` - the body may use at most `seconds` of CPU time of this process (ITIMER_VIRTUAL: the
    load of the machine does not count); after that `exc` is raised inside it, again every second until the body is left.
    Catches the endless loop that never touches the socket, which the tick limit cannot see.  Main thread only."""
    _installed = None

    def __init__(self, seconds: float = 1.0, exc=None):
        self.seconds = seconds
        self.exc = exc or Hang

    def __enter__(self):
        import signal
        exc = self.exc

        def on_alarm(signum, frame):
            raise exc("more than the CPU budget of one call: endless loop")
        signal.signal(signal.SIGVTALRM, on_alarm)
        signal.setitimer(signal.ITIMER_VIRTUAL, self.seconds, 1.0)
        return self

    def __exit__(self, *a):
        import signal
        signal.setitimer(signal.ITIMER_VIRTUAL, 0)
        return False


# a change that makes (nearly) every call hang would cost the budget once per call of every case: after this many hangs
# in one process the remaining cases are skipped (the hangs seen are the verdict)
HANGS = [0]
HANG_BREAKER = 8


class TooManyHangs(Exception):
    pass


def note_hang():
    HANGS[0] += 1


def breaker():
    if HANGS[0] >= HANG_BREAKER:
        raise TooManyHangs("skipped: this process has already seen %d calls that did not return" % HANGS[0])


TICK_LIMIT = 3000       # select / recv calls within ONE API call; the longest legitimate call makes a few per frame
_TICKS = [0]


def _tick():
    _TICKS[0] += 1
    if _TICKS[0] > TICK_LIMIT:
        raise Hang()


class FakeSock:
    def __init__(self, data: bytes, end: str, cuts: Sequence[int] = ()):
        self.data = data
        self.pos = 0
        self.end = end            # idle | fin | rst
        self.cuts = sorted(set(c for c in cuts if 0 < c < len(data)))
        self.closed = False
        self.sent: List[bytes] = []
        self.send_dead = False      # writes raise ConnectionResetError

    def connect(self, addr):
        pass

    # --- what the client calls -------------------------------------------------------------
    def fileno(self):
        return 9999

    def _take(self, n: int, flags: int) -> bytes:
        _tick()
        if self.closed:
            raise OSError(9, "Bad file descriptor")
        avail = len(self.data) - self.pos
        if not (flags & _socket.MSG_WAITALL):
            # a plain recv returns what one segment holds
            nxt = next((c for c in self.cuts if c > self.pos), len(self.data))
            n = min(n, max(nxt - self.pos, 0)) if avail else n
        if n <= avail:
            out = self.data[self.pos:self.pos + n]
            self.pos += n
            return out
        if self.end == "idle":
            raise WouldBlock()
        out = self.data[self.pos:]
        self.pos = len(self.data)
        if self.end == "rst":
            self.end = "fin"
            raise ConnectionResetError(104, "Connection reset by peer")
        return out

    def recv(self, n, flags=0):
        if n < 0:
            raise ValueError("negative buffersize in recv")
        return self._take(n, flags)

    def recv_into(self, buffer, nbytes=0, flags=0):
        mv = memoryview(buffer).cast("B")
        if nbytes < 0:
            raise ValueError("negative buffersize in recv_into")
        if nbytes == 0:
            nbytes = len(mv)
        if nbytes > len(mv):
            raise ValueError("buffer too small for requested bytes")
        got = self._take(nbytes, flags)
        mv[:len(got)] = got
        return len(got)

    def sendall(self, b, flags=0):
        if self.closed:
            raise OSError(9, "Bad file descriptor")
        if self.send_dead:
            raise ConnectionResetError(104, "Connection reset by peer")
        self.sent.append(bytes(b))

    def close(self):
        self.closed = True

    def setsockopt(self, *a):
        pass

    # --- what select sees ------------------------------------------------------------------
    def readable(self) -> bool:
        return self.pos < len(self.data) or self.end != "idle"


class Clock:
    """Stands in for the `time` module inside pyrtma.client: time passes only while a select waits out its timeout
    (and a microsecond per reading of the clock)."""
    t = 100.0

    @classmethod
    def perf_counter(cls):
        cls.t += 1e-6
        return cls.t

    @staticmethod
    def time():
        return 1.7e9

    @staticmethod
    def sleep(x):
        pass


class FakeSelect:
    """Stands in for the `select` module inside pyrtma.client."""

    @staticmethod
    def select(r, w, x, timeout=None):
        _tick()
        rr = [s for s in r if getattr(s, "readable", lambda: True)()]
        if r and not rr and not w:
            if timeout is None:
                raise WouldBlock()
            Clock.t += max(float(timeout), 0.0)
            return [], [], []
        return rr, list(w), []


_ENV: Dict[str, Any] = {}


def env():
    """Import the code under test once, install the fakes and the test definitions."""
    if _ENV:
        return _ENV
    import logging
    import pyrtma.client as PC
    import pyrtma.message as PM
    import pyrtma.core_defs as cd
    from pyrtma.message_data import MessageData
    from pyrtma.message_base import MessageMeta
    from pyrtma.validators import ByteArray, Uint8
    from pyrtma import exceptions as EX

    # sockets made by the client code: the next prepared stream, else an unconnected blank
    queue: List[FakeSock] = []
    shim = type("SockShim", (), {})()
    for k in dir(_socket):
        if k.isupper():
            setattr(shim, k, getattr(_socket, k))
    shim.socket = lambda *a, **k: queue.pop(0) if queue else FakeSock(b"", "idle")
    shim.getprotobyname = lambda n: 6
    from .rebind import rebind              # installs the stand-ins under any import style of client.py
    rebind(PC, {"select": FakeSelect, "socket": shim, "time": Clock})
    _ENV["queue"] = queue
    def make_def(tid: int, size: int, h: int):
        ns: Dict[str, Any] = {"type_id": tid, "type_name": f"T{tid}", "type_hash": h, "type_size": size,
                              "type_source": "", "type_def": "", "__annotations__": {}}
        if size == 1:
            ns["b"] = Uint8()
            ns["__annotations__"]["b"] = Uint8
        elif size:
            ns["b"] = ByteArray(size)
            ns["__annotations__"]["b"] = ByteArray
        return MessageMeta(f"MDF_T{tid}", (MessageData,), ns)

    def set_def(tid: int, layout):
        """register `tid` with (size, hash) through the public decorator; `None` removes the definition (through the
        module's own table setter)"""
        if layout is None:
            PM._set_msg_defs({k: v for k, v in PM._msg_defs.items() if k != tid})
        else:
            PM.message_def(make_def(tid, layout[0], layout[1]))

    for tid, (size, h) in TEST_DEFS.items():
        set_def(tid, (size, h))
    logging.getLogger().setLevel(logging.CRITICAL + 10)
    _ENV.update(PC=PC, PM=PM, cd=cd, EX=EX, set_def=set_def)
    return _ENV


def def_lines(PM, types) -> List[str]:
    out = []
    for t in sorted(types):
        cls = PM._msg_defs.get(t)
        if cls is not None:
            out.append(f"{t} {cls.type_size} {cls.type_hash}")
    return out


def header_bytes(timecode: bool, msg_type: int, nbytes: int, version: int, salt: int = 0) -> bytes:
    """A wire header built by the real header class (so the layout is the code's, not ours)."""
    from pyrtma.header import get_header_cls
    from pyrtma.validators import disable_message_validation
    h = get_header_cls(timecode)()
    with disable_message_validation():
        h.msg_type = msg_type
        h.msg_count = (salt * 7 + 3) & 0x7FFFFFFF
        h.send_time = 1.5 + salt
        h.recv_time = 2.25 + salt          # the manager stamps this too; the client overwrites it
        h.src_host_id = salt & 0x7F
        h.src_mod_id = (salt * 3 + 10) & 0x7FFF
        h.dest_host_id = 0
        h.dest_mod_id = (salt * 5) & 0x7FFF
        h.num_data_bytes = nbytes
        h.remaining_bytes = 0
        h.is_dynamic = salt & 1
        h.reserved = version & 0xFFFFFFFF
    b = bytearray(bytes(h))
    # num_data_bytes may be outside Int32 validation only when negative values are wanted: patch raw
    struct.pack_into("<i", b, 32, nbytes)
    if timecode:
        struct.pack_into("<II", b, 48, 1234 + salt, 99)
    return bytes(b)


def hexs(b: bytes) -> str:
    return b.hex() if b else "-"


def mask(h: bytes) -> bytes:
    return h[:16] + b"\0" * 8 + h[24:]


def read_call(c, tval, ack: bool, sync: bool, shape: int):
    """`Client.read_message` the way callers write it: every second call leaves out the arguments that have their
    documented default (`timeout=-1`, `ack=False`, `sync_check=False`), every fourth passes all three positionally - the
    defaults and the parameter order of the signature are part of what is compared"""
    if shape % 4 == 3:
        return c.read_message(tval, ack, sync)
    if shape % 2 == 0:
        return c.read_message(timeout=tval, ack=ack, sync_check=sync)
    kw: Dict[str, Any] = {}
    if not (tval is not None and tval == -1):
        kw["timeout"] = tval
    if ack:
        kw["ack"] = True
    if sync:
        kw["sync_check"] = True
    return c.read_message(**kw)


def run_case(cid: str, case: Dict[str, Any]) -> List[str]:
    """case: timecode, frames [(hdr, payload)], tail, end, cuts, sub (all, [types]), calls [...]"""
    breaker()
    E = env()
    PC, PM, EX = E["PC"], E["PM"], E["EX"]
    tc = bool(case.get("timecode"))
    frames = case["frames"]
    data = b"".join(h + p for h, p in frames) + case["tail"]
    sock = FakeSock(data, case["end"], case.get("cuts", ()))
    c = PC.Client(timecode=tc)
    try:
        PV.get_sock(c).close()
    except Exception:
        pass
    PV.set_sock(c, sock)
    PV.set_connected(c, True)
    sub_all, subs = case["sub"]
    PV.set_subscription_state(c, sub_all, subs)
    hsize = c.header_cls().size
    lines = [f"CASE {cid} {hsize} {E['cd'].MT_ACKNOWLEDGE}"]
    types = set()
    for h, _ in frames:
        types.add(struct.unpack_from("<i", h, 0)[0])
    if len(case["tail"]) >= 4:
        types.add(struct.unpack_from("<i", case["tail"], 0)[0])
    lines += ["DEF " + d for d in def_lines(PM, types)]
    for h, p in frames:
        lines.append(f"FRAME {hexs(h)} {hexs(p)}")
    lines.append(f"TAIL {hexs(case['tail'])} {case['end']}")
    lines.append("SUB %d %s" % (int(bool(sub_all)), " ".join(map(str, subs))))
    obs = []
    held = []
    stop = False
    changed: Dict[int, Any] = {}
    for call in case["calls"]:
        if call[0] == "defs":
            # the local definition table changes between reads: [(type, (size, hash) | None)]
            if not stop:
                for tid, layout in call[1]:
                    changed[tid] = TEST_DEFS.get(tid)
                    E["set_def"](tid, tuple(layout) if layout is not None else None)
                lines.append("CALL defs " + " ".join(def_lines(PM, types)))
            continue
        if call[0] == "sub":
            _, a, ts = call
            lines.append("CALL sub %d %s" % (int(bool(a)), " ".join(map(str, ts))))
            if not stop:
                PV.set_subscription_state(c, a, ts)
            continue
        _, tmo, ack, sync = call
        lines.append(f"CALL read {tmo} {int(ack)} {int(sync)}")
        if stop:
            continue
        tval = {"none": None, "zero": 0, "pos": 0.25, "neg": -1}[tmo]
        before = sock.pos
        _TICKS[0] = 0
        try:
            with cpu_guard():
                m = read_call(c, tval, ack, sync, len(obs))
            if m is None:
                r = "none"
            else:
                r = f"msg {hexs(mask(bytes(m.header)))} {hexs(bytes(m.data))}"
                held.append((len(obs), m))      # the caller keeps the message: it is rendered again after the last read
        except WouldBlock:
            r = "blocked"
            stop = True
        except Hang:
            r = "crash:Hang"
            stop = True
            note_hang()
        except EX.UnknownMessageType as e:
            hh = e.args[1] if len(e.args) > 1 else None
            raw = e.args[2] if len(e.args) > 2 else b""
            r = f"unknownType {hexs(mask(bytes(hh))) if hh is not None else '-'} {hexs(bytes(raw))}"
        except EX.InvalidMessageDefinition:
            r = "invalidDef"
        except EX.ConnectionLost:
            r = "lost"
        except EX.NotConnectedError:
            r = "notConnected"
        except Exception as e:  # noqa: BLE001 - every exception is an observation
            r = f"crash:{type(e).__name__}"
        obs.append(f"OBS {sock.pos - before} {int(bool(c.connected))} {r}")
    # a message that was handed out stays what it was: re-render every returned message after the last read (a payload
    # that aliases a buffer the client re-uses shows up as a changed frame here)
    for i, m in held:
        t = obs[i].split(" ", 3)
        obs[i] = " ".join(t[:3]) + f" msg {hexs(mask(bytes(m.header)))} {hexs(bytes(m.data))}"
    lines += obs
    lines.append("END")
    PV.set_connected(c, False)       # keep __del__ from "disconnecting" (it sleeps 100 ms)
    for tid, layout in changed.items():     # the next case starts from the test definitions again
        E["set_def"](tid, layout)
    return lines


# ------------------------------------------------------------------------------------------------
# generators
# ------------------------------------------------------------------------------------------------
# frame kinds; S = a type in the initial subscription, U = a type outside it
KINDS = ["goodS", "goodU", "ack", "unknown", "sizePlus", "sizeMinus", "badVer", "zeroVer", "signalS", "signalU",
         "unknown0", "badVerU"]
SUB0 = [5002, 5001, 5004]     # initially subscribed; 5003 is not


def make_frame(kind: str, tc: bool, salt: int) -> Tuple[bytes, bytes]:
    pay = lambda n: bytes(((salt * 31 + i * 7 + 1) & 0xFF) for i in range(n))  # noqa: E731
    D = TEST_DEFS
    if kind == "goodS":
        return header_bytes(tc, 5002, 4, D[5002][1], salt), pay(4)
    if kind == "goodU":
        return header_bytes(tc, 5003, 8, D[5003][1], salt), pay(8)
    if kind == "ack":
        return header_bytes(tc, ACK, 0, 0, salt), b""
    if kind == "unknown":
        return header_bytes(tc, UNKNOWN_T, 5, 0x55, salt), pay(5)
    if kind == "unknown0":
        return header_bytes(tc, UNKNOWN_T + 1, 0, 0, salt), b""
    if kind == "sizePlus":
        return header_bytes(tc, 5002, 6, D[5002][1], salt), pay(6)
    if kind == "sizeMinus":
        return header_bytes(tc, 5004, 1, D[5004][1], salt), pay(1)
    if kind == "badVer":
        return header_bytes(tc, 5002, 4, D[5002][1] ^ 0x10, salt), pay(4)
    if kind == "badVerU":
        return header_bytes(tc, 5003, 8, 0x7, salt), pay(8)
    if kind == "zeroVer":
        return header_bytes(tc, 5004, 3, 0, salt), pay(3)
    if kind == "signalS":
        return header_bytes(tc, 5001, 0, D[5001][1], salt), b""
    if kind == "signalU":
        return header_bytes(tc, 5005, 0, D[5005][1], salt), b""
    raise KeyError(kind)


frame = make_frame


def reads(n: int, tmo: str, ack: bool, sync: bool):
    return [("read", tmo, ack, sync)] * n


CORE_KINDS = ["goodS", "goodU", "ack", "unknown", "sizePlus", "badVer", "signalU"]


def exhaustive(maxlen: int, cut_len: int, full_len: int = 3):
    """all kind sequences up to maxlen x argument classes (all 12 kinds up to full_len, the 7 core kinds beyond);
    cuts at every offset of the last frame for sequences up to cut_len x {fin, rst} x timeout class"""
    tmos = ["none", "zero", "pos", "neg"]
    for n in range(0, maxlen + 1):
        kinds = KINDS if n <= full_len else CORE_KINDS
        for seq in itertools.product(kinds, repeat=n):
            fr = [frame(k, False, i + 1) for i, k in enumerate(seq)]
            for tmo in tmos:
                for ack in (False, True):
                    for sync in (False, True):
                        for end in ("fin", "idle"):
                            if end == "idle" and tmo in ("none", "neg") and n == maxlen and n > 1:
                                continue  # the same `blocked` ending is covered by shorter sequences
                            yield {"frames": fr, "tail": b"", "end": end, "sub": (False, SUB0),
                                   "calls": reads(n + 2, tmo, ack, sync), "tag": "ex:" + ",".join(seq)}
    for n in range(1, cut_len + 1):
        kinds = KINDS if n <= 2 else CORE_KINDS
        for seq in itertools.product(kinds, repeat=n):
            fr = [frame(k, False, i + 1) for i, k in enumerate(seq)]
            last = fr[-1][0] + fr[-1][1]
            for off in range(0, len(last)):
                for end in ("fin", "rst"):
                    for tmo, sync in (("neg", True), ("zero", False), ("none", True), ("pos", False)):
                        yield {"frames": fr[:-1], "tail": last[:off], "end": end, "sub": (False, SUB0),
                               "calls": reads(n + 2, tmo, False, sync), "tag": f"cut:{','.join(seq)}@{off}:{end}"}


def sub_changes(tc: bool = False):
    """two- and three-frame queues with a subscription change between any two reads"""
    subs = [(False, []), (False, [5003]), (False, [5002, 5003]), (True, [ALLT]), (False, [ACK]), (False, [UNKNOWN_T])]
    base = ["goodS", "goodU", "ack", "signalS", "zeroVer", "unknown", "sizePlus"]
    for seq in itertools.product(base, repeat=3):
        fr = [frame(k, tc, i + 1) for i, k in enumerate(seq)]
        for s1 in subs:
            for tmo in ("zero", "pos"):
                calls = [("read", tmo, False, True), ("sub", s1[0], s1[1]), ("read", tmo, False, True),
                         ("read", tmo, True, False), ("read", tmo, False, False)]
                yield {"frames": fr, "tail": b"", "end": "idle", "sub": (False, SUB0), "calls": calls,
                       "timecode": tc, "tag": "sub:" + ",".join(seq)}


# changes of the local definition table between reads: (type, new (size, hash) | None = removed)
DEF_CHANGES: List[List[Tuple[int, Any]]] = [
    [(5002, (6, TEST_DEFS[5002][1]))],              # registered again, larger: `sizePlus` frames become good, `goodS` wrong
    [(5002, (4, 0x33333333))],                      # same size, another hash: with sync_check `goodS` is a wrong version
    [(5004, (1, TEST_DEFS[5004][1]))],              # registered again, smaller: `sizeMinus` becomes good, `zeroVer` wrong
    [(UNKNOWN_T, (5, 0x55))],                       # a definition for a type that had none
    [(5003, None)],                                 # a definition removed: `goodU` becomes an unknown type
    [(5002, (6, 0x44444444)), (5003, None), (UNKNOWN_T, (5, 0x56))],
]


def def_changes():
    """one frame read under the test definitions, then the table changes, then two more frames (every kind that a change
    can turn from good into undecodable or back) x sync_check; half of the cases subscribed to everything"""
    kinds = ["goodS", "sizePlus", "sizeMinus", "zeroVer", "unknown", "goodU", "badVer"]
    n = 0
    for ch in DEF_CHANGES:
        for k0 in kinds:
            for k1, k2 in itertools.product(kinds, repeat=2):
                for sync in (False, True):
                    n += 1
                    fr = [frame(k, False, i + 1) for i, k in enumerate((k0, k1, k2))]
                    calls = [("read", "pos", False, sync), ("defs", ch), ("read", "pos", False, sync),
                             ("read", "zero", False, sync), ("read", "pos", False, sync)]
                    yield {"frames": fr, "tail": b"", "end": "idle", "sub": (True, [ALLT]) if n % 2 else (False, SUB0 + [5003]),
                           "calls": calls, "tag": "defs:" + ",".join((k0, k1, k2))}


def rand_case(rng, malformed: bool = False) -> Dict[str, Any]:
    tc = rng.random() < 0.3
    n = rng.randint(0, 8)
    fr = [frame(rng.choice(KINDS), tc, rng.randint(0, 200)) for _ in range(n)]
    end = rng.choice(["fin", "rst", "idle", "fin"])
    tail = b""
    if rng.random() < 0.6:
        k = rng.choice(KINDS)
        h, p = frame(k, tc, rng.randint(0, 200))
        whole = h + p
        tail = whole[:rng.randint(0, len(whole) - 1)] if len(whole) > 1 else b""
    if malformed:
        r = rng.random()
        hs = 56 if tc else 48
        if r < 0.3:
            tail = bytes(rng.getrandbits(8) for _ in range(rng.randint(0, hs + 20)))
        elif r < 0.5:
            tail = header_bytes(tc, rng.choice([5002, UNKNOWN_T, 5003]), -rng.randint(1, 5), 0, 3)
        elif r < 0.7:
            tail = header_bytes(tc, rng.choice([5002, UNKNOWN_T]), rng.choice([1 << 20, 70000, 0x7FFFFFFF]), 0, 3) \
                + bytes(rng.randint(0, 30))
        elif r < 0.85:
            # type ids at the int32 boundaries, ALL_MESSAGE_TYPES as a message type, negative type ids
            t = rng.choice([ALLT, -1, -2147483648, 0, 1 << 30])
            fr.append((header_bytes(tc, t, 2, 0, 9), b"ab"))
    subs = rng.choice([(False, SUB0), (False, []), (True, [ALLT]), (False, [5003, ACK]), (False, [5002, 5003, 5004]),
                       (False, [UNKNOWN_T, 5001]), (False, [ALLT])])
    calls: List[Any] = []
    for _ in range(n + rng.randint(1, 4)):
        if rng.random() < 0.25:
            calls.append(("sub",) + rng.choice([(False, SUB0), (False, []), (True, [ALLT]), (False, [5003]),
                                                 (False, [5001, 5002, 5003, 5004, ACK])]))
        if not malformed and rng.random() < 0.04:
            calls.append(("defs", rng.choice(DEF_CHANGES)))
        calls.append(("read", rng.choice(["none", "zero", "pos", "neg", "zero", "pos"]), rng.random() < 0.3,
                      rng.random() < 0.5))
    data_len = sum(len(h) + len(p) for h, p in fr) + len(tail)
    cuts = sorted(rng.randint(1, max(data_len, 1)) for _ in range(rng.randint(0, 6)))
    return {"frames": fr, "tail": tail, "end": end, "sub": subs, "calls": calls, "timecode": tc, "cuts": cuts,
            "tag": "malformed" if malformed else "random"}


def tcp_smoke(cases: List[Dict[str, Any]]) -> List[Dict[str, Any]]:
    """Validate the FakeSock contract against the kernel: play the same stream over a real loopback TCP connection
    (peer ends with FIN, or with RST via SO_LINGER 0) into the real Client and compare the outcome classes with the
    FakeSock run.  FIN runs must agree call by call; for RST only the end state is compared (the kernel may drop
    queued data when the reset arrives, the fake delivers it first)."""
    import select as real_select
    import time as _time
    E = env()
    PC, EX = E["PC"], E["EX"]
    out = []
    for case in cases:
        fake = [l.split()[1:4] for l in run_case("s", case) if l.startswith("OBS ")]
        srv = _socket.socket(_socket.AF_INET, _socket.SOCK_STREAM)
        srv.bind(("127.0.0.1", 0))
        srv.listen(1)
        cli = _socket.socket(_socket.AF_INET, _socket.SOCK_STREAM)
        cli.connect(srv.getsockname())
        peer, _ = srv.accept()
        srv.close()
        data = b"".join(h + p for h, p in case["frames"]) + case["tail"]
        peer.sendall(data)
        _time.sleep(0.02)
        if case["end"] == "rst":
            peer.setsockopt(_socket.SOL_SOCKET, _socket.SO_LINGER, struct.pack("ii", 1, 0))
        peer.close()
        _time.sleep(0.02)
        c = PC.Client(timecode=bool(case.get("timecode")))
        PV.get_sock(c).close()
        PV.set_sock(c, cli)
        PV.set_connected(c, True)
        PV.set_subscription_state(c, case["sub"][0], case["sub"][1])
        from .rebind import rebind, snapshot, reinstate
        saved = snapshot(PC, ("select",))
        rebind(PC, {"select": real_select})
        real = []
        try:
            for call in case["calls"]:
                if call[0] != "read":
                    continue
                try:
                    m = c.read_message(timeout=0.5, ack=call[2], sync_check=call[3])
                    r = "none" if m is None else "msg"
                except EX.UnknownMessageType:
                    r = "unknownType"
                except EX.InvalidMessageDefinition:
                    r = "invalidDef"
                except EX.ConnectionLost:
                    r = "lost"
                except EX.NotConnectedError:
                    r = "notConnected"
                except Exception as e:  # noqa: BLE001
                    r = f"crash:{type(e).__name__}"
                real.append([r, int(bool(c.connected))])
        finally:
            reinstate(PC, saved)
            PV.set_connected(c, False)
            cli.close()
        fk = [[f[2], int(f[1])] for f in fake]
        if case["end"] == "fin":
            ok = real == fk
        else:
            ok = bool(real) and real[-1][1] == 0 and all(not r[0].startswith("crash") for r in real)
        out.append({"end": case["end"], "ok": ok, "real": real, "fake": fk, "tag": case.get("tag")})
    return out


def split_stream(hsize: int, data: bytes) -> Tuple[List[Tuple[bytes, bytes]], bytes]:
    """maximal whole frames + incomplete remainder (used to normalise a case whose tail holds whole frames)"""
    out = []
    pos = 0
    while len(data) - pos >= hsize:
        n = struct.unpack_from("<i", data, pos + 32)[0]
        if n < 0 or len(data) - pos - hsize < n:
            break
        out.append((data[pos:pos + hsize], data[pos + hsize:pos + hsize + n]))
        pos += hsize + n
    return out, data[pos:]


def normalise(case: Dict[str, Any]) -> Dict[str, Any]:
    hs = 56 if case.get("timecode") else 48
    data = b"".join(h + p for h, p in case["frames"]) + case["tail"]
    fr, tail = split_stream(hs, data)
    c = dict(case)
    c["frames"], c["tail"] = fr, tail
    return c


def to_json(case: Dict[str, Any]) -> Dict[str, Any]:
    c = dict(case)
    c["frames"] = [[h.hex(), p.hex()] for h, p in case["frames"]]
    c["tail"] = case["tail"].hex()
    c["calls"] = [list(x) for x in case["calls"]]
    c["sub"] = [bool(case["sub"][0]), list(case["sub"][1])]
    return c


def from_json(c: Dict[str, Any]) -> Dict[str, Any]:
    d = dict(c)
    d["frames"] = [(bytes.fromhex(h), bytes.fromhex(p)) for h, p in c["frames"]]
    d["tail"] = bytes.fromhex(c["tail"])
    d["calls"] = [("defs", [(t, tuple(l) if l is not None else None) for t, l in x[1]]) if x[0] == "defs" else tuple(x)
                  for x in c["calls"]]
    d["sub"] = (c["sub"][0], list(c["sub"][1]))
    return d


# ------------------------------------------------------------------------------------------------
# several sessions of one client object
# ------------------------------------------------------------------------------------------------
def run_life_case(cid: str, case: Dict[str, Any]) -> List[str]:
    """case: timecode, calls [("connect", {frames, tail, end, cuts}) | ("read", tmo, ack, sync) | ("sub", all, [types])
    | ("disconnect",) | ("sendFail",)]"""
    breaker()
    E = env()
    PC, PM, EX = E["PC"], E["PM"], E["EX"]
    tc = bool(case.get("timecode"))
    del E["queue"][:]
    c = PC.Client(timecode=tc)
    try:
        c.logger.enable_console = False
    except Exception:  # noqa: BLE001
        pass
    hsize = c.header_cls().size
    lines = [f"LCASE {cid} {hsize} {E['cd'].MT_ACKNOWLEDGE}"]
    types = set()
    for call in case["calls"]:
        if call[0] == "connect":
            w = call[1]
            for h, _ in w["frames"]:
                types.add(struct.unpack_from("<i", h, 0)[0])
            if len(w["tail"]) >= 4:
                types.add(struct.unpack_from("<i", w["tail"], 0)[0])
    for t in sorted(types):
        cls = PM._msg_defs.get(t)
        if cls is not None:
            lines.append(f"DEF {t} {cls.type_size} {cls.type_hash}")
    cur: Optional[FakeSock] = None
    stop = False
    for call in case["calls"]:
        kind = call[0]
        if kind == "connect":
            w = call[1]
            lines.append("CALL connect")
            for h, p in w["frames"]:
                lines.append(f"FRAME {hexs(h)} {hexs(p)}")
            lines.append(f"TAIL {hexs(w['tail'])} {w['end']}")
            if stop:
                continue
            data = b"".join(h + p for h, p in w["frames"]) + w["tail"]
            sock = FakeSock(data, w["end"], w.get("cuts", ()))
            E["queue"].append(sock)
            _TICKS[0] = 0
            try:
                with cpu_guard():
                    c.connect("h:1")
                r = "joined"
            except WouldBlock:
                r = "blocked"
                stop = True
            except Hang:
                r = "crash:Hang"
                stop = True
                note_hang()
            except EX.AcknowledgementTimeout:
                r = "ackTimeout"
            except EX.UnknownMessageType:
                r = "unknownType"
            except EX.InvalidMessageDefinition:
                r = "invalidDef"
            except EX.ConnectionLost:
                r = "lost"
            except EX.NotConnectedError:
                r = "notConnected"
            except Exception as e:  # noqa: BLE001
                r = f"crash:{type(e).__name__}"
            # a connect() that never asked for a new socket did not touch the prepared stream: that is an observation
            # (0 bytes consumed, whatever connect() answered), not a failure of the harness
            del E["queue"][:]
            cur = sock
            lines.append(f"COBS {sock.pos} {int(bool(c.connected))} {r}")
        elif kind == "read":
            _, tmo, ack, sync = call
            lines.append(f"CALL read {tmo} {int(ack)} {int(sync)}")
            if stop:
                continue
            tval = {"none": None, "zero": 0, "pos": 0.25, "neg": -1}[tmo]
            before = cur.pos if cur is not None else 0
            _TICKS[0] = 0
            try:
                with cpu_guard():
                    m = read_call(c, tval, ack, sync, len(lines))
                r = "none" if m is None else f"msg {hexs(mask(bytes(m.header)))} {hexs(bytes(m.data))}"
            except WouldBlock:
                r = "blocked"
                stop = True
            except Hang:
                r = "crash:Hang"
                stop = True
                note_hang()
            except EX.UnknownMessageType as e:
                hh = e.args[1] if len(e.args) > 1 else None
                raw = e.args[2] if len(e.args) > 2 else b""
                r = f"unknownType {hexs(mask(bytes(hh))) if hh is not None else '-'} {hexs(bytes(raw))}"
            except EX.InvalidMessageDefinition:
                r = "invalidDef"
            except EX.ConnectionLost:
                r = "lost"
            except EX.NotConnectedError:
                r = "notConnected"
            except Exception as e:  # noqa: BLE001
                r = f"crash:{type(e).__name__}"
            after = cur.pos if cur is not None else 0
            lines.append(f"OBS {after - before} {int(bool(c.connected))} {r}")
        elif kind == "sub":
            _, a, ts = call
            lines.append("CALL sub %d %s" % (int(bool(a)), " ".join(map(str, ts))))
            if stop:
                continue
            if c.connected:             # the subscription API needs a connection
                PV.set_subscription_state(c, a, ts)
            lines.append("UOBS")
        elif kind == "disconnect":
            lines.append("CALL disconnect")
            if stop:
                continue
            _TICKS[0] = 0
            try:
                with cpu_guard():
                    c.disconnect()
                lines.append("UOBS")
            except Hang:
                lines.append("COBS 0 0 crash:Hang")     # an observation of another kind: the Spec walk reports it
                stop = True
        elif kind == "sendFail":
            lines.append("CALL sendFail")
            if stop:
                continue
            if cur is not None:
                cur.send_dead = True
            _TICKS[0] = 0
            try:
                with cpu_guard():
                    c.send_signal(1234)
                r = "joined"        # a send that succeeds is not what this call stands for
            except EX.ConnectionLost:
                r = "lost"
            except EX.NotConnectedError:
                r = "notConnected"
            except Hang:
                r = "crash:Hang"
                stop = True
                note_hang()
            except Exception as e:  # noqa: BLE001
                r = f"crash:{type(e).__name__}"
            lines.append(f"COBS 0 {int(bool(c.connected))} {r}")
        else:
            raise C.MachineryError(f"unknown life call {kind}")
    lines.append("END")
    PV.set_connected(c, False)
    return lines


def wire(kinds: Sequence[str], tc: bool = False, tail: bytes = b"", end: str = "idle", salt0: int = 1,
         cuts: Sequence[int] = ()) -> Dict[str, Any]:
    return {"frames": [frame(k, tc, salt0 + i) for i, k in enumerate(kinds)], "tail": tail, "end": end, "cuts": list(cuts)}


FIRST_ENDINGS: List[List[Tuple]] = [
    [("disconnect",)],
    [("read", "pos", False, False), ("read", "pos", False, False)],      # reads the second ACK away, then EOF: lost
    [("sendFail",)],
    [],                                                                   # connect() while still connected
    [("sendFail",), ("disconnect",)],
]


def life_directed() -> List[Dict[str, Any]]:
    out = []
    for tc in (False, True):
        for sub in ((False, [5002, 5001]), (True, [ALLT])):
            for i, ending in enumerate(FIRST_ENDINGS):
                first = wire(["ack", "ack"], tc, end="fin" if i == 1 else "idle")
                # second session: handshake ACKs, then a frame of a type the OLD session had subscribed to
                second = wire(["ack", "ack", "goodS", "signalS", "goodU"], tc, salt0=9)
                calls = [("connect", first), ("sub",) + sub] + ending + [("connect", second)] + \
                    reads(3, "pos", False, True) + [("sub", False, [5002]), ("read", "zero", False, False)]
                out.append({"life": True, "timecode": tc, "calls": calls, "tag": f"life-directed:{i}"})
    # reads before any connect; a handshake that never gets its ACK; one that is cut; undecodable frames before the ACK
    out.append({"life": True, "calls": reads(2, "pos", False, False) + [("sendFail",), ("disconnect",)] +
                reads(1, "zero", True, True), "tag": "life-directed:never"})
    for kinds, tail, end in ((["goodS", "goodU"], b"", "idle"), (["goodS"], b"", "fin"), (["unknown", "ack"], b"", "idle"),
                             (["sizePlus", "ack", "goodS"], b"", "idle"), (["badVer", "ack"], b"", "idle"),
                             ([], frame("ack", False, 3)[0][:20], "rst"), (["goodU", "ack"], frame("goodS", False, 3)[0][:50], "fin")):
        for stale in ((False, [5002]), (True, [ALLT]), (False, [])):
            calls = [("connect", wire(["ack"])), ("sub",) + stale, ("sendFail",),
                     ("connect", {"frames": [frame(k, False, 4 + i) for i, k in enumerate(kinds)], "tail": tail, "end": end,
                                  "cuts": []})] + reads(3, "pos", False, False)
            out.append({"life": True, "calls": calls, "tag": "life-directed:handshake"})
    return out


def life_exhaustive(deep: bool):
    """second session: every sequence of <= n frame kinds before the ACK x <= 2 after, x how the first session ended x
    what it had subscribed to x argument classes of the following reads"""
    before_kinds = ["goodS", "goodU", "unknown", "sizePlus", "signalS"]
    after_kinds = ["goodS", "goodU", "ack", "unknown", "signalS"]
    for nb in range(0, 3 if deep else 2):
        for bef in itertools.product(before_kinds, repeat=nb):
            for na in range(0, 3):
                for aft in itertools.product(after_kinds, repeat=na):
                    for i, ending in enumerate(FIRST_ENDINGS[:4]):
                        for sub in ((False, [5002, 5001]), (True, [ALLT])):
                            for tmo, ack, end in (("pos", False, "idle"), ("zero", True, "fin"), ("neg", False, "rst")):
                                first = wire(["ack", "ack"], end="fin" if i == 1 else "idle")
                                second = wire(list(bef) + ["ack"] + list(aft), end=end, salt0=20)
                                calls = [("connect", first), ("sub",) + sub] + ending + [("connect", second)] + \
                                    reads(na + 2, tmo, ack, True)
                                yield {"life": True, "calls": calls, "tag": "life-ex"}


def life_rand_case(rng) -> Dict[str, Any]:
    tc = rng.random() < 0.3
    calls: List[Tuple] = []
    subs = [(False, SUB0), (False, []), (True, [ALLT]), (False, [5003, ACK]), (False, [5001, 5002, 5003, 5004]), (False, [UNKNOWN_T])]
    connected_guess = False
    for _ in range(rng.randint(1, 4)):
        if rng.random() < 0.12:
            calls += reads(1, rng.choice(["pos", "zero"]), False, False)     # maybe before any connect
        n_before = rng.choice([0, 0, 0, 1, 2])
        kinds = [rng.choice(["goodS", "goodU", "signalS", "signalU", "zeroVer", "badVer", "unknown", "sizePlus"])
                 for _ in range(n_before)]
        if rng.random() < 0.9:
            kinds.append("ack")
            if rng.random() < 0.6:
                kinds.append("ack")
        kinds += [rng.choice(KINDS) for _ in range(rng.randint(0, 5))]
        fr = [frame(k, tc, rng.randint(0, 200)) for k in kinds]
        end = rng.choice(["idle", "idle", "fin", "rst"])
        tail = b""
        if rng.random() < 0.35:
            h, p = frame(rng.choice(KINDS), tc, rng.randint(0, 200))
            whole = h + p
            tail = whole[:rng.randint(0, len(whole) - 1)] if len(whole) > 1 else b""
        data_len = sum(len(h) + len(p) for h, p in fr) + len(tail)
        cuts = sorted(rng.randint(1, max(data_len, 1)) for _ in range(rng.randint(0, 4)))
        calls.append(("connect", {"frames": fr, "tail": tail, "end": end, "cuts": cuts}))
        for _ in range(rng.randint(0, len(kinds) + 2)):
            r = rng.random()
            if r < 0.2:
                calls.append(("sub",) + rng.choice(subs))
            elif r < 0.25:
                calls.append(("sendFail",))
            elif r < 0.3:
                calls.append(("disconnect",))
            else:
                calls.append(("read", rng.choice(["zero", "pos", "pos", "zero", "neg", "none"]), rng.random() < 0.3,
                              rng.random() < 0.5))
    return {"life": True, "timecode": tc, "calls": calls, "tag": "life-random"}


def normalise_life(case: Dict[str, Any]) -> Dict[str, Any]:
    hs = 56 if case.get("timecode") else 48
    calls = []
    for c in case["calls"]:
        if c[0] == "connect":
            w = c[1]
            data = b"".join(h + p for h, p in w["frames"]) + w["tail"]
            fr, tail = split_stream(hs, data)
            calls.append(("connect", dict(w, frames=fr, tail=tail)))
        else:
            calls.append(c)
    return dict(case, calls=calls)


def life_to_json(case: Dict[str, Any]) -> Dict[str, Any]:
    calls = []
    for c in case["calls"]:
        if c[0] == "connect":
            w = c[1]
            calls.append(["connect", {"frames": [[h.hex(), p.hex()] for h, p in w["frames"]], "tail": w["tail"].hex(),
                                      "end": w["end"], "cuts": list(w.get("cuts", ()))}])
        else:
            calls.append(list(c))
    return dict(case, calls=calls)


def life_from_json(c: Dict[str, Any]) -> Dict[str, Any]:
    calls = []
    for x in c["calls"]:
        if x[0] == "connect":
            w = x[1]
            calls.append(("connect", {"frames": [(bytes.fromhex(h), bytes.fromhex(p)) for h, p in w["frames"]],
                                      "tail": bytes.fromhex(w["tail"]), "end": w["end"], "cuts": w.get("cuts", [])}))
        else:
            calls.append(tuple(x))
    return dict(c, calls=calls)
