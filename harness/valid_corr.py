"""Tie B for M4 (Model/Validators.lean): the real descriptors of `pyrtma.validators` against the Lean model,
plus the Spec of C09 (Spec/Validators.lean) evaluated on what the real code did.

Abstract values (what the generators produce, what crosses the protocol):
    scalar : ("i", int) ("b", bool) ("f", bits64) ("s", [codepoints]) ("y", bytes) ("o", how) ("c", ct, raw) ("t", tid, raw)
             (ct: a simple ctypes class "i8".."u64" "f32" "f64" "char", or "chars<n>" for the array class `c_char * n`)
    value  : ("S", scalar) | ("L", kind, [scalar], elem_ctype?) | ("A", cls, vk, n, raw|None)
    key    : ("whole",) ("idx", i) ("slice", a, b, c) ("bad",)
    field  : ("int", ik) ("flt", fk) ("char",) ("byte",) ("str", n) ("arr", cls, vk, n) ("strct", tid, size)
             with vk = ik | fk | "byte" | ("s", tid, size)

Case grammar sent to `drv_validators`:
    CASE <id> <validation enabled 0|1>
    FT/KEY/VAL <tokens>          PRE <hex of the field's bytes before>
    OBS ok | err <ExceptionClass>   POST <hex after>   OUT <1 if a byte outside the field changed>   RB <scalars read back>
    MSG <offset of the field in the top-level message> <hex of the whole message before> <hex after>     (optional)
    END
    CTX <id> / EV e0|e1|xn|xe ... / FLAGS 0|1 ... / END     (disable_message_validation histories)
"""
from __future__ import annotations

import ctypes
import itertools
import struct
from fractions import Fraction
from typing import Any, Dict, List, Optional, Tuple

IKS = ["i8", "i16", "i32", "i64", "u8", "u16", "u32", "u64"]
FKS = ["f32", "f64"]
ISIZE = {"i8": 1, "i16": 2, "i32": 4, "i64": 8, "u8": 1, "u16": 2, "u32": 4, "u64": 8}



def _flag_get(V) -> bool:
    """the validation switch as the field setters see it (a ContextVar today; any object with `get()` after a rewrite)"""
    try:
        return bool(V._VALIDATION_ENABLED.get())
    except Exception:  # noqa: BLE001
        return True


def _flag_force_on(V):
    """start a case with validation on, whatever an earlier case left behind (best effort: only a ContextVar can be set)"""
    try:
        V._VALIDATION_ENABLED.set(True)
    except Exception:  # noqa: BLE001
        pass


def ilo(k):
    return -(2 ** (8 * ISIZE[k] - 1)) if k[0] == "i" else 0


def ihi(k):
    return 2 ** (8 * ISIZE[k] - 1) - 1 if k[0] == "i" else 2 ** (8 * ISIZE[k]) - 1


def f2b(x: float) -> int:
    return struct.unpack("<Q", struct.pack("<d", x))[0]


def b2f(b: int) -> float:
    return struct.unpack("<d", struct.pack("<Q", b))[0]


MSG_MAX = 4096          # whole-message bytes cross the protocol up to this size
F32MAX = b2f(0x47EFFFFFE0000000)
F32THR = b2f(0x47EFFFFFF0000000)          # 2^128 - 2^103: first double that rounds to inf
NAN = 0x7FF8000000000000


class World:
    """The real classes, built lazily from the tree under test."""

    def __init__(self):
        from pyrtma import validators as V
        from pyrtma.message_base import MessageBase, MessageMeta
        self.V = V
        self.MessageBase = MessageBase
        self.ict = {"i8": ctypes.c_int8, "i16": ctypes.c_int16, "i32": ctypes.c_int32, "i64": ctypes.c_int64,
                    "u8": ctypes.c_uint8, "u16": ctypes.c_uint16, "u32": ctypes.c_uint32, "u64": ctypes.c_uint64,
                    "f32": ctypes.c_float, "f64": ctypes.c_double, "char": ctypes.c_char}
        self.ival = {"i8": V.Int8, "i16": V.Int16, "i32": V.Int32, "i64": V.Int64,
                     "u8": V.Uint8, "u16": V.Uint16, "u32": V.Uint32, "u64": V.Uint64}
        self.fval = {"f32": V.Float, "f64": V.Double}
        self.structs: Dict[int, type] = {}
        self.tid_of: Dict[type, int] = {}

        def mk(name, fields):
            ns = {}
            for fname, d in fields:
                ns[fname] = d
            return MessageMeta(name, (MessageBase,), ns)

        S = mk("S", [("a", V.Int16()), ("c", V.Char()), ("b", V.Byte()), ("f", V.Float())])
        T = mk("T", [("a", V.Int16()), ("c", V.Char()), ("b", V.Byte()), ("f", V.Float())])
        self.reg(1, S)
        self.reg(2, T)
        fields = []
        for k in IKS:
            fields.append((k, self.ival[k]()))
        fields += [("f32", V.Float()), ("f64", V.Double()), ("ch", V.Char()), ("by", V.Byte()),
                   ("s8", V.String(8)), ("s2", V.String(2)), ("s33", V.String(33))]
        lens = {"i8": 6, "i16": 5, "i32": 4, "i64": 3, "u8": 4, "u16": 3, "u32": 2, "u64": 4}
        for k in IKS:
            fields.append((f"a_{k}", V.IntArray(self.ival[k], lens[k])))
        for n in range(1, 7):
            fields.append((f"ai{n}", V.IntArray(V.Int16, n)))
            fields.append((f"af{n}", V.FloatArray(V.Float, n)))
        fields += [("ad4", V.FloatArray(V.Double, 4)), ("ad6", V.FloatArray(V.Double, 6)),
                   ("ab6", V.ByteArray(6)), ("ab2", V.ByteArray(2)),
                   ("st", V.Struct(S)), ("sa", V.StructArray(S, 3)), ("sa1", V.StructArray(S, 1))]
        self.M = mk("M", fields)
        # a second class: donor of array objects of other shapes, and nesting
        self.N = mk("N", [("x", V.Int8()), ("a_i8", V.IntArray(V.Int8, 6)), ("a_i8b", V.IntArray(V.Int8, 5)),
                          ("a_u8", V.IntArray(V.Uint8, 6)), ("ab6", V.ByteArray(6)), ("ai4", V.IntArray(V.Int16, 4)),
                          ("af4", V.FloatArray(V.Float, 4)), ("ad4", V.FloatArray(V.Double, 4)),
                          ("ad4f", V.FloatArray(V.Float, 4)), ("sa", V.StructArray(S, 3)), ("ta", V.StructArray(T, 3)),
                          ("sa2", V.StructArray(S, 2)), ("st", V.Struct(S)),
                          # donors whose ctypes array type equals that of a target of another descriptor class
                          # (`c_ubyte * 4`: M.a_u8 is IntArray(Uint8, 4)): only `validate_array` keeps them apart
                          ("ab4", V.ByteArray(4))])
        self.reg(3, self.N)
        self.reg(4, self.M)
        self.O = mk("O", [("n", V.Struct(self.N)), ("na", V.StructArray(self.N, 2)), ("z", V.Int32())])
        self.reg(5, self.O)
        self.core: List[type] = []

    def reg(self, tid, cls):
        self.structs[tid] = cls
        self.tid_of[cls] = tid

    def load_core(self):
        if self.core:
            return self.core
        import pyrtma.core_defs as cd
        tid = 100
        for name, obj in vars(cd).items():
            if isinstance(obj, type) and issubclass(obj, self.MessageBase) and obj.__module__ == cd.__name__:
                if ctypes.sizeof(obj) > 0:
                    self.reg(tid, obj)
                    tid += 1
                    self.core.append(obj)
        return self.core

    # ---- field tables ---------------------------------------------------------------------------------------
    def fty_of(self, d) -> Optional[tuple]:
        V = self.V
        if isinstance(d, V.StructArray):
            c = d._validator._ctype
            return ("arr", "structArray", ("s", self.tid_for(c), ctypes.sizeof(c)), d._len)
        if isinstance(d, V.ByteArray):
            return ("arr", "byteArray", "byte", d._len)
        if isinstance(d, V.IntArray):
            return ("arr", "intArray", self.kind_of(d._validator), d._len)
        if isinstance(d, V.FloatArray):
            return ("arr", "floatArray", self.kind_of(d._validator), d._len)
        if isinstance(d, V.Struct):
            return ("strct", self.tid_for(d._ctype), ctypes.sizeof(d._ctype))
        if isinstance(d, V.Char):
            return ("char",)
        if isinstance(d, V.String):
            return ("str", d.len)
        if isinstance(d, V.Byte):
            return ("byte",)
        k = self.kind_of(d)
        if k in IKS:
            return ("int", k)
        if k in FKS:
            return ("flt", k)
        return None

    def tid_for(self, c) -> int:
        if c not in self.tid_of:
            self.reg(1000 + len(self.structs), c)
        return self.tid_of[c]

    def kind_of(self, validator) -> Optional[str]:
        for k, c in list(self.ival.items()) + list(self.fval.items()):
            if type(validator) is c:
                return k
        return None

    def fields(self, cls) -> List[Tuple[str, tuple, int]]:
        """[(name, fty, offset)] of the descriptor fields of a class"""
        out = []
        for raw, _ct in cls._fields_:
            name = raw[1:] if raw.startswith("_") else raw
            d = cls.__dict__.get(name)
            if d is None:
                for b in cls.__mro__:
                    if name in b.__dict__:
                        d = b.__dict__[name]
                        break
            fty = self.fty_of(d) if d is not None else None
            if fty is not None:
                out.append((name, fty, getattr(cls, raw).offset))
        return out


_W: Optional[World] = None


def world() -> World:
    global _W
    if _W is None:
        _W = World()
    return _W


def fsize(fty) -> int:
    t = fty[0]
    if t == "int":
        return ISIZE[fty[1]]
    if t == "flt":
        return 4 if fty[1] == "f32" else 8
    if t in ("char", "byte"):
        return 1
    if t == "str":
        return fty[1]
    if t == "strct":
        return fty[2]
    return vk_esize(fty[2]) * fty[3]


def vk_esize(vk) -> int:
    if isinstance(vk, tuple):
        return vk[2]
    if vk == "byte":
        return 1
    if vk in ISIZE:
        return ISIZE[vk]
    return 4 if vk == "f32" else 8


# ----------------------------------------------------------------------------------------------------------
# tokens
# ----------------------------------------------------------------------------------------------------------

def hx(b: bytes) -> str:
    return b.hex() if len(b) else "-"


def tok_scalar(s) -> str:
    t = s[0]
    if t == "i":
        return f"i:{s[1]}"
    if t == "b":
        return f"b:{1 if s[1] else 0}"
    if t == "f":
        return f"f:{s[1]:016x}"
    if t == "s":
        return "s:" + ".".join(str(c) for c in s[1])
    if t == "y":
        return "y:" + hx(bytes(s[1]))
    if t == "c":
        return f"c:{s[1]}:{hx(s[2])}"
    if t == "t":
        return f"t:{s[1]}:{hx(s[2])}"
    return "o"


def tok_vk(vk) -> str:
    return f"s{vk[1]}:{vk[2]}" if isinstance(vk, tuple) else vk


def tok_val(v) -> str:
    if v[0] == "S":
        return "S " + tok_scalar(v[1])
    if v[0] == "L":
        return " ".join(["L", v[1]] + [tok_scalar(x) for x in v[2]])
    return f"A {v[1]} {tok_vk(v[2])} {v[3]} {'none' if v[4] is None else hx(v[4])}"


def tok_key(k) -> str:
    if k[0] == "slice":
        return "slice " + " ".join("_" if x is None else str(x) for x in k[1:])
    if k[0] == "idx":
        return f"idx {k[1]}"
    return k[0]


def tok_fty(f) -> str:
    if f[0] == "arr":
        return f"arr {f[1]} {tok_vk(f[2])} {f[3]}"
    return " ".join(str(x) for x in f)


# ----------------------------------------------------------------------------------------------------------
# turning abstract values into the real Python objects
# ----------------------------------------------------------------------------------------------------------

class Opaque:
    """an object that is no number, no string and not iterable"""
    __slots__ = ()


def mat_scalar(W: World, s, alt: int = 0):
    t = s[0]
    if t == "i":
        return s[1]
    if t == "b":
        return bool(s[1])
    if t == "f":
        return b2f(s[1])
    if t == "s":
        return "".join(chr(c) for c in s[1])
    if t == "y":
        return bytearray(s[1]) if alt % 2 else bytes(s[1])
    if t == "c":
        if s[1].startswith("chars"):          # an instance of the array class `c_char * n` (the `_ctype` of `String(n)`)
            return (ctypes.c_char * int(s[1][5:])).from_buffer_copy(bytes(s[2]))
        return W.ict[s[1]].from_buffer_copy(bytes(s[2]))
    if t == "t":
        return W.structs[s[1]].from_buffer_copy(bytes(s[2]))
    how = s[1] if len(s) > 1 else "none"
    if how == "none":
        return None
    if how == "obj":
        return Opaque()
    if how == "frac":
        return Fraction(1, 2)
    if how == "nested":
        return [1]
    if how == "dict":
        return {}
    return None


def find_array_field(W: World, cls_name: str, vk, n):
    """a (class, field name) whose descriptor is an array of that class / element validator / length"""
    for c in (W.N, W.M):
        for name, fty, _off in W.fields(c):
            if fty[0] == "arr" and fty[1] == cls_name and fty[2] == vk and fty[3] == n:
                return c, name
    return None


def mat_value(W: World, v, alt: int = 0):
    V = W.V
    if v[0] == "S":
        return mat_scalar(W, v[1], alt)
    if v[0] == "L":
        xs = [mat_scalar(W, x, alt + i) for i, x in enumerate(v[2])]
        if v[1] == "list":
            return xs
        if v[1] == "tuple":
            return tuple(xs)
        if v[1] == "gen":
            return (x for x in xs)
        ct = v[3]
        et = W.structs[ct[1]] if isinstance(ct, tuple) else W.ict[ct]
        return (et * len(xs))(*xs)
    _, cls_name, vk, n, raw = v
    if raw is None:
        if cls_name == "structArray":
            return V.StructArray(W.structs[vk[1]], n)
        if cls_name == "byteArray":
            return V.ByteArray(n)
        if cls_name == "intArray":
            return V.IntArray(W.ival[vk], n)
        return V.FloatArray(W.fval[vk], n)
    hit = find_array_field(W, cls_name, vk, n)
    if hit is None:
        raise KeyError(f"no donor field for {v[1:4]}")
    c, name = hit
    donor = c()
    off = getattr(c, "_" + name).offset
    ctypes.memmove(ctypes.addressof(donor) + off, bytes(raw), len(raw))
    return getattr(donor, name)


def mat_key(k):
    if k[0] == "idx":
        return k[1]
    if k[0] == "slice":
        return slice(k[1], k[2], k[3])
    return "x"


# ----------------------------------------------------------------------------------------------------------
# canonical read-back
# ----------------------------------------------------------------------------------------------------------

def canon(W: World, x) -> tuple:
    if isinstance(x, bool):
        return ("b", x)
    if isinstance(x, int):
        return ("i", x)
    if isinstance(x, float):
        return ("f", f2b(x))
    if isinstance(x, str):
        return ("s", [ord(c) for c in x])
    if isinstance(x, (bytes, bytearray)):
        return ("y", bytes(x))
    if isinstance(x, W.MessageBase):
        return ("t", W.tid_for(type(x)), bytes(x))
    return ("o",)


def read_back(W: World, target, name: str, fty, key) -> List[tuple]:
    try:
        if fty[0] != "arr":
            return [canon(W, getattr(target, name))]
        a = getattr(target, name)
        if key[0] == "idx":
            return [canon(W, a[key[1]])]
        got = a[slice(None) if key[0] == "whole" else mat_key(key)]
        if isinstance(got, (bytes, bytearray)):
            return [("y", bytes([b])) for b in got]
        return [canon(W, g) for g in got]
    except Exception:
        return [("o",)]


ERR_ORDER = [OverflowError, IndexError, AttributeError, TypeError, ValueError]


def err_name(e: BaseException) -> str:
    for c in ERR_ORDER:
        if isinstance(e, c):
            return c.__name__
    return "Other:" + type(e).__name__


# ----------------------------------------------------------------------------------------------------------
# one case
# ----------------------------------------------------------------------------------------------------------

def resolve(W: World, top, path):
    """walk `path` (attribute names / indices) from the top message; returns (object, absolute offset of that object)"""
    obj, off = top, 0
    for p in path:
        if isinstance(p, str):
            off += getattr(type(obj), "_" + p).offset
            obj = getattr(obj, p)
        else:
            elem = obj[p]
            off += p * ctypes.sizeof(type(elem))
            obj = elem
    return obj, off


def run_case(cid: str, case: Dict[str, Any]) -> Tuple[List[str], Dict[str, Any]]:
    """case = {cls: name of the top class in World, path, field, fty, key, val, en, fill (bytes), alt}"""
    W = world()
    V = W.V
    _flag_force_on(V)
    cls = getattr(W, case["cls"]) if isinstance(case["cls"], str) else W.structs[case["cls"]]
    top = cls()
    size = ctypes.sizeof(top)
    fill = bytes(case.get("fill") or b"")
    if fill:
        fill = (fill * (size // len(fill) + 1))[:size]
        ctypes.memmove(ctypes.addressof(top), fill, size)
    target, base = resolve(W, top, case.get("path", []))
    name, fty, key, val = case["field"], case["fty"], case["key"], case["val"]
    off = base + getattr(type(target), "_" + name).offset
    fsz = fsize(fty)
    value = mat_value(W, val, case.get("alt", 0))
    pre = bytes(top)
    out = "ok"
    try:
        if case["en"]:
            _apply(target, name, key, value)
        else:
            with V.disable_message_validation():
                _apply(target, name, key, value)
    except Exception as e:  # noqa: BLE001 every exception is an observation
        out = "err " + err_name(e)
    finally:
        _flag_force_on(V)
    post = bytes(top)
    outside = pre[:off] != post[:off] or pre[off + fsz:] != post[off + fsz:]
    rb = read_back(W, target, name, fty, key) if out == "ok" else []
    lines = [f"CASE {cid} {1 if case['en'] else 0}", "FT " + tok_fty(fty), "KEY " + tok_key(key), "VAL " + tok_val(val),
             "PRE " + hx(pre[off:off + fsz]), "OBS " + out, "POST " + hx(post[off:off + fsz]),
             f"OUT {1 if outside else 0}", "RB " + " ".join(tok_scalar(r) for r in rb)]
    if size <= MSG_MAX:
        # projection `message`: the whole top-level object before / after, and where the field lives in it
        lines.append(f"MSG {off} {hx(pre)} {hx(post)}")
    lines.append("END")
    return lines, {"outcome": out, "changed": pre != post}


def _apply(target, name, key, value):
    if key[0] == "whole":
        setattr(target, name, value)
    else:
        getattr(target, name)[mat_key(key)] = value


# ----------------------------------------------------------------------------------------------------------
# the validation switch
# ----------------------------------------------------------------------------------------------------------

class _Leave(Exception):
    pass


def run_ctx(cid: str, evs: List[str], info: Optional[Dict[str, Any]] = None) -> List[str]:
    """Execute real nested `with disable_message_validation(ignore)` blocks; after every event record whether an
    out-of-range assignment is refused (behavioural flag) - and that the context variable says the same."""
    W = world()
    V = W.V
    _flag_force_on(V)
    flags: List[str] = []
    trouble: List[str] = []        # the context manager itself raised (reported as a correspondence difference)

    keeper = W.N()                 # one message that lives through the whole history
    views: List[Tuple[str, Any]] = []   # array views bound at earlier points of the history (possibly inside a block)

    def bad_assignments(name: str, view) -> List[bool]:
        """out-of-domain stores through `view`; True = refused with nothing changed"""
        out = []
        tries = {"a_i8": [(0, 300), (slice(0, 2), [1, 300])], "ai4": [(1, 70000)], "af4": [(2, 1e39)],
                 "ab6": [(0, 300)], "sa": [(1, ())]}[name]
        for key, val in tries:
            before = bytes(keeper)
            try:
                view[key] = val
                ok = False
            except Exception:  # noqa: BLE001  refused, whatever the class of the exception
                ok = bytes(keeper) == before
            if not ok:      # undo whatever was stored so that later probes start clean
                import ctypes as _ct
                _ct.memmove(_ct.addressof(keeper), before, len(before))
            out.append(ok)
        return out

    def probe():
        m = W.M()
        try:
            m.i8 = 1000
            refused = False
        except Exception:  # noqa: BLE001  refused, whatever the class of the exception
            refused = True
        var = bool(_flag_get(V))
        # "validation is in force whenever execution is not inside a disable block": also for array views that were
        # bound earlier, wherever they were bound
        for nm in ("a_i8", "ai4", "af4", "ab6", "sa"):
            views.append((nm, getattr(keeper, nm)))
        if var:
            for nm, vw in views:
                if not all(bad_assignments(nm, vw)):
                    refused = False
        flags.append(("1" if refused else "0") if refused == var else "?")

    def body(i: int):
        while i < len(evs):
            ev = evs[i]
            if ev[0] == "e":
                how = None
                entered = False
                try:
                    with V.disable_message_validation(ev == "e1"):
                        entered = True
                        probe()
                        i, how = body(i + 1)
                        if how == "xe":
                            raise _Leave()
                except _Leave:
                    pass
                except Exception as e:  # noqa: BLE001  the context manager itself raised (entering or leaving): an
                    # observation, never a crash of the harness.  The walk goes on, so that the flags stay aligned with
                    # the events and the Spec still judges what the switch does afterwards.
                    trouble.append(f"event {i} ({ev}): disable_message_validation raised {type(e).__name__} "
                                   f"while {'leaving' if entered else 'entering'} the block")
                    if not entered:
                        probe()
                        i, how = body(i + 1)
                if how is not None:
                    probe()
            else:
                return i + 1, ev
        return i, None

    try:
        body(0)
    finally:
        _flag_force_on(V)
    if info is not None:
        info["manager_raised"] = trouble
    return [f"CTX {cid}", "EV " + " ".join(evs), "FLAGS " + " ".join(flags), "END"]


# ----------------------------------------------------------------------------------------------------------
# the validation switch over whole programs (model: Stmt / execList in Model/ValidatorsExt.lean)
# ----------------------------------------------------------------------------------------------------------
#
# program = {"cls": top class, "fill": bytes, "stmts": [stmt]}
# stmt    = ("bind", i, obj)                        x_i = obj;  obj = {"path": [...], "field": name | None, "fty": ...}
#         | ("assign", via, sub, tgt, key, val)     via = "f" | number i of a variable x_i; sub = how the field is reached from the
#                                                    bound object: None (the bound array object itself) or a field name;
#                                                    tgt = {"path", "field", "fty"} from the top message
#         | ("block", ignore, [stmt])  |  ("try", [stmt])  |  ("raise",)
#
# protocol:  PROG id / INIT hex / PS ... (the program text) / PR ... (one line per assignment the real code executed)
#            / FLAG 0|1 (context variable afterwards) / FINAL hex / END

def _loc_of(W: World, top, obj) -> Tuple[int, tuple]:
    """absolute offset and descriptor of {"path", "field", "fty"}; field None = the struct the path ends in"""
    target, base = resolve(W, top, obj["path"])
    if obj["field"] is None:
        return base, ("strct", W.tid_for(type(target)), ctypes.sizeof(target))
    return base + getattr(type(target), "_" + obj["field"]).offset, obj["fty"]


def run_prog(cid: str, prog: Dict[str, Any]) -> Tuple[List[str], Dict[str, Any]]:
    W = world()
    V = W.V
    _flag_force_on(V)
    cls = getattr(W, prog["cls"])
    top = cls()
    size = ctypes.sizeof(top)
    fill = bytes(prog.get("fill") or b"")
    if fill:
        fill = (fill * (size // len(fill) + 1))[:size]
        ctypes.memmove(ctypes.addressof(top), fill, size)
    lines = [f"PROG {cid}", "INIT " + hx(bytes(top))]
    views: Dict[int, Any] = {}
    recs: List[str] = []
    info = {"assign": 0, "outside": 0, "raised": 0, "via_view": 0, "max_depth": 0}

    def emit(stmts):
        for st in stmts:
            k = st[0]
            if k == "bind":
                off, fty = _loc_of(W, top, st[2])
                lines.append(f"PS bind {st[1]} {off} ; {tok_fty(fty)}")
            elif k == "assign":
                _, via, _sub, tgt, key, val = st
                off, fty = _loc_of(W, top, tgt)
                v = "f" if via == "f" else f"v{via}"
                lines.append(f"PS assign {v} {off} ; {tok_fty(fty)} ; {tok_key(key)} ; {tok_val(val)}")
            elif k == "block":
                lines.append(f"PS block {1 if st[1] else 0}")
                emit(st[2])
                lines.append("PS end")
            elif k == "try":
                lines.append("PS try")
                emit(st[1])
                lines.append("PS end")
            else:
                lines.append("PS raise")

    def do_assign(st, depth):
        _, via, sub, tgt, key, val = st
        if via != "f" and via not in views:
            raise NameError(f"x_{via}")              # nothing is attempted, nothing is recorded (as in the model)
        off, fty = _loc_of(W, top, tgt)
        value = mat_value(W, val, 0)
        flagvar = bool(_flag_get(V))
        pre = bytes(top)
        out = "ok"
        exc = None
        try:
            if via == "f":
                target, _ = resolve(W, top, tgt["path"])
                _apply(target, tgt["field"], key, value)
            else:
                view = views[via]
                if sub is None:
                    view[mat_key(key)] = value
                else:
                    _apply(view, sub, key, value)
        except Exception as e:  # noqa: BLE001
            out = "err " + err_name(e)
            exc = e
        post = bytes(top)
        rb = []
        if exc is None:
            saved = _flag_get(V)
            target, _ = resolve(W, top, tgt["path"])
            rb = read_back(W, target, tgt["field"], fty, key)
            assert _flag_get(V) == saved
        info["assign"] += 1
        info["outside"] += depth == 0
        info["raised"] += exc is not None
        info["via_view"] += via != "f"
        info["max_depth"] = max(info["max_depth"], depth)
        recs.append(f"PR {depth} {1 if flagvar else 0} {off} ; {tok_fty(fty)} ; {tok_key(key)} ; {tok_val(val)} ; {out} ; "
                    f"{hx(pre)} ; {hx(post)} ; " + " ".join(tok_scalar(r) for r in rb))
        if exc is not None:
            raise exc

    def run(stmts, depth):
        for st in stmts:
            k = st[0]
            if k == "bind":
                obj = st[2]
                target, _ = resolve(W, top, obj["path"])
                views[st[1]] = target if obj["field"] is None else getattr(target, obj["field"])
            elif k == "assign":
                do_assign(st, depth)
            elif k == "block":
                with V.disable_message_validation(st[1]):
                    run(st[2], depth + (0 if st[1] else 1))
            elif k == "try":
                try:
                    run(st[1], depth)
                except Exception:  # noqa: BLE001  `except Exception: pass`
                    pass
            else:
                raise _Leave()

    emit(prog["stmts"])
    try:
        try:
            run(prog["stmts"], 0)
        except Exception:  # noqa: BLE001 the program as a whole ended by an exception
            info["ended_by_exception"] = True
        flag = bool(_flag_get(V))
    finally:
        _flag_force_on(V)
    lines += recs
    lines += [f"FLAG {1 if flag else 0}", "FINAL " + hx(bytes(top)), "END"]
    return lines, info


def ctx_histories(max_len: int) -> List[List[str]]:
    """every well-nested sequence of enter(ignore?) / exit(normal|exception) events up to `max_len` events"""
    out: List[List[str]] = []

    def go(seq, depth):
        if depth == 0 and seq:
            out.append(list(seq))
        if len(seq) >= max_len:
            return
        if len(seq) + depth + 1 <= max_len - 1 + 1 and depth < 3:
            for e in ("e0", "e1"):
                seq.append(e)
                go(seq, depth + 1)
                seq.pop()
        if depth > 0:
            for x in ("xn", "xe"):
                seq.append(x)
                go(seq, depth - 1)
                seq.pop()

    go([], 0)
    return [s for s in out if len(s) <= max_len]


# ----------------------------------------------------------------------------------------------------------
# value pools
# ----------------------------------------------------------------------------------------------------------

def other_scalars(for_float_seq: bool = False):
    """top-level right-hand sides that are no number, no string, not iterable ("nested" only occurs as an element)"""
    o = [("o", "none"), ("o", "obj")]
    if not for_float_seq:
        o.append(("o", "frac"))
    return o


def cdata_pool():
    out = []
    for k in IKS:
        out.append(("c", k, (5).to_bytes(ISIZE[k], "little")))
        out.append(("c", k, b"\xff" * ISIZE[k]))
    out.append(("c", "f32", struct.pack("<f", 1.5)))
    out.append(("c", "f32", struct.pack("<f", float("inf"))))
    out.append(("c", "f64", struct.pack("<d", -2.25)))
    out.append(("c", "char", b"a"))
    out.append(("c", "char", b"\xc8"))
    return out


def int_boundaries(k) -> List[tuple]:
    lo, hi = ilo(k), ihi(k)
    vals = {lo - 1, lo, lo + 1, -1, 0, 1, hi - 1, hi, hi + 1, 2 ** 63, -2 ** 63, 2 ** 64, -2 ** 64, 2 ** 63 - 1,
            2 ** 64 - 1, 10 ** 400, -10 ** 400, 127, 128, 255, 256, -128, -129}
    return [("i", v) for v in sorted(vals)] + [("b", True), ("b", False)]


def float_pool() -> List[tuple]:
    bits = [0, 1 << 63, f2b(1.0), f2b(-1.0), f2b(0.1), f2b(1.5), f2b(F32MAX), f2b(-F32MAX), f2b(F32THR), f2b(-F32THR),
            f2b(F32THR) - 1, f2b(F32THR) + 1, f2b(F32MAX) + 1, f2b(1e39), f2b(-1e39), f2b(1e308), f2b(-1e308),
            0x7FEFFFFFFFFFFFFF, 0xFFEFFFFFFFFFFFFF, 0x7FF0000000000000, 0xFFF0000000000000,
            NAN, NAN | (1 << 63), 0x7FF8000000000123, 0x7FF4000000000000, 0x7FF0000000000001,
            1, 0x000FFFFFFFFFFFFF, 0x0010000000000000,           # double subnormals / min normal
            f2b(2.0 ** -149), f2b(2.0 ** -150), f2b(2.0 ** -150) + 1, f2b(2.0 ** -150) - 1, f2b(2.0 ** -151),
            f2b(2.0 ** -126), f2b(2.0 ** -126) - 1, f2b(2.0 ** -127), f2b(1.5 * 2.0 ** -149), f2b(2.5 * 2.0 ** -149),
            f2b(1.0 + 2.0 ** -24), f2b(1.0 + 2.0 ** -24) + 1, f2b(1.0 + 2.0 ** -24) - 1, f2b(1.0 + 3 * 2.0 ** -24),
            f2b(1.0 + 2.0 ** -23), f2b(16777217.0), f2b(3.14159), f2b(-2.5e-40), f2b(6.5e-46)]
    return [("f", b) for b in bits]


def int_for_float_pool() -> List[tuple]:
    T32 = 2 ** 128 - 2 ** 103
    T64 = 2 ** 1024 - 2 ** 970
    vals = [0, 1, -1, 7, 2 ** 24, 2 ** 24 + 1, 2 ** 24 + 3, 2 ** 53, 2 ** 53 + 1, -(2 ** 53 + 1), 2 ** 60 + 2 ** 36 + 1,
            T32 - 1, T32, T32 + 1, -T32, 2 ** 128, 2 ** 127, T64 - 1, T64, -T64, T64 + 1, 2 ** 1023, 10 ** 400,
            -10 ** 400, 10 ** 38, 4 * 10 ** 38, 10 ** 300]
    return [("i", v) for v in vals] + [("b", True), ("b", False)]


def str_pool(n: int) -> List[tuple]:
    mx = 1 if n == 1 else n - 1
    base = ["", "a", "\0", "\x7f", "\x80", "é", "ab", "a\0b", "\0a", "a" * mx, "a" * (mx + 1), "a" * (n + 3),
            "\x01\x1f\t\n", '"\\', "'", "~ ", "ü" + "a" * max(0, mx - 1), "a" * max(0, mx - 1) + "é",
            "€", "\U0001f600", "A" * max(0, mx - 1)]
    seen, out = set(), []
    for s in base:
        if s not in seen:
            seen.add(s)
            out.append(("s", [ord(c) for c in s]))
    return out


def char_array_pool(n: int) -> List[tuple]:
    """ctypes instances `c_char * m` for a `String(n)` / `Char` field: of the field's own class (stored as they are, whatever
    they hold) and of neighbouring lengths (no `str`: refused)"""
    out = []
    for raw in (b"ab".ljust(n, b"\0")[:n], bytes(n), b"z" * n, (b"a\0cd" * n)[:n], b"\xc8" * n, (b"q\xe9" * n)[:n],
                (b"\0" + b"x" * n)[:n]):
        out.append(("c", f"chars{n}", raw))
    for m in sorted({max(1, n - 1), n + 1, 1, 2} - {n}):
        out.append(("c", f"chars{m}", (b"ab" * m)[:m]))
    seen, res = set(), []
    for x in out:
        if x not in seen:
            seen.add(x)
            res.append(x)
    return res


def scalar_pool(fty) -> List[tuple]:
    """right-hand sides for a scalar field (key whole) or one element (key idx)"""
    t = fty[0]
    wrong = other_scalars() + cdata_pool() + [("s", [97]), ("s", []), ("y", b"a"), ("y", b""), ("y", b"ab"),
                                             ("f", f2b(1.0)), ("f", f2b(1.5)), ("f", NAN), ("i", 1), ("b", True),
                                             ("t", 1, bytes(8)), ("t", 2, bytes(8))]
    if t == "int":
        return int_boundaries(fty[1]) + wrong
    if t == "byte":
        return int_boundaries("u8") + [("y", b"\x00"), ("y", b"\xff"), ("y", b"A")] + wrong
    if t == "flt":
        return float_pool() + int_for_float_pool() + wrong
    if t in ("char", "str"):
        n = 1 if t == "char" else fty[1]
        return str_pool(n) + char_array_pool(n) + wrong
    if t == "strct":
        return [("t", fty[1], bytes(range(1, fty[2] + 1))), ("t", fty[1], bytes(fty[2]))] + wrong
    raise ValueError(fty)


def elem_fty(vk) -> tuple:
    if isinstance(vk, tuple):
        return ("strct", vk[1], vk[2])
    if vk == "byte":
        return ("byte",)
    return ("int", vk) if vk in IKS else ("flt", vk)


def good_elem(rng, vk) -> tuple:
    if isinstance(vk, tuple):
        return ("t", vk[1], bytes(rng.randrange(256) for _ in range(vk[2])))
    if vk == "byte":
        return rng.choice([("i", rng.randrange(256)), ("i", 0), ("i", 255), ("b", True)])
    if vk in IKS:
        return rng.choice([("i", rng.randint(ilo(vk), ihi(vk))), ("i", ilo(vk)), ("i", ihi(vk)), ("i", 0), ("b", False)])
    r = rng.random()
    if r < 0.15:
        return ("f", NAN | (rng.getrandbits(1) << 63))
    if r < 0.3:
        return rng.choice([("i", rng.randint(-10 ** 6, 10 ** 6)), ("b", True), ("i", 2 ** 24 + 1)])
    if r < 0.5:
        return ("f", f2b(rng.choice([0.0, -0.0, 1.0, 0.1, F32MAX, -F32MAX, 2.0 ** -149, 2.0 ** -150, 1e-45, 3e-39])))
    x = rng.uniform(-1, 1) * 10 ** rng.randint(-44, 38)
    return ("f", f2b(x))


def bad_elems(vk) -> List[tuple]:
    """single elements that must make a sequence assignment fail"""
    if isinstance(vk, tuple):
        other_tid = 2 if vk[1] == 1 else 1
        return [("t", other_tid, bytes(8)), ("o", "none"), ("i", 1), ("s", [97]), ("o", "nested")]
    if vk == "byte":
        return [("i", 256), ("i", -1), ("o", "none"), ("s", [97]), ("f", f2b(1.0)), ("y", b"A"), ("i", 10 ** 400),
                ("c", "u8", b"\x05")]
    if vk in IKS:
        return [("i", ihi(vk) + 1), ("i", ilo(vk) - 1), ("o", "none"), ("s", [97]), ("f", f2b(1.0)), ("f", f2b(1.5)),
                ("f", NAN), ("i", 10 ** 400), ("i", -10 ** 400), ("c", vk, b"\x05" * ISIZE[vk]), ("y", b"a"),
                ("o", "frac"), ("o", "nested")]
    bad = [("f", 0x7FF0000000000000), ("f", 0xFFF0000000000000), ("i", 10 ** 400), ("i", -10 ** 400), ("o", "none"),
           ("s", [97]), ("y", b"a"), ("o", "nested"), ("o", "obj"), ("c", vk, struct.pack("<f" if vk == "f32" else "<d", 1.0))]
    if vk == "f32":
        bad += [("f", f2b(1e39)), ("f", f2b(-1e39)), ("f", f2b(F32THR)), ("i", 2 ** 128), ("i", -(2 ** 128 - 2 ** 103)),
                ("f", f2b(1e308))]
    else:
        bad += [("i", 2 ** 1024 - 2 ** 970)]
    return bad


def carray_ct(vk, xs):
    """a ctypes element type able to hold the abstract items exactly, or None"""
    if isinstance(vk, tuple):
        return vk if all(x[0] == "t" and x[1] == vk[1] for x in xs) else None
    if all(x[0] == "i" for x in xs):
        for k in ["i8", "u8", "i16", "u16", "i32", "u32", "i64", "u64"]:
            if all(ilo(k) <= x[1] <= ihi(k) for x in xs):
                return k
        return None
    if all(x[0] == "f" for x in xs):
        return "f64"
    return None


def seq_value(rng, vk, xs, kind=None):
    kind = kind or rng.choice(["list", "list", "tuple", "carray", "gen"])
    if kind == "carray":
        ct = carray_ct(vk, xs)
        if ct is None or not xs:
            kind = "list"
        else:
            return ("L", "carray", xs, ct)
    return ("L", kind, xs)
