"""Shared runner for the eight properties served by the manager model M1 (C01 C03 C05 C06 C07 C14 C18 C19).

One case stream is generated per (tier, seed, source tree); the real manager and the Lean driver are run once and the
verdict lines are cached under /verif/.cache (keyed by a digest of the source tree under test, the harness and the Lean
model), so running the eight checks one after the other costs one run."""
from __future__ import annotations

import hashlib
import json
import multiprocessing as mp
import os
import fcntl
import time
from pathlib import Path
from typing import Any, Dict, List, Optional, Tuple

from . import common as C

PROPS = ["C01", "C03", "C05", "C06", "C07", "C14", "C18", "C19"]
DRIVERS = ["drv_manager"]
CACHE = C.VERIF / ".cache"


def _jsonable_script(rounds: List[Dict[str, Any]]) -> List[Dict[str, Any]]:
    out = []
    for r in rounds:
        r2 = dict(r)
        r2["reads"] = [dict(rd, payload=rd.get("payload", b"").hex()) for rd in r.get("reads", [])]
        if "fail" in r2 and r2["fail"]:
            r2["fail"] = {str(k): v for k, v in r2["fail"].items()}
        out.append(r2)
    return out


def _from_json_script(rounds: List[Dict[str, Any]]) -> List[Dict[str, Any]]:
    out = []
    for r in rounds:
        r2 = dict(r)
        r2["reads"] = [dict(rd, payload=bytes.fromhex(rd.get("payload", ""))) for rd in r.get("reads", [])]
        if r2.get("fail"):
            r2["fail"] = {int(k): v for k, v in r2["fail"].items()}
        out.append(r2)
    return out


def _one(args) -> Dict[str, Any]:
    """worker: run the real manager on one case"""
    cid, rounds, cfg, mode = args
    C.use_repo()
    from . import mgr_corr as G
    try:
        r = G.run_script(rounds, **cfg)
    except Exception as e:  # the harness itself failed on this case
        return {"id": cid, "error": f"{type(e).__name__}: {e}"}
    return {"id": cid, "lines": G.case_lines(cid, r, mode), "crash": r["crash"], "whole": r["whole"],
            "rtma": r["rtma_log_enabled"], "nrounds": len(rounds)}


def build_cases(seed: int, deep: bool) -> List[Tuple[str, List[Dict[str, Any]], Dict[str, Any], str]]:
    C.use_repo()
    from . import mgr_gen as MG
    rng = C.rng_for(seed, "M1" + ("deep" if deep else ""))
    cases = []
    base = dict(timecode=False, log_level=100, timing=True, order="fwd")
    for name, s in MG.directed():
        if name.startswith("u16_boundary_"):
            # 65 thousand rounds each: one configuration; quick runs the exact boundary only
            if deep or name.endswith("_65535"):
                cases.append((f"d.{name}.0", s.rounds, base, "both"))
            continue
        heavy_case = name.startswith(("connections_", "dynamic_", "traffic_"))
        cfgs = [base]
        if deep or not heavy_case:
            cfgs = [base, dict(base, log_level=20, order="rev", debug=True), dict(base, timecode=True, log_level=40)]
        if deep and not heavy_case:
            cfgs += [dict(base, log_level=30, timing=False), dict(base, order="rev")]
        if name.startswith(("traffic_", "type_", "nested_periodic", "debug_tick", "info_subscriber")):
            cfgs = cfgs + [dict(base, timing=False, timecode=True)]     # statistics without TIMING_MESSAGE, long header
        if not deep and name.startswith(("cut_", "leave_", "ident_", "debug_")):
            cfgs = [cfgs[rng.randrange(len(cfgs))]]
        for i, cfg in enumerate(cfgs):
            cases.append((f"d.{name}.{i}", s.rounds, cfg, "both"))
        # DEBUG log level: every logger.debug call forwards an RTMA_LOG_DEBUG message (modelled since round 2)
        if deep or name.startswith("debug_") or rng.random() < 0.3:
            cases.append((f"d.{name}.dbg", s.rounds, dict(base, log_level=10), "both"))
        if deep and name.startswith("debug_"):
            cases.append((f"d.{name}.dbgr", s.rounds, dict(base, log_level=10, order="rev", timecode=True), "both"))
    subs = list(MG.subsets_scenarios())
    if not deep:
        subs = rng.sample(subs, 200)
    for name, s in subs:
        cases.append((f"s.{name}", s.rounds, dict(base, order=rng.choice(["fwd", "rev"]), log_level=rng.choice([100, 100, 40, 10])), "both"))
    n_rand = 3000 if deep else 260
    for i in range(n_rand):
        nc = rng.choice([2, 3, 4, 6, 8])
        nr = rng.choice([20, 40, 80, 200 if deep else 100])
        heavy = rng.random() < 0.3
        s = MG.random_script(rng, nc if not heavy else rng.choice([5, 6, 8]), nr, malformed=rng.choice([0.0, 0.02, 0.06]),
                             failp=rng.choice([0.0, 0.03, 0.08]) if not heavy else rng.choice([0.1, 0.2]),
                             big=rng.random() < 0.15, notice_heavy=heavy)
        cfg = MG.configs(rng, deep)
        cases.append((f"r.{i}", s.rounds, cfg, "both"))
        if rng.random() < 0.1:
            cases.append((f"r.{i}.dbg", s.rounds, dict(cfg, log_level=10), "both"))
    if deep:
        for name, s in MG.heavy_scenarios():
            cases.append((f"h.{name}", s.rounds, base, "both"))
    return cases


def tree_digest() -> str:
    h = hashlib.sha256()
    for root in (C.REPO / "src" / "pyrtma",):
        for p in sorted(root.rglob("*.py")):
            h.update(str(p.relative_to(root)).encode()); h.update(p.read_bytes())
    for p in sorted((C.VERIF / "harness").glob("*.py")):
        h.update(p.name.encode()); h.update(p.read_bytes())
    for rel in ("Model/Manager.lean", "Spec/Manager.lean", "Drv/Manager.lean"):
        h.update((C.LEAN / "Pyrtma" / rel).read_bytes())
    return h.hexdigest()[:20]


def _drive(chunk_lines: List[str]) -> List[str]:
    return C.run_driver("manager", chunk_lines, timeout=7200)


def compute(seed: int, deep: bool) -> Dict[str, Any]:
    """run all cases; returns the summary dict (also cached)"""
    CACHE.mkdir(exist_ok=True)
    key = f"mgr_{'deep' if deep else 'quick'}_{seed}_{tree_digest()}"
    path = CACHE / f"{key}.json"
    lock = open(CACHE / f"{key}.lock", "w")
    fcntl.flock(lock, fcntl.LOCK_EX)
    try:
        if path.exists() and not os.environ.get("VERIF_NOCACHE"):
            try:
                d = json.loads(path.read_text())
                d["cached"] = True
                return d
            except Exception:
                pass
        t0 = time.time()
        cases = build_cases(seed, deep)
        by_id = {c[0]: c for c in cases}
        nproc = min(16, os.cpu_count() or 4)
        with mp.get_context("fork").Pool(nproc) as pool:
            results = pool.map(_one, cases, chunksize=max(1, len(cases) // (nproc * 8)))
        t1 = time.time()
        errors = [r for r in results if "error" in r]
        if errors:
            raise C.MachineryError(f"harness failed on {len(errors)} cases, first: {errors[0]}")
        # drive the model in parallel chunks
        chunks: List[List[str]] = [[] for _ in range(nproc)]
        order = sorted(results, key=lambda r: -len(r["lines"]))
        sizes = [0] * nproc
        for r in order:
            j = sizes.index(min(sizes))
            chunks[j] += r["lines"]
            sizes[j] += len(r["lines"])
        with mp.get_context("fork").Pool(nproc) as pool:
            outs = pool.map(_drive, [c for c in chunks if c])
        t2 = time.time()
        verdict: Dict[str, Dict[str, Any]] = {}
        for out in outs:
            for ln in out:
                t = ln.split(" ", 3)
                if len(t) < 4:
                    continue
                d = verdict.setdefault(t[0], {"corr": {}, "prop": {}})
                if t[1] == "CORR":
                    p, rest = t[2], t[3]
                    d["corr"][p] = rest
                elif t[1] == "PROP":
                    d["prop"][t[2]] = t[3]
        summary: Dict[str, Any] = {"ncases": len(cases), "t_impl": round(t1 - t0, 1), "t_model": round(t2 - t1, 1),
                                   "cases": {}, "cached": False}
        kinds: Dict[str, int] = {}
        for r in results:
            cid = r["id"]
            v = verdict.get(cid)
            if v is None:
                raise C.MachineryError(f"driver gave no verdict for case {cid}")
            kinds[cid.split(".")[0] + ("." + cid.split(".")[1].split("_")[0] if cid[0] == "d" else "")] = \
                kinds.get(cid.split(".")[0] + ("." + cid.split(".")[1].split("_")[0] if cid[0] == "d" else ""), 0) + 1
            bad_corr = {p: x for p, x in v["corr"].items() if not x.startswith("ok")}
            bad_prop = {p: x for p, x in v["prop"].items() if not x.startswith("ok")}
            if r["whole"]:
                bad_prop.setdefault("C05", "fail byte stream is not a sequence of whole frames: " + r["whole"])
            if not r["rtma"]:
                bad_corr.setdefault("C03", "diff an exception was swallowed inside RTMA log forwarding (logger.enable_rtma went False)")
            if bad_corr or bad_prop:
                summary["cases"][cid] = {"corr": bad_corr, "prop": bad_prop, "crash": r["crash"]}
        summary["kinds"] = kinds
        summary["nrounds"] = sum(r["nrounds"] for r in results)
        summary["crashes"] = sum(1 for r in results if r["crash"])
        path.write_text(json.dumps(summary))
        return summary
    finally:
        fcntl.flock(lock, fcntl.LOCK_UN)
        lock.close()


def case_by_id(seed: int, deep: bool, cid: str):
    for c in build_cases(seed, deep):
        if c[0] == cid:
            return c
    return None


def run_for(prop: str, res: C.Result, deep: bool, matchers: Optional[Dict[str, Any]] = None):
    summ = compute(res.seed, deep)
    res.evaluations += summ["ncases"]
    res.traces_validated += summ["ncases"]
    # distinct non-trivial: measured as the number of generated cases with at least 4 rounds (ids are unique)
    cases = build_cases(res.seed, deep)
    for cid, rounds, cfg, mode in cases:
        if len(rounds) >= 4:
            res.distinct.add(hashlib.sha1(repr((cid, len(rounds), sorted(cfg.items()))).encode()).digest()[:10])
    res.rule = ("real MessageManager.run() on fake sockets vs. Lean model M1 and the history-based Spec: directed scenarios "
                "(repaired crash paths, identity matrix, every way/stage/order of leaving, cuts at every byte offset, statistics "
                "sizes), writable x failing subset sweep, seeded random histories (2-8 clients, 20-200 rounds, malformed and "
                "failure streams), each under several configurations (log level, timecode header, set order); "
                "non-trivial = at least 4 rounds")
    res.extra.update({"case_kinds": summ.get("kinds"), "rounds_played": summ.get("nrounds"), "impl_crashes": summ.get("crashes"),
                      "t_impl_s": summ.get("t_impl"), "t_model_s": summ.get("t_model"), "cache_hit": summ.get("cached")})
    by_id = {c[0]: c for c in cases}
    for cid, v in summ["cases"].items():
        c = by_id.get(cid)
        case = {"id": cid, "cfg": c[2] if c else None, "script": _jsonable_script(c[1]) if c else None, "deep": deep}
        if prop in v["prop"]:
            clause = v["prop"][prop][5:] if v["prop"][prop].startswith("fail ") else v["prop"][prop]
            fid = C.match_finding(prop, clause, case, matchers or {})
            res.failures.append(C.Failure(clause=clause[:200], case=case, detail=clause, finding=fid))
        if prop in v["corr"]:
            res.corr_diffs.append({"name": f"corr:M1/{prop}", "diff": v["corr"][prop], "case": case})
    if cases:
        c = cases[len(cases) // 2]
        res.sample({"id": c[0], "cfg": c[2], "first_rounds": _jsonable_script(c[1][:6])}, cap=3)


def replay(prop: str, body: Dict[str, Any]) -> int:
    C.use_repo()
    from . import mgr_corr as G
    case = body.get("case") or (body.get("first_corr_diff") or {}).get("case")
    if not case or not case.get("script"):
        print("nothing replayable in this file")
        return 2
    rounds = _from_json_script(case["script"])
    r = G.run_script(rounds, **case["cfg"])
    out = C.run_driver("manager", G.case_lines("replay", r, "both"))
    bad = [o for o in out if (f"PROP {prop} fail" in o) or (f"CORR {prop} diff" in o)]
    print("\n".join(out))
    return 1 if bad else 0
