"""Tie B for M6 (Model/Layout.lean): the real `Parser.check_alignment` / `validate_msg_def`
against the Lean model, plus the Spec of C11 evaluated on what the real parser returned.

Case grammar sent to `drv_layout`:
    CASE <id> <autoPad 0|1>
    IN   <align>:<esize>:<len|-1>:<pad 0|1> ...
    OBS  ok <align> <size> <fld>@<offset> ... | err <alignment|tooLarge|empty|internal>
    CT   <offset> ... <sizeof> <alignof>          ctypes' own layout of the accepted member list
    END
"""
from __future__ import annotations

import ctypes
import itertools
import logging
import os
import shutil
import subprocess
import tempfile
from typing import Any, Dict, List, Optional, Sequence, Tuple

from . import common as C

# native type name per width (the parser derives alignment from NativeType.size)
NATIVE = {1: "uint8", 2: "int16", 4: "int32", 8: "double"}
C_NATIVE = {1: "unsigned char", 2: "short", 4: "int", 8: "double"}

# the real code gets this long per call (a layout takes milliseconds); longer = it does not terminate = `err internal`
LIMIT_S = 10.0
MAX_HANGS = 2       # per process: after that many expiries the remaining cases of the process are skipped

# A field spec is ("n", width, length|None) or ("s", [specs], length|None) for a nested struct
Spec = Tuple


def _parser(auto_pad: bool):
    from pyrtma import parser as P
    p = P.Parser(validate_alignment=True, auto_pad=auto_pad, import_coredefs=False)
    p.logger.handlers.clear()
    p.logger.addHandler(logging.NullHandler())
    p.logger.setLevel(logging.CRITICAL)
    return P, p


def _classify(P, e: BaseException, nfields: int) -> str:
    if isinstance(e, P.AlignmentError):
        return "alignment"
    if isinstance(e, P.InvalidMessageSize):
        return "tooLarge"
    if isinstance(e, AssertionError) and nfields == 0:
        return "empty"
    return "internal"


class Built:
    """A real SDF built by the real parser from a spec (children validated first, as the parser would)."""

    def __init__(self, P, p, spec_fields: Sequence[Spec], name: str = "S"):
        self.P, self.p = P, p
        self.name = name
        self.in_tokens: List[str] = []
        self.sdf = P.SDF(raw="", hash="", name=name, src=None)  # type: ignore[arg-type]
        self.child_err: Optional[str] = None
        self.cdecls: List[str] = []      # C text of the children, for the gcc probe
        self.cmembers: List[str] = []
        for i, sp in enumerate(spec_fields):
            kind, what, length = sp
            if kind == "n":
                tobj = P.supported_types[NATIVE[what]]
                align, esize = tobj.size, tobj.size
                tname = NATIVE[what]
                ctext = C_NATIVE[what]
            else:
                child = Built(P, p, what, name=f"{name}_c{i}")
                if child.child_err is not None:
                    self.child_err = child.child_err
                    return
                r = child.validate()
                if r[0] != "ok":
                    self.child_err = r[1]
                    return
                tobj = child.sdf
                align, esize = child.sdf.alignment, child.sdf.size
                tname = child.name
                self.cdecls += child.cdecls + [child.c_struct()]
                ctext = f"struct {child.name}"
            f = P.Field(name=f"u{i}", type_name=tname, type_obj=tobj,
                        length_expression=None if length is None else str(length),
                        length_expanded=None if length is None else str(length), length=length)
            self.sdf.fields.append(f)
            self.in_tokens.append(f"{align}:{esize}:{-1 if length is None else length}:0")
            self.cmembers.append((ctext, length))
        self.orig = list(self.sdf.fields)

    def validate(self) -> Tuple[str, Any]:
        P, p = self.P, self.p
        n = len(self.sdf.fields)
        try:
            with C.time_limit(LIMIT_S):
                p.validate_msg_def(self.sdf)
        except BaseException as e:  # noqa: BLE001  (every exception is an observation)
            if isinstance(e, (KeyboardInterrupt, SystemExit)):
                raise
            return ("err", _classify(P, e, n))
        return ("ok", None)

    def obs_tokens(self) -> List[str]:
        s = self.sdf
        toks = ["ok", str(s.alignment), str(s.size)]
        run = 0
        for f in s.fields:
            is_pad = not any(f is o for o in self.orig)
            off = f.offset
            if is_pad and off == -1:
                off = run       # the trailing pad's offset is never recorded by the code; masked
            padflag = "1" if (is_pad and f.type_name == "char") else ("2" if is_pad else "0")
            toks.append(f"{f.alignment}:{f.type_obj.size}:{-1 if f.length is None else f.length}:{padflag}@{off}")
            run += f.size
        return toks

    def ctypes_layout(self) -> List[int]:
        cls = self.p.get_ctype_cls(self.sdf)
        offs = [getattr(cls, f"f{n}").offset for n in range(len(self.sdf.fields))]
        return offs + [ctypes.sizeof(cls), ctypes.alignment(cls)]

    def c_struct(self) -> str:
        """C text of the accepted struct as the C back end would declare it (members in order)."""
        lines = []
        k = 0
        for f in self.sdf.fields:
            if any(f is o for o in self.orig):
                i = next(j for j, o in enumerate(self.orig) if o is f)
                ctext, length = self.cmembers[i]
            else:
                ctext, length = "char", f.length
            arr = f"[{length}]" if length else ""
            lines.append(f"  {ctext} m{k}{arr};")
            k += 1
        return f"struct {self.name} {{\n" + "\n".join(lines) + "\n};"


def run_case(cid: str, auto_pad: bool, spec_fields: Sequence[Spec], want_ct: bool = True):
    """Returns (protocol lines, Built or None)."""
    if C.hangs_seen() >= MAX_HANGS:
        return None, None
    P, p = _parser(auto_pad)
    b = Built(P, p, spec_fields, name=f"S{cid}")
    if b.child_err is not None:
        return None, None
    st = b.validate()
    lines = [f"CASE {cid} {1 if auto_pad else 0}", "IN " + " ".join(b.in_tokens)]
    if st[0] == "ok":
        lines.append("OBS " + " ".join(b.obs_tokens()))
        if want_ct:
            try:
                lines.append("CT " + " ".join(map(str, b.ctypes_layout())))
            except Exception:
                pass
    else:
        lines.append(f"OBS err {st[1]}")
    lines.append("END")
    return lines, b


# ------------------------------------------------------------------------------------------------
# generators
# ------------------------------------------------------------------------------------------------

BASE = [("n", w, l) for w in (1, 2, 4, 8) for l in (None, 1, 2, 3, 5)]


def exhaustive(maxlen: int):
    for n in range(0, maxlen + 1):
        for combo in itertools.product(BASE, repeat=n):
            yield list(combo)


def rand_spec(rng, depth: int, maxf: int) -> List[Spec]:
    out: List[Spec] = []
    for _ in range(rng.randint(1, maxf)):
        length = rng.choice([None, None, 1, 2, 3, 4, 5, 7, 8, 9, 16, 31])
        if depth > 0 and rng.random() < 0.25:
            out.append(("s", rand_spec(rng, depth - 1, 4), length))
        else:
            out.append(("n", rng.choice([1, 1, 2, 4, 8]), length))
    return out


def directed() -> List[List[Spec]]:
    """size-limit boundary cases and zero-length arrays"""
    d: List[List[Spec]] = []
    for total in (65527, 65528, 65529, 65534, 65535, 65536, 65537, 70000):
        d.append([("n", 1, total)])
        d.append([("n", 8, 1), ("n", 1, total - 8)])
        d.append([("n", 1, total - 8), ("n", 8, 1)])
    d.append([("n", 8, 8191), ("n", 1, 7)])
    d.append([("n", 8, 8192)])
    d.append([("n", 4, 16383), ("n", 2, 1)])
    d.append([("n", 4, 0), ("n", 8, None)])
    d.append([("n", 1, 0), ("n", 2, 0), ("n", 4, None)])
    d.append([("s", [("n", 1, 3)], 3), ("n", 2, None)])
    d.append([("s", [("n", 1, None), ("n", 8, None)], 2), ("n", 1, None)])
    d.append([("n", 1, None), ("s", [("n", 2, None), ("n", 1, None)], 3), ("n", 4, None)])
    return d


def gcc_probe(builts: List[Built]) -> List[Tuple[str, List[int], List[int]]]:
    """Compile the accepted structs with gcc, return [(name, gcc layout, recorded layout)] that differ."""
    if not builts or shutil.which("gcc") is None:
        return []
    d = tempfile.mkdtemp(prefix="pyrtma_verif_gcc_")
    try:
        src = ["#include <stdio.h>", "#include <stddef.h>"]
        seen = set()
        for b in builts:
            for decl in b.cdecls + [b.c_struct()]:
                if decl not in seen:
                    seen.add(decl)
                    src.append(decl)
        src.append("int main(void){")
        for b in builts:
            n = len(b.sdf.fields)
            src.append(f'printf("{b.name}");')
            for k in range(n):
                src.append(f'printf(" %zu", offsetof(struct {b.name}, m{k}));')
            src.append(f'printf(" %zu %zu\\n", sizeof(struct {b.name}), _Alignof(struct {b.name}));')
        src.append("return 0;}")
        cfile = os.path.join(d, "probe.c")
        open(cfile, "w").write("\n".join(src))
        exe = os.path.join(d, "probe")
        r = subprocess.run(["gcc", "-O0", "-w", "-o", exe, cfile], capture_output=True, text=True)
        if r.returncode != 0:
            raise C.MachineryError("gcc probe failed: " + r.stderr[-500:])
        out = subprocess.run([exe], capture_output=True, text=True).stdout.splitlines()
        bad = []
        byname = {b.name: b for b in builts}
        for line in out:
            t = line.split()
            b = byname[t[0]]
            got = list(map(int, t[1:]))
            run, offs = 0, []
            for f in b.sdf.fields:
                offs.append(run)
                run += f.size
            want = offs + [b.sdf.size, b.sdf.alignment]
            if got != want:
                bad.append((b.name, got, want))
        return bad
    finally:
        shutil.rmtree(d, ignore_errors=True)


# ------------------------------------------------------------------------------------------------
# end-to-end family: the same property through the YAML front end (Parser.parse -> handle_def -> add_fields ->
# validate_msg_def), including field-list reuse (`fields: OTHER`), struct members and struct arrays.
#
# A group is a list of (name, body, kind): body is a list of members ("n", width, len) | ("r", other name, len), or the
# string name of an earlier definition (field-list reuse); kind is "s" (struct_defs) or "m" (message_defs).
# Every accepted definition becomes one case for drv_layout; the IN tokens carry the *natural* alignment of each member,
# computed here from the group (never read from the parser), and the element size the parser recorded for the member
# definition (itself checked in its own case).
# ------------------------------------------------------------------------------------------------

RANK = {"a": 0, "s": 1, "m": 2}       # a file's sections are handled in this order: aliases, struct_defs, message_defs


def _deps(body, kind) -> List[str]:
    if kind == "a":
        return [body] if isinstance(body, str) else []
    if isinstance(body, str):
        return [body]
    return [what for k, what, _l in body if k == "r"]


def _levels(defs) -> Dict[str, int]:
    """file index per definition: a definition goes into the first file in which everything it names is already known
    when its section is handled (same file: an earlier section, or the same section further up; otherwise an imported
    file).  An alias of a struct therefore lives in a file that imports the struct's file."""
    lvl: Dict[str, int] = {}
    kinds = {n: k for n, _b, k in defs}
    for name, body, kind in defs:
        lv = 0
        for d in _deps(body, kind):
            if d in lvl:
                lv = max(lv, lvl[d] + (1 if RANK[kinds[d]] > RANK[kind] else 0))
        lvl[name] = lv
    return lvl


def _parse_order(defs):
    lvl = _levels(defs)
    return sorted(defs, key=lambda x: (lvl[x[0]], RANK[x[2]]))     # stable: list order inside a section


def _file_yaml(defs, imports: List[str], first_id: int) -> str:
    al, sd, md = [], [], []
    mid = first_id
    for name, body, kind in defs:
        if kind == "a":
            al.append(f"  {name}: {NATIVE[body] if isinstance(body, int) else body}")
            continue
        tgt = sd if kind == "s" else md
        tgt.append(f"  {name}:")
        if kind == "m":
            tgt.append(f"    id: {mid}")
            mid += 1
        if isinstance(body, str):
            tgt.append(f"    fields: {body}")
        else:
            tgt.append("    fields:")
            for i, (k, what, length) in enumerate(body):
                t = NATIVE[what] if k == "n" else what
                tgt.append(f"      u{i}: {t}" + (f"[{length}]" if length is not None else ""))
    out = []
    if imports:
        out += ["imports:"] + [f"  - {i}" for i in imports]
    if al:
        out += ["aliases:"] + al
    if sd:
        out += ["struct_defs:"] + sd
    if md:
        out += ["message_defs:"] + md
    return "\n".join(out) + "\n"


def _write_group(d: str, defs, stem: str, tail: str = "") -> str:
    """writes the group as a chain of files <stem>0.yaml <- <stem>1.yaml <- ... (each imports the one before);
    returns the path of the root file.  `tail`: message definitions appended to the root file."""
    lvl = _levels(defs)
    top = max(lvl.values(), default=0)
    prev = None
    mid = 1000
    path = os.path.join(d, f"{stem}0.yaml")
    for k in range(top + 1):
        mine = [x for x in defs if lvl[x[0]] == k]
        if not mine and not (k == top and (tail or prev is None)):
            continue
        text = _file_yaml(mine, [prev] if prev else [], mid)
        mid += sum(1 for x in mine if x[2] == "m")
        if k == top and tail:
            text += tail if any(x[2] == "m" for x in mine) else "message_defs:\n" + tail
        path = os.path.join(d, f"{stem}{k}.yaml")
        open(path, "w").write(text)
        prev = f"{stem}{k}.yaml"
    return path


def _yaml_of(defs) -> str:
    """the group as one file (only for groups whose definitions all fit into one file)"""
    return _file_yaml(defs, [], 1000)


def _natural(defs) -> Dict[str, Tuple[int, Any]]:
    """name -> (natural alignment, user member list after resolving reuse | None for an alias)"""
    nat: Dict[str, Tuple[int, Any]] = {}
    for name, body, kind in defs:
        if kind == "a":
            nat[name] = (body if isinstance(body, int) else nat[body][0], None)
        elif isinstance(body, str):
            nat[name] = nat[body]
        else:
            a = max([(what if k == "n" else nat[what][0]) for k, what, _l in body] or [1])
            nat[name] = (a, body)
    return nat


def _alias_target(defs, name: str):
    """what an alias name finally stands for: a native width (int) or the name of a struct / message"""
    by = {n: (b, k) for n, b, k in defs}
    while name in by and by[name][1] == "a":
        name = by[name][0]
        if isinstance(name, int):
            return name
    return name


def _poison(defs):
    """the same definition names with other layouts (every native width swapped), ending in a duplicate message id:
    parsing it fails, which makes `parse()` call `clear()` — the parser object is then used again"""
    swap = {1: 8, 2: 4, 4: 8, 8: 4}
    out = []
    for name, body, kind in defs:
        if kind == "a":
            out.append((name, swap[body] if isinstance(body, int) else body, kind))
        elif isinstance(body, str):
            out.append((name, body, kind))
        else:
            out.append((name, [(k, (swap[w] if k == "n" else w), l) for k, w, l in body], kind))
    return out


_DUP = "  ZZ_DUP_A:\n    id: 4000\n    fields: null\n  ZZ_DUP_B:\n    id: 4000\n    fields: null\n"


def _parse_group(auto_pad: bool, defs, d: str, reuse: bool = False):
    P, p = _parser(auto_pad)
    if reuse:
        bad = _write_group(d, _poison(defs), "poison", tail=_DUP)
        try:
            with C.time_limit(LIMIT_S):
                p.parse(bad)
        except BaseException as e:  # noqa: BLE001  the failure is intended
            if isinstance(e, (KeyboardInterrupt, SystemExit)):
                raise
    path = _write_group(d, defs, "g")
    try:
        with C.time_limit(LIMIT_S):
            p.parse(path)
    except BaseException as e:  # noqa: BLE001
        if isinstance(e, (KeyboardInterrupt, SystemExit)):
            raise
        return P, None, e
    return P, p, None


def run_yaml_group(gid: str, auto_pad: bool, defs, reuse: bool = False) -> List[Tuple[str, List[str]]]:
    """Returns [(case id, protocol lines)] — one case per struct / message definition up to and including the first
    rejected one (aliases are not cases: they are members of the cases)."""
    if C.hangs_seen() >= MAX_HANGS:
        return []
    # the order in which the parser meets the definitions: file by file, aliases, struct_defs, message_defs
    defs = _parse_order(defs)
    nat = _natural(defs)
    d = tempfile.mkdtemp(prefix="pyrtma_verif_lay_")
    old = os.getcwd()
    try:
        P, p, err = _parse_group(auto_pad, defs, d, reuse)
        n_ok = len(defs)
        if p is None:
            # find the first definition the parser refuses: parse growing prefixes
            n_ok = 0
            for k in range(1, len(defs)):
                P, pk, ek = _parse_group(auto_pad, defs[:k], d, reuse)
                if pk is None:
                    err = ek
                    break
                p, n_ok = pk, k
        cases = []
        for j, (name, body, kind) in enumerate(defs[: n_ok + (1 if n_ok < len(defs) else 0)]):
            if kind == "a":
                continue
            members = nat[name][1]
            toks = []
            for k, what, length in members:
                if k == "n":
                    a = e = what
                else:
                    a = nat[what][0]
                    real = _alias_target(defs, what)
                    if isinstance(real, int):
                        e = real
                    else:
                        tgt = (p.struct_defs.get(real) or p.message_defs.get(real)) if p is not None else None
                        if tgt is None:
                            toks = None
                            break
                        e = tgt.size
                toks.append(f"{a}:{e}:{-1 if length is None else length}:0")
            if toks is None:
                continue
            lines = [f"CASE {gid}.{j} {1 if auto_pad else 0}", "IN " + " ".join(toks)]
            if j < n_ok:
                s = p.struct_defs.get(name) if kind == "s" else p.message_defs.get(name)
                ot = ["ok", str(s.alignment), str(s.size)]
                run = 0
                for f in s.fields:
                    is_pad = f.name.startswith("padding_") and f.name.endswith("_")
                    off = f.offset
                    if is_pad and off == -1:
                        off = run
                    flag = "1" if (is_pad and f.type_name == "char") else ("2" if is_pad else "0")
                    ot.append(f"{f.alignment}:{f.type_obj.size}:{-1 if f.length is None else f.length}:{flag}@{off}")
                    run += f.size
                lines.append("OBS " + " ".join(ot))
                try:
                    cls = p.get_ctype_cls(s)
                    offs = [getattr(cls, f"f{n}").offset for n in range(len(s.fields))]
                    lines.append("CT " + " ".join(map(str, offs + [ctypes.sizeof(cls), ctypes.alignment(cls)])))
                except Exception:
                    pass
            else:
                lines.append(f"OBS err {_classify(P, err, len(members))}")
            lines.append("END")
            cases.append((f"{gid}.{j}", lines))
        return cases
    finally:
        os.chdir(old)
        shutil.rmtree(d, ignore_errors=True)


def yaml_directed():
    """field-list reuse x nesting: a small-alignment definition, a reuse of it, and the reuse used as a member;
    aliases (of a native type, of an alias, of a struct) as members and array elements"""
    G = []
    for w in (1, 2, 4, 8):
        for pre in (1, 2, 4, 8):
            for kindB in ("s", "m"):
                base = [("n", w, None), ("n", w, 2)]
                G.append([("A", base, "s"), ("B", "A", kindB),
                          ("C", [("n", pre, None), ("r", "B", None), ("r", "A", 2)], kindB),
                          ("D", [("n", pre, None), ("r", "B", 3)], "m"),
                          ("E", "C", "m")])
    # reuse of a definition that needed padding; reuse of a reuse; reuse of a message by a struct is not allowed order-wise
    G.append([("A", [("n", 1, None), ("n", 4, None), ("n", 2, None)], "s"), ("B", "A", "s"), ("B2", "B", "s"),
              ("C", [("n", 2, None), ("r", "B2", 2), ("n", 1, None)], "s")])
    G.append([("A", [("n", 2, 3)], "s"), ("B", "A", "s"), ("C", [("n", 2, None), ("r", "B", None)], "s"),
              ("M", "C", "m"), ("N", [("n", 1, 2), ("r", "M", 2)], "m")])
    G.append([("A", [("n", 1, 5)], "s"), ("B", "A", "m"), ("C", [("n", 1, None), ("r", "A", 3), ("n", 8, None)], "m")])
    # aliases: of each native width, of an alias, of a struct whose size is no power of two (its alignment is that of its
    # members, not its size), each as a scalar member and as an array element behind a leading field of every width
    for w in (1, 2, 4, 8):
        for pre in (1, 2, 4, 8):
            G.append([("S", [("n", w, 3)], "s"), ("AN", w, "a"), ("AA", "AN", "a"), ("AS", "S", "a"), ("AAS", "AS", "a"),
                      ("T", [("n", pre, None), ("r", "AN", None), ("n", 1, None), ("r", "AA", 3)], "s"),
                      ("U", [("n", pre, None), ("r", "AS", None), ("n", 1, None), ("r", "AAS", 2)], "s"),
                      ("V", [("r", "AS", None), ("n", pre, None)], "m"),
                      ("W", [("n", 1, None), ("r", "U", 2), ("r", "AN", None)], "m"),
                      ("X", "U", "m")])
    return G


def yaml_random(rng):
    names, defs = [], []
    n = rng.randint(2, 6)
    with_alias = rng.random() < 0.5
    for i in range(n):
        name = f"T{i}"
        kind = "s" if (i < n - 1 and rng.random() < 0.8) else rng.choice(["s", "m"])
        usable = [x[0] for x in defs if x[2] in ("s", "a") or kind == "m"]
        reusable = [x[0] for x in defs if x[2] == "s" or (kind == "m" and x[2] == "m")]
        if reusable and rng.random() < 0.3:
            body: Any = rng.choice(reusable)
        else:
            body = []
            wmax = rng.choice([1, 2, 4, 8, 8])
            for _ in range(rng.randint(1, 5)):
                length = rng.choice([None, None, 1, 2, 3, 5])
                if usable and rng.random() < 0.4:
                    body.append(("r", rng.choice(usable), length))
                else:
                    body.append(("n", rng.choice([w for w in (1, 2, 4, 8) if w <= wmax]), length))
        defs.append((name, body, kind))
        if with_alias and rng.random() < 0.5:
            # an alias of a native width, of an earlier alias, or of an earlier struct
            tg = [x[0] for x in defs if x[2] in ("s", "a")]
            defs.append((f"A{i}", rng.choice(tg) if (tg and rng.random() < 0.6) else rng.choice([1, 2, 4, 8]), "a"))
    return defs
