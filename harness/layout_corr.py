"""Tie B for M6 (Model/Layout.lean): the real `Parser.check_alignment` / `validate_msg_def`
against the Lean model, plus the Spec of C11 evaluated on what the real parser returned.

Case grammar sent to `drv_layout`:
    CASE <id> <autoPad 0|1>
    IN   <align>:<esize>:<len|-1>:<pad 0|1> ...
    OBS  ok <align> <size> <fld>@<offset> ... | err <alignment|tooLarge|empty|internal>
    CT   <offset> ... <sizeof> <alignof>          ctypes' own layout of the accepted member list
    END
"""
from __future__ import annotations

import ctypes
import itertools
import logging
import os
import shutil
import subprocess
import tempfile
from typing import Any, Dict, List, Optional, Sequence, Tuple

from . import common as C

# native type name per width (the parser derives alignment from NativeType.size)
NATIVE = {1: "uint8", 2: "int16", 4: "int32", 8: "double"}
C_NATIVE = {1: "unsigned char", 2: "short", 4: "int", 8: "double"}

# the real code gets this long per call (a layout takes milliseconds); longer = it does not terminate = `err internal`
LIMIT_S = 10.0
MAX_HANGS = 2       # per process: after that many expiries the remaining cases of the process are skipped

# A field spec is ("n", width, length|None) or ("s", [specs], length|None) for a nested struct
Spec = Tuple


def _parser(auto_pad: bool):
    from pyrtma import parser as P
    p = P.Parser(validate_alignment=True, auto_pad=auto_pad, import_coredefs=False)
    p.logger.handlers.clear()
    p.logger.addHandler(logging.NullHandler())
    p.logger.setLevel(logging.CRITICAL)
    return P, p


def _classify(P, e: BaseException, nfields: int) -> str:
    if isinstance(e, P.AlignmentError):
        return "alignment"
    if isinstance(e, P.InvalidMessageSize):
        return "tooLarge"
    if isinstance(e, AssertionError) and nfields == 0:
        return "empty"
    return "internal"


class Built:
    """A real SDF built by the real parser from a spec (children validated first, as the parser would)."""

    def __init__(self, P, p, spec_fields: Sequence[Spec], name: str = "S"):
        self.P, self.p = P, p
        self.name = name
        self.in_tokens: List[str] = []
        self.sdf = P.SDF(raw="", hash="", name=name, src=None)  # type: ignore[arg-type]
        self.child_err: Optional[str] = None
        self.cdecls: List[str] = []      # C text of the children, for the gcc probe
        self.cmembers: List[str] = []
        for i, sp in enumerate(spec_fields):
            kind, what, length = sp
            if kind == "n":
                tobj = P.supported_types[NATIVE[what]]
                align, esize = tobj.size, tobj.size
                tname = NATIVE[what]
                ctext = C_NATIVE[what]
            else:
                child = Built(P, p, what, name=f"{name}_c{i}")
                if child.child_err is not None:
                    self.child_err = child.child_err
                    return
                r = child.validate()
                if r[0] != "ok":
                    self.child_err = r[1]
                    return
                tobj = child.sdf
                align, esize = child.sdf.alignment, child.sdf.size
                tname = child.name
                self.cdecls += child.cdecls + [child.c_struct()]
                ctext = f"struct {child.name}"
            f = P.Field(name=f"u{i}", type_name=tname, type_obj=tobj,
                        length_expression=None if length is None else str(length),
                        length_expanded=None if length is None else str(length), length=length)
            self.sdf.fields.append(f)
            self.in_tokens.append(f"{align}:{esize}:{-1 if length is None else length}:0")
            self.cmembers.append((ctext, length))
        self.orig = list(self.sdf.fields)

    def validate(self) -> Tuple[str, Any]:
        P, p = self.P, self.p
        n = len(self.sdf.fields)
        try:
            with C.time_limit(LIMIT_S):
                p.validate_msg_def(self.sdf)
        except BaseException as e:  # noqa: BLE001  (every exception is an observation)
            if isinstance(e, (KeyboardInterrupt, SystemExit)):
                raise
            return ("err", _classify(P, e, n))
        return ("ok", None)

    def obs_tokens(self) -> List[str]:
        s = self.sdf
        toks = ["ok", str(s.alignment), str(s.size)]
        run = 0
        for f in s.fields:
            is_pad = not any(f is o for o in self.orig)
            off = f.offset
            if is_pad and off == -1:
                off = run       # the trailing pad's offset is never recorded by the code; masked
            padflag = "1" if (is_pad and f.type_name == "char") else ("2" if is_pad else "0")
            toks.append(f"{f.alignment}:{f.type_obj.size}:{-1 if f.length is None else f.length}:{padflag}@{off}")
            run += f.size
        return toks

    def ctypes_layout(self) -> List[int]:
        cls = self.p.get_ctype_cls(self.sdf)
        offs = [getattr(cls, f"f{n}").offset for n in range(len(self.sdf.fields))]
        return offs + [ctypes.sizeof(cls), ctypes.alignment(cls)]

    def c_struct(self) -> str:
        """C text of the accepted struct as the C back end would declare it (members in order)."""
        lines = []
        k = 0
        for f in self.sdf.fields:
            if any(f is o for o in self.orig):
                i = next(j for j, o in enumerate(self.orig) if o is f)
                ctext, length = self.cmembers[i]
            else:
                ctext, length = "char", f.length
            arr = f"[{length}]" if length else ""
            lines.append(f"  {ctext} m{k}{arr};")
            k += 1
        return f"struct {self.name} {{\n" + "\n".join(lines) + "\n};"


def run_case(cid: str, auto_pad: bool, spec_fields: Sequence[Spec], want_ct: bool = True):
    """Returns (protocol lines, Built or None)."""
    if C.hangs_seen() >= MAX_HANGS:
        return None, None
    P, p = _parser(auto_pad)
    b = Built(P, p, spec_fields, name=f"S{cid}")
    if b.child_err is not None:
        return None, None
    st = b.validate()
    lines = [f"CASE {cid} {1 if auto_pad else 0}", "IN " + " ".join(b.in_tokens)]
    if st[0] == "ok":
        lines.append("OBS " + " ".join(b.obs_tokens()))
        if want_ct:
            try:
                lines.append("CT " + " ".join(map(str, b.ctypes_layout())))
            except Exception:
                pass
    else:
        lines.append(f"OBS err {st[1]}")
    lines.append("END")
    return lines, b


# ------------------------------------------------------------------------------------------------
# generators
# ------------------------------------------------------------------------------------------------

BASE = [("n", w, l) for w in (1, 2, 4, 8) for l in (None, 1, 2, 3, 5)]


def exhaustive(maxlen: int):
    for n in range(0, maxlen + 1):
        for combo in itertools.product(BASE, repeat=n):
            yield list(combo)


def rand_spec(rng, depth: int, maxf: int) -> List[Spec]:
    out: List[Spec] = []
    for _ in range(rng.randint(1, maxf)):
        length = rng.choice([None, None, 1, 2, 3, 4, 5, 7, 8, 9, 16, 31])
        if depth > 0 and rng.random() < 0.25:
            out.append(("s", rand_spec(rng, depth - 1, 4), length))
        else:
            out.append(("n", rng.choice([1, 1, 2, 4, 8]), length))
    return out


def directed() -> List[List[Spec]]:
    """size-limit boundary cases and zero-length arrays"""
    d: List[List[Spec]] = []
    for total in (65527, 65528, 65529, 65534, 65535, 65536, 65537, 70000):
        d.append([("n", 1, total)])
        d.append([("n", 8, 1), ("n", 1, total - 8)])
        d.append([("n", 1, total - 8), ("n", 8, 1)])
    d.append([("n", 8, 8191), ("n", 1, 7)])
    d.append([("n", 8, 8192)])
    d.append([("n", 4, 16383), ("n", 2, 1)])
    d.append([("n", 4, 0), ("n", 8, None)])
    d.append([("n", 1, 0), ("n", 2, 0), ("n", 4, None)])
    d.append([("s", [("n", 1, 3)], 3), ("n", 2, None)])
    d.append([("s", [("n", 1, None), ("n", 8, None)], 2), ("n", 1, None)])
    d.append([("n", 1, None), ("s", [("n", 2, None), ("n", 1, None)], 3), ("n", 4, None)])
    return d


def gcc_probe(builts: List[Built]) -> List[Tuple[str, List[int], List[int]]]:
    """Compile the accepted structs with gcc, return [(name, gcc layout, recorded layout)] that differ."""
    if not builts or shutil.which("gcc") is None:
        return []
    d = tempfile.mkdtemp(prefix="pyrtma_verif_gcc_")
    try:
        src = ["#include <stdio.h>", "#include <stddef.h>"]
        seen = set()
        for b in builts:
            for decl in b.cdecls + [b.c_struct()]:
                if decl not in seen:
                    seen.add(decl)
                    src.append(decl)
        src.append("int main(void){")
        for b in builts:
            n = len(b.sdf.fields)
            src.append(f'printf("{b.name}");')
            for k in range(n):
                src.append(f'printf(" %zu", offsetof(struct {b.name}, m{k}));')
            src.append(f'printf(" %zu %zu\\n", sizeof(struct {b.name}), _Alignof(struct {b.name}));')
        src.append("return 0;}")
        cfile = os.path.join(d, "probe.c")
        open(cfile, "w").write("\n".join(src))
        exe = os.path.join(d, "probe")
        r = subprocess.run(["gcc", "-O0", "-w", "-o", exe, cfile], capture_output=True, text=True)
        if r.returncode != 0:
            raise C.MachineryError("gcc probe failed: " + r.stderr[-500:])
        out = subprocess.run([exe], capture_output=True, text=True).stdout.splitlines()
        bad = []
        byname = {b.name: b for b in builts}
        for line in out:
            t = line.split()
            b = byname[t[0]]
            got = list(map(int, t[1:]))
            run, offs = 0, []
            for f in b.sdf.fields:
                offs.append(run)
                run += f.size
            want = offs + [b.sdf.size, b.sdf.alignment]
            if got != want:
                bad.append((b.name, got, want))
        return bad
    finally:
        shutil.rmtree(d, ignore_errors=True)


# ------------------------------------------------------------------------------------------------
# end-to-end family: the same property through the YAML front end (Parser.parse -> handle_def -> add_fields ->
# validate_msg_def), including field-list reuse (`fields: OTHER`), struct members and struct arrays.
#
# A group is a list of (name, body, kind): body is a list of members ("n", width, len) | ("r", other name, len), or the
# string name of an earlier definition (field-list reuse); kind is "s" (struct_defs) or "m" (message_defs).
# Every accepted definition becomes one case for drv_layout; the IN tokens carry the *natural* alignment of each member,
# computed here from the group (never read from the parser), and the element size the parser recorded for the member
# definition (itself checked in its own case).
# ------------------------------------------------------------------------------------------------

def _yaml_of(defs) -> str:
    sd, md = [], []
    mid = 1000
    for name, body, kind in defs:
        tgt = sd if kind == "s" else md
        tgt.append(f"  {name}:")
        if kind == "m":
            tgt.append(f"    id: {mid}")
            mid += 1
        if isinstance(body, str):
            tgt.append(f"    fields: {body}")
        else:
            tgt.append("    fields:")
            for i, (k, what, length) in enumerate(body):
                t = NATIVE[what] if k == "n" else what
                tgt.append(f"      u{i}: {t}" + (f"[{length}]" if length is not None else ""))
    out = []
    if sd:
        out += ["struct_defs:"] + sd
    if md:
        out += ["message_defs:"] + md
    return "\n".join(out) + "\n"


def _natural(defs) -> Dict[str, Tuple[int, list]]:
    """name -> (natural alignment, user member list after resolving reuse)"""
    nat: Dict[str, Tuple[int, list]] = {}
    for name, body, _ in defs:
        if isinstance(body, str):
            nat[name] = nat[body]
        else:
            a = max([(what if k == "n" else nat[what][0]) for k, what, _l in body] or [1])
            nat[name] = (a, body)
    return nat


def _poison(defs):
    """the same definition names with other layouts (every native width swapped), ending in a duplicate message id:
    parsing it fails, which makes `parse()` call `clear()` — the parser object is then used again"""
    swap = {1: 8, 2: 4, 4: 8, 8: 4}
    out = []
    for name, body, kind in defs:
        if isinstance(body, str):
            out.append((name, body, kind))
        else:
            out.append((name, [(k, (swap[w] if k == "n" else w), l) for k, w, l in body], kind))
    return out


def _parse_group(auto_pad: bool, defs, d: str, reuse: bool = False):
    P, p = _parser(auto_pad)
    if reuse:
        bad = os.path.join(d, "poison.yaml")
        open(bad, "w").write(_yaml_of(_poison(defs)) + "  ZZ_DUP_A:\n    id: 4000\n    fields: null\n  ZZ_DUP_B:\n    id: 4000\n    fields: null\n"
                             if any(k == "m" for _n, _b, k in defs) else
                             _yaml_of(_poison(defs)) + "message_defs:\n  ZZ_DUP_A:\n    id: 4000\n    fields: null\n  ZZ_DUP_B:\n    id: 4000\n    fields: null\n")
        try:
            with C.time_limit(LIMIT_S):
                p.parse(bad)
        except BaseException as e:  # noqa: BLE001  the failure is intended
            if isinstance(e, (KeyboardInterrupt, SystemExit)):
                raise
    path = os.path.join(d, "g.yaml")
    # struct_defs are parsed before message_defs: order the prefix the same way
    open(path, "w").write(_yaml_of(defs))
    try:
        with C.time_limit(LIMIT_S):
            p.parse(path)
    except BaseException as e:  # noqa: BLE001
        if isinstance(e, (KeyboardInterrupt, SystemExit)):
            raise
        return P, None, e
    return P, p, None


def run_yaml_group(gid: str, auto_pad: bool, defs, reuse: bool = False) -> List[Tuple[str, List[str]]]:
    """Returns [(case id, protocol lines)] — one case per definition up to and including the first rejected one."""
    # the parser handles every struct_def of a file before any message_def
    if C.hangs_seen() >= MAX_HANGS:
        return []
    defs = [x for x in defs if x[2] == "s"] + [x for x in defs if x[2] == "m"]
    nat = _natural(defs)
    d = tempfile.mkdtemp(prefix="pyrtma_verif_lay_")
    old = os.getcwd()
    try:
        P, p, err = _parse_group(auto_pad, defs, d, reuse)
        n_ok = len(defs)
        if p is None:
            # find the first definition the parser refuses: parse growing prefixes
            n_ok = 0
            for k in range(1, len(defs)):
                P, pk, ek = _parse_group(auto_pad, defs[:k], d, reuse)
                if pk is None:
                    err = ek
                    break
                p, n_ok = pk, k
        cases = []
        for j, (name, body, kind) in enumerate(defs[: n_ok + (1 if n_ok < len(defs) else 0)]):
            members = nat[name][1]
            toks = []
            for k, what, length in members:
                if k == "n":
                    a = e = what
                else:
                    a = nat[what][0]
                    tgt = (p.struct_defs.get(what) or p.message_defs.get(what)) if p is not None else None
                    if tgt is None:
                        toks = None
                        break
                    e = tgt.size
                toks.append(f"{a}:{e}:{-1 if length is None else length}:0")
            if toks is None:
                continue
            lines = [f"CASE {gid}.{j} {1 if auto_pad else 0}", "IN " + " ".join(toks)]
            if j < n_ok:
                s = p.struct_defs.get(name) if kind == "s" else p.message_defs.get(name)
                ot = ["ok", str(s.alignment), str(s.size)]
                run = 0
                for f in s.fields:
                    is_pad = f.name.startswith("padding_") and f.name.endswith("_")
                    off = f.offset
                    if is_pad and off == -1:
                        off = run
                    flag = "1" if (is_pad and f.type_name == "char") else ("2" if is_pad else "0")
                    ot.append(f"{f.alignment}:{f.type_obj.size}:{-1 if f.length is None else f.length}:{flag}@{off}")
                    run += f.size
                lines.append("OBS " + " ".join(ot))
                try:
                    cls = p.get_ctype_cls(s)
                    offs = [getattr(cls, f"f{n}").offset for n in range(len(s.fields))]
                    lines.append("CT " + " ".join(map(str, offs + [ctypes.sizeof(cls), ctypes.alignment(cls)])))
                except Exception:
                    pass
            else:
                lines.append(f"OBS err {_classify(P, err, len(members))}")
            lines.append("END")
            cases.append((f"{gid}.{j}", lines))
        return cases
    finally:
        os.chdir(old)
        shutil.rmtree(d, ignore_errors=True)


def yaml_directed():
    """field-list reuse x nesting: a small-alignment definition, a reuse of it, and the reuse used as a member"""
    G = []
    for w in (1, 2, 4, 8):
        for pre in (1, 2, 4, 8):
            for kindB in ("s", "m"):
                base = [("n", w, None), ("n", w, 2)]
                G.append([("A", base, "s"), ("B", "A", kindB),
                          ("C", [("n", pre, None), ("r", "B", None), ("r", "A", 2)], kindB),
                          ("D", [("n", pre, None), ("r", "B", 3)], "m"),
                          ("E", "C", "m")])
    # reuse of a definition that needed padding; reuse of a reuse; reuse of a message by a struct is not allowed order-wise
    G.append([("A", [("n", 1, None), ("n", 4, None), ("n", 2, None)], "s"), ("B", "A", "s"), ("B2", "B", "s"),
              ("C", [("n", 2, None), ("r", "B2", 2), ("n", 1, None)], "s")])
    G.append([("A", [("n", 2, 3)], "s"), ("B", "A", "s"), ("C", [("n", 2, None), ("r", "B", None)], "s"),
              ("M", "C", "m"), ("N", [("n", 1, 2), ("r", "M", 2)], "m")])
    G.append([("A", [("n", 1, 5)], "s"), ("B", "A", "m"), ("C", [("n", 1, None), ("r", "A", 3), ("n", 8, None)], "m")])
    return G


def yaml_random(rng):
    names, defs = [], []
    n = rng.randint(2, 6)
    for i in range(n):
        name = f"T{i}"
        kind = "s" if (i < n - 1 and rng.random() < 0.8) else rng.choice(["s", "m"])
        usable = [x[0] for x in defs if x[2] == "s" or kind == "m"]
        if usable and rng.random() < 0.3:
            body: Any = rng.choice(usable)
        else:
            body = []
            wmax = rng.choice([1, 2, 4, 8, 8])
            for _ in range(rng.randint(1, 5)):
                length = rng.choice([None, None, 1, 2, 3, 5])
                if usable and rng.random() < 0.4:
                    body.append(("r", rng.choice(usable), length))
                else:
                    body.append(("n", rng.choice([w for w in (1, 2, 4, 8) if w <= wmax]), length))
        defs.append((name, body, kind))
    return defs
