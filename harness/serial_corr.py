"""Tie B for M5 (Model/Serial.lean, Model/Json.lean, Model/Heap.lean): the real `to_dict / from_dict / to_json /
from_json / copy` of every message and struct class against the Lean model (whole dictionaries, JSON text, storage
scripts, and per leaf field as before), plus the Spec of C10 evaluated on what the real code did.

Case grammar sent to `drv_serial`:
    SER <id>
    DESC <desc>                          the class descriptor:  desc := L <k> <k field type tokens>  |  A <n> <desc>
                                                                       |  ( <sizeof> { F <name> <offset in the struct> <desc> }* )
    DICT <val>                           the whole `to_dict()`: val := V <k> <k value tokens>  |  [ <val>* ]  |  { { K <name> <val> }* }
    LEAF <absolute offset> <field type tokens> | <value tokens of the to_dict entry>        one per leaf field
    B0 <hex of the original message>
    FTOK <float bits, hex> <token>       what Python's `json` writes for that float (`float.__repr__`, NaN, Infinity, -Infinity)
    JMIN / JPRETTY <hex of the text>     `to_json(minify=True)` / `to_json()` of the message data
    HDESC <desc> / HB <hex> / HJMIN / HJPRETTY <hex of the text>     the header class, a header, `Message(header, data).to_json`
    HOP N <cls> <hex> | C <cls> <sizeof cls> <src> | CE <cls> <sizeof cls> <src> | V <src> <off> <size> <cls>
        | W <dst> <off> <hex> | M <hdr> <data>       a storage script run on real ctypes objects (ids in creation order):
                                         new object, `cls.copy(src)`, the same raising ValueError, nested-struct view,
                                         memmove into an object, `Message.copy`;   HRD <id> <cls> <hex>  bytes at the end
    FD <probe> <hex of from_dict(v) | err> <val>     `from_dict` on the dictionary itself (`self`), on what json.loads
                                         gives back (`json`), and on altered ones (strings as lists of characters, a key
                                         missing, a struct-array list too short / too long, a value of the wrong shape)
    BD <hex of from_dict(to_dict(m)) | err>
    RT <trip name> <hex of the decoded message | err:Class>
    COPY <1 if the copy shares storage with the original>
    VER <header version> <local type_hash> <1 if Message.from_json refused>
    END
"""
from __future__ import annotations

import ctypes
import importlib.util
import json
import sys
from typing import Any, Dict, List, Tuple

from . import common as C
from . import valid_corr as VC



def _flag_get(V) -> bool:
    """the validation switch as the field setters see it (a ContextVar today; any object with `get()` after a rewrite)"""
    try:
        from . import priv as PV       # the switch object is found (not named); else the flag is measured
        return PV.validation_in_force(V)
    except Exception:  # noqa: BLE001
        return True


def _flag_force_on(V):
    """start a case with validation on, whatever an earlier case left behind (best effort: only a ContextVar can be set)"""
    try:
        from . import priv as PV
        PV.validation_switch(V).set(True)
    except Exception:  # noqa: BLE001
        pass


def leaves(W: VC.World, cls, base: int = 0, path: Tuple = ()) -> List[Tuple[Tuple, str, tuple, int]]:
    """flatten a class to its leaf descriptor fields: [(path, name, fty, absolute offset)]"""
    out = []
    for name, fty, off in W.fields(cls):
        if fty[0] == "strct":
            out += leaves(W, W.structs[fty[1]], base + off, path + (name,))
        elif fty[0] == "arr" and isinstance(fty[2], tuple):
            sub = W.structs[fty[2][1]]
            for i in range(fty[3]):
                out += leaves(W, sub, base + off + i * fty[2][2], path + (name, i))
        else:
            out.append((path, name, fty, base + off))
    return out


def dict_leaf(d: Dict[str, Any], path: Tuple, name: str):
    cur: Any = d
    for p in path:
        cur = cur[p]
    return cur[name]


def desc_tokens(W: VC.World, cls) -> List[str]:
    """the walk of `_fields_` that `_to_dict` / `_from_dict` perform, with the offsets ctypes reports"""
    out = ["(", str(ctypes.sizeof(cls))]
    for name, fty, off in W.fields(cls):
        out += ["F", name, str(off)]
        if fty[0] == "strct":
            out += desc_tokens(W, W.structs[fty[1]])
        elif fty[0] == "arr" and isinstance(fty[2], tuple):
            out += ["A", str(fty[3])] + desc_tokens(W, W.structs[fty[2][1]])
        else:
            t = VC.tok_fty(fty).split()
            out += ["L", str(len(t))] + t
    out.append(")")
    return out


def val_tokens(W: VC.World, x) -> List[str]:
    """a `to_dict()` result (or an altered one) as tokens"""
    if isinstance(x, dict):
        out = ["{"]
        for k, v in x.items():
            out += ["K", str(k)] + val_tokens(W, v)
        return out + ["}"]
    if isinstance(x, list) and any(isinstance(e, dict) for e in x):
        out = ["["]
        for e in x:
            out += val_tokens(W, e)
        return out + ["]"]
    t = VC.tok_val(canon_val(W, x)).split()
    return ["V", str(len(t))] + t


def dict_variants(W: VC.World, cls, d: Dict[str, Any], rng) -> List[Tuple[str, Any]]:
    """altered copies of a `to_dict()` result: every one is a value `from_dict` may be handed"""
    import copy as _copy

    def sites(cur, cl, path, acc):
        for name, fty, _off in W.fields(cl):
            if fty[0] == "strct":
                acc.append(("struct", path + (name,)))
                sites(cur[name], W.structs[fty[1]], path + (name,), acc)
            elif fty[0] == "arr" and isinstance(fty[2], tuple):
                acc.append(("sarr", path + (name,)))
                for i in range(fty[3]):
                    sites(cur[name][i], W.structs[fty[2][1]], path + (name, i), acc)
            else:
                acc.append(("str" if fty[0] == "str" else "leaf", path + (name,)))
        return acc

    def edit(path, fn):
        v = _copy.deepcopy(d)
        cur = v
        for q in path[:-1]:
            cur = cur[q]
        fn(cur, path[-1])
        return v

    S = sites(d, cls, (), [])
    out: List[Tuple[str, Any]] = []
    strs = [p for k, p in S if k == "str"]
    if strs:
        v = _copy.deepcopy(d)
        for p in strs:
            if rng.random() < 0.7:
                cur = v
                for q in p[:-1]:
                    cur = cur[q]
                cur[p[-1]] = list(cur[p[-1]])
        out.append(("chars", v))
    anyp = [p for _k, p in S]
    if anyp:
        out.append(("missing", edit(rng.choice(anyp), lambda c, k: c.pop(k))))
    sarrs = [p for k, p in S if k == "sarr"]
    if sarrs:
        out.append(("short", edit(rng.choice(sarrs), lambda c, k: c[k].pop())))
        out.append(("long", edit(rng.choice(sarrs), lambda c, k: c[k].append(_copy.deepcopy(c[k][0])))))
        out.append(("shape_sarr", edit(rng.choice(sarrs), lambda c, k: c.__setitem__(k, {"zz": 1}))))
        out.append(("shape_elem", edit(rng.choice(sarrs), lambda c, k: c[k].__setitem__(rng.randrange(len(c[k])), 5))))
    structs = [p for k, p in S if k == "struct"]
    if structs:
        out.append(("shape_struct", edit(rng.choice(structs), lambda c, k: c.__setitem__(k, 5))))
    lf = [p for k, p in S if k in ("leaf", "str")]
    if lf:
        out.append(("shape_leaf", edit(rng.choice(lf), lambda c, k: c.__setitem__(k, {"zz": 1}))))
    return out


def canon_val(W: VC.World, x) -> tuple:
    if isinstance(x, (list, tuple)):
        return ("L", "list", [VC.canon(W, e) for e in x])
    return ("S", VC.canon(W, x))


def load_test_defs():
    p = C.REPO / "tests" / "test_msg_defs" / "test_defs.py"
    if not p.exists():
        return None
    name = "verif_test_defs"
    if name in sys.modules:
        return sys.modules[name]
    spec = importlib.util.spec_from_file_location(name, str(p))
    mod = importlib.util.module_from_spec(spec)
    sys.modules[name] = mod
    spec.loader.exec_module(mod)  # type: ignore[union-attr]
    return mod


def all_classes(W: VC.World) -> List[type]:
    """every class with fields, and the classes **without** fields (signals: EXIT, KILL, ACKNOWLEDGE, …): they have no bytes
    to round-trip, but header-plus-data JSON, the version check and copies concern them like any other class"""
    cls = list(W.load_core())
    import pyrtma.core_defs as cd
    mods = [cd]
    td = load_test_defs()
    if td is not None:
        mods.append(td)
        for obj in vars(td).values():
            if isinstance(obj, type) and issubclass(obj, W.MessageBase) and obj.__module__ == td.__name__ \
                    and ctypes.sizeof(obj) > 0:
                W.tid_for(obj)
                cls.append(obj)
    signals = []
    for mod in mods:
        for obj in vars(mod).values():
            if isinstance(obj, type) and issubclass(obj, W.MessageBase) and obj.__module__ == mod.__name__ \
                    and ctypes.sizeof(obj) == 0 and obj not in signals:
                W.tid_for(obj)
                signals.append(obj)
    return cls + signals + [W.M, W.N, W.O, W.structs[1]]


# ----------------------------------------------------------------------------------------------------------
# building a message through the validated field API
# ----------------------------------------------------------------------------------------------------------

def leaf_values(rng, fty, style: str) -> List[Any]:
    """a *sequence* of assignments for one leaf (the last one wins); real Python values, all in the domain"""
    t = fty[0]
    if t == "int" or t == "byte":
        k = fty[1] if t == "int" else "u8"
        lo, hi = VC.ilo(k), VC.ihi(k)
        return [{"lo": lo, "hi": hi, "zero": 0}.get(style, rng.choice([lo, hi, 0, -1 if lo < 0 else 1, rng.randint(lo, hi)]))]
    if t == "flt":
        big = VC.F32MAX if fty[1] == "f32" else 1.7976931348623157e308
        tiny = 2.0 ** -149 if fty[1] == "f32" else 5e-324
        pool = {"lo": -big, "hi": big, "zero": -0.0, "nan": float("nan")}
        if style in pool:
            return [pool[style]]
        return [rng.choice([0.0, -0.0, 0.1, -big, big, tiny, -tiny, float("nan"), 1.0, rng.uniform(-1e3, 1e3),
                            rng.uniform(-1, 1) * 10.0 ** rng.randint(-40, 38), 16777217, True])]
    if t == "char":
        return [rng.choice(["\0", "a", "\x7f", '"', "\\", "\n", "'", " "])]
    if t == "str":
        n = fty[1]

        def rs(ln):
            return "".join(rng.choice(['"', "\\", "\n", "\t", "\x01", "\x7f", "'", "a", "Z", "/", "{", "\x1f", " ", "u"])
                           if rng.random() < 0.3 else chr(rng.randrange(32, 127)) for _ in range(ln))
        if style == "lo":
            return [""]
        if style == "hi":
            return [rs(n - 1)]
        if style == "zero":
            return [rs(n - 1), ""]
        # decisive: a long value followed by a shorter one
        first = rs(rng.randrange(0, n))
        second = rs(rng.randrange(0, max(1, len(first)))) if rng.random() < 0.8 else "a\0b"[: n - 1]
        return [first, second]
    if t == "arr":
        _, cls, vk, n = fty
        if cls == "byteArray":
            pool = {"lo": bytes(n), "hi": b"\xff" * n}
            return [pool.get(style, rng.choice([bytes(n), b"\xff" * n, bytes(rng.randrange(256) for _ in range(n)),
                                                [rng.randrange(256) for _ in range(n)]]))]
        sub = ("int", vk) if vk in VC.IKS else ("flt", vk)
        return [[leaf_values(rng, sub, style if style in ("lo", "hi", "zero", "nan") else "rnd")[0] for _ in range(n)]]
    raise ValueError(fty)


def build(W: VC.World, cls, rng, style: str):
    m = cls()
    for path, name, fty, _ in leaves(W, cls):
        if style == "default":
            continue
        if style == "sparse" and rng.random() < 0.6:
            continue
        target, _ = VC.resolve(W, m, list(path))
        for v in leaf_values(rng, fty, style):
            if fty[0] == "arr" and rng.random() < 0.5:
                getattr(target, name)[:] = v
            else:
                setattr(target, name, v)
    return m


# ----------------------------------------------------------------------------------------------------------
# one case
# ----------------------------------------------------------------------------------------------------------

def _trip(fn) -> str:
    try:
        return VC.hx(bytes(fn()))
    except Exception as e:  # noqa: BLE001
        return "err:" + type(e).__name__


def heap_script(W: VC.World, cls, m, rng, is_msg: bool) -> List[str]:
    """a random script of copies / views / writes / Message.copy on real ctypes objects; `m` is restored at the end"""
    from pyrtma.message import Message, get_header_cls
    b0 = bytes(m)
    objs: List[Any] = []           # keeps every object alive: no buffer is ever freed and reused
    lines: List[str] = []

    def tid(c) -> int:
        return W.tid_for(c)

    def add(o):
        objs.append(o)
        return len(objs) - 1
    fresh = cls.from_buffer_copy(b0)                     # object 0: same class and bytes as m, storage of its own
    add(fresh)
    lines.append(f"HOP N {tid(cls)} {VC.hx(b0)}")
    hdrs: List[int] = []
    if is_msg:
        for tc in (False, True):
            hc = get_header_cls(tc)
            h = hc()
            h.msg_type, h.num_data_bytes, h.send_time, h.version = cls.type_id, ctypes.sizeof(cls), 0.5, cls.type_hash
            hdrs.append(add(h))
            lines.append(f"HOP N {tid(hc)} {VC.hx(bytes(h))}")
    small = W.structs[1]
    for _ in range(rng.randrange(6, 14)):
        k = rng.randrange(len(objs))
        o = objs[k]
        n = ctypes.sizeof(o)
        r = rng.random()
        if r < 0.3:
            add(type(o).copy(o))
            lines.append(f"HOP C {tid(type(o))} {n} {k}")
        elif r < 0.4:
            # a copy as another class: the first sizeof(class) bytes, or ValueError if the source is smaller
            other = rng.choice([small, W.N, cls])
            z = ctypes.sizeof(other)
            try:
                c = other.copy(o)
                add(c)
                lines.append(f"HOP C {tid(other)} {z} {k}")
            except ValueError:
                lines.append(f"HOP CE {tid(other)} {z} {k}")
        elif r < 0.55:
            subs = []
            for name, fty, off in W.fields(type(o)):
                if fty[0] == "strct":
                    subs.append((name, None, off, fty[2], W.structs[fty[1]]))
                elif fty[0] == "arr" and isinstance(fty[2], tuple):
                    i = rng.randrange(fty[3])
                    subs.append((name, i, off + i * fty[2][2], fty[2][2], W.structs[fty[2][1]]))
            if subs:
                name, i, off, sz, sc = rng.choice(subs)
                v = getattr(o, name) if i is None else getattr(o, name)[i]
                if ctypes.addressof(v) != ctypes.addressof(o) + off:
                    raise C.MachineryError("a nested struct is not where the field table says")
                add(v)
                lines.append(f"HOP V {k} {off} {sz} {tid(sc)}")
        elif n == 0:
            continue                                     # (an object without bytes: nothing to write into)
        elif r < 0.9 or not hdrs:
            ln = rng.randrange(1, min(n, 6) + 1)
            off = rng.randrange(0, n - ln + 1)
            data = bytes(rng.randrange(256) for _ in range(ln))
            ctypes.memmove(ctypes.addressof(o) + off, data, ln)
            lines.append(f"HOP W {k} {off} {VC.hx(data)}")
        else:
            hk = rng.choice(hdrs)
            dks = [i for i, x in enumerate(objs) if type(x) is cls]
            dk = rng.choice(dks)
            mc = Message.copy(Message(objs[hk], objs[dk]))
            hdrs.append(add(mc.header))
            add(mc.data)
            lines.append(f"HOP M {hk} {dk}")
    for i, o in enumerate(objs):
        lines.append(f"HRD {i} {tid(type(o))} {VC.hx(bytes(o))}")
    if bytes(m) != b0:
        raise C.MachineryError("the storage script touched the message under test")
    return lines


def is_registered_message(cls, m) -> bool:
    """a message class of the registry (header-plus-data JSON can be decoded back to it)"""
    from pyrtma.message import _msg_defs
    from pyrtma.message_data import MessageData
    return isinstance(m, MessageData) and _msg_defs.get(getattr(cls, "type_id", None)) is cls


def run_timecode_case(cid: str, cls, m, info: Dict[str, Any] = None) -> List[str]:
    """header-plus-data JSON and the dict round trip of the header when the header class is the time-code variant
    (a case of its own: the driver reports the first false clause of a case only)"""
    from pyrtma.message import Message, get_header_cls
    W = VC.world()
    _flag_force_on(W.V)
    lines = [f"SER {cid}", "B0 " + VC.hx(bytes(m))]
    try:
        hc = get_header_cls(True)
        h = hc()
        h.msg_type, h.num_data_bytes, h.src_mod_id, h.dest_mod_id = cls.type_id, ctypes.sizeof(cls), 11, 7
        h.msg_count, h.send_time, h.version = 3, 0.25, cls.type_hash
        h.utc_seconds, h.utc_fraction = 1700000000, 123456
        hb = bytes(h)
    except Exception as e:  # noqa: BLE001
        if info is not None:
            info["trouble"] = f"a time-code header for {cls.__name__} could not be built: {type(e).__name__}: {e}"[:300]
        return lines + ["COPY 0", "END"]

    def whole(minify):
        r = Message.from_json(Message(h, m).to_json(minify=minify))
        if type(r.header) is not hc or bytes(r.header) != hb:
            raise AssertionError("header differs")
        return r.data

    def hdr_dict():
        r = hc.from_dict(h.to_dict())
        if bytes(r) != hb:
            raise AssertionError("header differs")
        return m
    lines.append("RT message_json_timecode_header " + _trip(lambda: whole(False)))
    lines.append("RT message_json_minified_timecode_header " + _trip(lambda: whole(True)))
    lines.append("RT dict_of_timecode_header " + _trip(hdr_dict))
    lines += ["COPY 0", "END"]
    return lines


def run_case(cid: str, cls, m, info: Dict[str, Any] = None, extended: bool = False) -> List[str]:
    """`info["trouble"]`: the model-correspondence part of the block could not be produced because the code under test raised
    where the unchanged code never does (`to_dict()` / `to_json()` of a message built through the field API); the round trips
    (each one guarded on its own) are still observed and judged by the Spec.
    `extended`: the version probes also on the indented text and on texts whose "data" member is missing / {} / null."""
    W = VC.world()
    _flag_force_on(W.V)
    b0 = bytes(m)
    try:
        lines = [f"SER {cid}"] + _corr_part(W, cls, m)
    except Exception as e:  # noqa: BLE001
        if info is not None:
            info["trouble"] = f"to_dict / to_json of a {cls.__name__} built through the field API raised {type(e).__name__}: {e}"[:300]
        lines = [f"SER {cid}"]
    return lines + _trips_part(W, cls, m, b0, info, extended)


def _corr_part(W: VC.World, cls, m) -> List[str]:
    from pyrtma.message import Message, get_header_cls, _msg_defs
    from pyrtma.message_data import MessageData
    lines: List[str] = []
    d = m.to_dict()
    lines.append("DESC " + " ".join(desc_tokens(W, cls)))
    lines.append("DICT " + " ".join(val_tokens(W, d)))
    ftoks: Dict[int, str] = {}

    def collect(x):
        if isinstance(x, float):
            ftoks[VC.f2b(x)] = json.dumps(x)
        elif isinstance(x, dict):
            for v in x.values():
                collect(v)
        elif isinstance(x, (list, tuple)):
            for v in x:
                collect(v)
    collect(d)
    lines.append("JMIN " + VC.hx(m.to_json(minify=True).encode("ascii")))
    lines.append("JPRETTY " + VC.hx(m.to_json().encode("ascii")))
    if isinstance(m, MessageData) and _msg_defs.get(getattr(cls, "type_id", None)) is cls:
        hc0 = get_header_cls()
        h0 = hc0()
        h0.msg_type, h0.num_data_bytes, h0.src_mod_id, h0.dest_mod_id = cls.type_id, ctypes.sizeof(cls), 11, 7
        h0.msg_count, h0.send_time, h0.recv_time, h0.version = 3, 0.1, 1e22, cls.type_hash
        collect(h0.to_dict())
        lines.append("HDESC " + " ".join(desc_tokens(W, hc0)))
        lines.append("HB " + VC.hx(bytes(h0)))
        lines.append("HJMIN " + VC.hx(Message(h0, m).to_json(minify=True).encode("ascii")))
        lines.append("HJPRETTY " + VC.hx(Message(h0, m).to_json().encode("ascii")))
    for bits, tok in sorted(ftoks.items()):
        lines.append(f"FTOK {bits:016x} {tok}")
    for path, name, fty, off in leaves(W, cls):
        lines.append(f"LEAF {off} {VC.tok_fty(fty)} | {VC.tok_val(canon_val(W, dict_leaf(d, path, name)))}")
    return lines


def _trips_part(W: VC.World, cls, m, b0: bytes, info, extended: bool = False) -> List[str]:
    from pyrtma.message import Message, get_header_cls, _msg_defs
    from pyrtma.message_data import MessageData
    from pyrtma.exceptions import InvalidMessageDefinition
    lines: List[str] = []
    lines.append("B0 " + VC.hx(b0))
    bd = _trip(lambda: cls.from_dict(m.to_dict()))
    lines.append("BD " + ("err" if bd.startswith("err") else bd))
    import copy as _copy
    import random as _random
    import zlib as _zlib
    vr = _random.Random(_zlib.crc32(b0 + cls.__name__.encode()))
    try:
        probes = [("self", m.to_dict())]
        if len(b0) <= 2048:           # (big classes: the json.loads image is covered by the model's own fromJson on the text)
            try:
                probes.append(("json", json.loads(m.to_json(minify=True))))
            except Exception:  # noqa: BLE001
                pass
        variants = dict_variants(W, cls, m.to_dict(), vr)
        if len(b0) > 2048 and len(variants) > 2:
            # the model stores array elements one by one like ctypes does (quadratic in the field size): big classes get two
            # of the altered dictionaries per case, chosen at random, instead of all of them
            variants = vr.sample(variants, 2)
        probes += variants
        fd_lines = []
        for pname, v in probes:
            toks = " ".join(val_tokens(W, v))
            fd_lines.append(f"FD {pname} " + _trip(lambda v=v: cls.from_dict(_copy.deepcopy(v))).split(":")[0] + " " + toks)
        lines += fd_lines
    except Exception as e:  # noqa: BLE001  (a `to_dict()` that raises or returns something that is no dictionary of the class)
        if info is not None:
            info.setdefault("trouble", f"the from_dict probes of a {cls.__name__} could not be built: {type(e).__name__}: {e}"[:300])
    lines.append("RT bytes " + _trip(lambda: cls.from_buffer_copy(bytes(m))))
    lines.append("RT dict " + bd)
    lines.append("RT json " + _trip(lambda: cls.from_json(m.to_json())))
    lines.append("RT json_minified " + _trip(lambda: cls.from_json(m.to_json(minify=True))))
    lines.append("RT dict_via_json_text " + _trip(lambda: cls.from_dict(json.loads(json.dumps(m.to_dict(), default=list)))))
    is_msg = isinstance(m, MessageData) and _msg_defs.get(getattr(cls, "type_id", None)) is cls
    if is_msg:
        hc = get_header_cls()

        def hdr(version):
            h = hc()
            h.msg_type = cls.type_id
            h.num_data_bytes = ctypes.sizeof(cls)
            h.src_mod_id = 11
            h.send_time = 0.1
            h.version = version
            return h
        try:
            # (every later use builds its header the same way: if the validated API refuses these in-domain values, that is
            # reported once, as a correspondence difference, and the header-plus-data trips are left out)
            hdr(cls.type_hash), Message(hdr(0), m).to_json(minify=True)
        except Exception as e:  # noqa: BLE001
            is_msg = False
            if info is not None:
                info.setdefault("trouble", f"a header for {cls.__name__} could not be built / serialised: {type(e).__name__}: {e}"[:300])
    if is_msg:
        for ver_name, ver in (("hash", cls.type_hash), ("zero", 0)):
            msg = Message(hdr(ver), m)

            def both(msg=msg):
                r = Message.from_json(msg.to_json())
                if bytes(r.header) != bytes(msg.header):
                    raise AssertionError("header differs")
                return r.data
            lines.append(f"RT message_json_version_{ver_name} " + _trip(both))
        lines.append("RT message_copy " + _trip(lambda: Message.copy(Message(hdr(0), m)).data))
        # the copy of a whole Message keeps the header too: same class, same bytes (both header classes)
        for tc in (False, True):
            def whole(tc=tc):
                h = get_header_cls(tc)()
                h.msg_type, h.num_data_bytes, h.src_mod_id, h.dest_mod_id = cls.type_id, ctypes.sizeof(cls), 11, 7
                h.msg_count, h.send_time, h.version = 3, 0.25, cls.type_hash
                if tc:
                    h.utc_seconds, h.utc_fraction = 1700000000, 123456
                src = Message(h, m)
                hb = bytes(h)
                c = Message.copy(src)
                if type(c.header) is not type(h) or bytes(c.header) != hb:
                    raise AssertionError("header of the copy differs")
                if type(c.data) is not type(m):
                    raise AssertionError("data class of the copy differs")
                ctypes.memset(ctypes.addressof(c.header), 0xEE, ctypes.sizeof(c.header))
                if bytes(h) != hb:
                    raise AssertionError("copy shares the header")
                return c.data
            lines.append(f"RT message_copy_whole_{'timecode' if tc else 'plain'} " + _trip(whole))
        def outcome(txt: str) -> str:
            """R: refused as the property demands; A: a Message came back; F: any other exception"""
            try:
                Message.from_json(txt)
                return "A"
            except InvalidMessageDefinition:
                return "R"
            except Exception:  # noqa: BLE001
                return "F"

        def data_ok(doc) -> int:
            """the data segment by itself: `d["data"]` is there and `from_dict` takes it"""
            try:
                cls.from_dict(doc["data"])
                return 1
            except Exception:  # noqa: BLE001
                return 0

        for ver in sorted({0, cls.type_hash, cls.type_hash ^ 1, 1, 0xFFFFFFFF, (cls.type_hash + 1) & 0xFFFFFFFF}):
            mismatch = ver != 0 and ver != cls.type_hash
            txt = Message(hdr(ver), m).to_json(minify=True)
            oc = outcome(txt)
            # any other exception is neither a proper refusal nor a decode
            refused = 1 if oc == "R" else 0 if oc == "A" else (0 if mismatch else 1)
            lines.append(f"VER {ver} {cls.type_hash} {refused}")
            if not extended:
                continue
            # the same question for the indented text and for texts whose "data" member is missing / {} / null: a foreign
            # version is refused before the data segment is looked at, whatever the class (also one without fields)
            texts = [("pretty", 0, Message(hdr(ver), m).to_json())]
            base = json.loads(txt)
            for what, edit in (("no_data", lambda d: d.pop("data")), ("data_empty", lambda d: d.__setitem__("data", {})),
                               ("data_null", lambda d: d.__setitem__("data", None))):
                doc = json.loads(txt)
                edit(doc)
                if doc == base:
                    continue                   # (a class without fields: "data": {} is what to_json wrote)
                texts.append(("min_" + what, 1, json.dumps(doc, separators=(",", ":"))))
                texts.append(("pretty_" + what, 1, json.dumps(doc, indent=2)))
            for what, altered, t in texts:
                oc = outcome(t)
                refused = 1 if oc == "R" else 0 if oc == "A" else (0 if mismatch else 1)
                lines.append(f"VER {ver} {cls.type_hash} {refused} {what} {altered} {oc} {data_ok(json.loads(t))}")
    # copy shares no storage: flip every byte of the copy, then of the original
    shares = 0
    try:
        c = cls.copy(m)
        lines.append("RT copy " + VC.hx(bytes(c)))
        n = ctypes.sizeof(cls)
        if ctypes.addressof(c) == ctypes.addressof(m):
            shares = 1
        ctypes.memmove(ctypes.addressof(c), bytes(x ^ 0xFF for x in b0), n)
        if bytes(m) != b0:
            shares = 1
        inv = bytes(c)
        ctypes.memmove(ctypes.addressof(m), bytes(n), n)
        if bytes(c) != inv:
            shares = 1
        ctypes.memmove(ctypes.addressof(m), b0, n)
        if is_msg:
            mc = Message.copy(Message(hdr(0), m))
            ctypes.memmove(ctypes.addressof(mc.data), bytes(x ^ 0xFF for x in b0), n)
            ctypes.memset(ctypes.addressof(mc.header), 0xEE, ctypes.sizeof(mc.header))
            if bytes(m) != b0:
                shares = 1
    except Exception as e:  # noqa: BLE001
        lines.append("RT copy err:" + type(e).__name__)
    lines.append(f"COPY {shares}")
    try:
        lines += heap_script(W, cls, m, vr, is_msg)
    except C.MachineryError:
        raise
    except Exception as e:  # noqa: BLE001
        ctypes.memmove(ctypes.addressof(m), b0, len(b0))
        if info is not None:
            info.setdefault("trouble", f"the storage script on a {cls.__name__} raised {type(e).__name__}: {e}"[:300])
    lines.append("END")
    return lines
