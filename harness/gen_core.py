"""Tie A for C16: the shipped core definitions, both sides, as Lean data.

  * `Pyrtma/Gen/CoreYaml.lean` — core_defs.yaml + data_logger.yaml + quick_logger.yaml read by the YAML-subset reader
    below (NOT by pyrtma's parser, NOT by ruamel), flattened in the parser's import order, constant expressions
    evaluated by a small arithmetic evaluator, hashes computed here as sha256 of the definition text
    (`name:\n  id: N\n  fields:\n    f: type ...`), identifiers interned to numbers (`names`).
  * `Pyrtma/Gen/CorePy.lean` — what `core_defs.py` declares, read by `ast`: the abstract statements of M9
    (constants, aliases, ids, every class with id / hash / size / descriptors in order).

`Props/C16.lean` proves by kernel evaluation that the model's Python emission of the first equals the second.
"""
from __future__ import annotations

import ast
import hashlib
import re
from pathlib import Path
from typing import Any, Dict, List, Tuple


# ------------------------------------------------------------------------------------------------
# YAML subset: block mappings, block sequences of scalars, flow sequences of scalars, comments, plain/quoted scalars
# ------------------------------------------------------------------------------------------------
def _scalar(s: str) -> Any:
    s = s.strip()
    if s in ("null", "~", ""):
        return None
    if s in ("true", "True"):
        return True
    if s in ("false", "False"):
        return False
    if (s[0] == s[-1] == '"') or (s[0] == s[-1] == "'"):
        return s[1:-1]
    if s.startswith("[") and s.endswith("]"):
        inner = s[1:-1].strip()
        return [_scalar(x) for x in inner.split(",")] if inner else []
    if re.fullmatch(r"[-+]?0x[0-9a-fA-F]+", s):
        return int(s, 16)
    if re.fullmatch(r"[-+]?\d+", s):
        return int(s)
    if re.fullmatch(r"[-+]?(\d+\.\d*|\.\d+)([eE][-+]?\d+)?", s):
        return float(s)
    return s


def _strip_comment(line: str) -> str:
    out, q = [], None
    for i, ch in enumerate(line):
        if q:
            if ch == q:
                q = None
        elif ch in "\"'":
            q = ch
        elif ch == "#" and (i == 0 or line[i - 1].isspace()):
            break
        out.append(ch)
    return "".join(out).rstrip()


def read_yaml_subset(text: str) -> Any:
    lines: List[Tuple[int, str]] = []
    for raw in text.splitlines():
        s = _strip_comment(raw)
        if s.strip():
            lines.append((len(s) - len(s.lstrip(" ")), s.strip()))

    def block(i: int, indent: int) -> Tuple[Any, int]:
        if lines[i][1].startswith("- "):
            seq = []
            while i < len(lines) and lines[i][0] == indent and lines[i][1].startswith("- "):
                seq.append(_scalar(lines[i][1][2:]))
                i += 1
            return seq, i
        d: Dict[str, Any] = {}
        while i < len(lines) and lines[i][0] == indent:
            m = re.fullmatch(r"([^:]+):(?:\s+(.*))?", lines[i][1])
            if not m:
                raise ValueError(f"not in the YAML subset: {lines[i][1]!r}")
            k, v = m.group(1).strip(), m.group(2)
            i += 1
            if v is None or v == "":
                if i < len(lines) and lines[i][0] > indent:
                    d[k], i = block(i, lines[i][0])
                else:
                    d[k] = None
            else:
                d[k] = _scalar(v)
        if i < len(lines) and lines[i][0] > indent:
            raise ValueError("bad indentation")
        return d, i

    if not lines:
        return {}
    val, i = block(0, lines[0][0])
    if i != len(lines):
        raise ValueError("trailing content outside the YAML subset")
    return val


# ------------------------------------------------------------------------------------------------
# constant expressions
# ------------------------------------------------------------------------------------------------
def eval_expr(expr: Any, env: Dict[str, Any]) -> Any:
    if isinstance(expr, (int, float)):
        return expr
    node = ast.parse(str(expr), mode="eval").body

    def ev(n):
        if isinstance(n, ast.Constant) and isinstance(n.value, (int, float)):
            return n.value
        if isinstance(n, ast.Name):
            return env[n.id]
        if isinstance(n, ast.UnaryOp) and isinstance(n.op, (ast.USub, ast.UAdd)):
            return -ev(n.operand) if isinstance(n.op, ast.USub) else ev(n.operand)
        if isinstance(n, ast.BinOp):
            a, b = ev(n.left), ev(n.right)
            ops = {ast.Add: lambda: a + b, ast.Sub: lambda: a - b, ast.Mult: lambda: a * b,
                   ast.FloorDiv: lambda: a // b, ast.Div: lambda: a / b, ast.Mod: lambda: a % b,
                   ast.Pow: lambda: a ** b, ast.LShift: lambda: a << b, ast.RShift: lambda: a >> b}
            return ops[type(n.op)]()
        raise ValueError(f"expression outside the arithmetic subset: {expr!r}")

    return ev(node)


def to_filespec(data: Dict[str, Any], env: Dict[str, Any]) -> Dict[str, Any]:
    fs: Dict[str, Any] = {"imports": list(data.get("imports") or []), "constants": [], "strings": [], "aliases": [],
                          "hosts": [], "mods": [], "structs": [], "messages": [], "reserved": []}
    for n, e in (data.get("constants") or {}).items():
        v = eval_expr(e, env)
        env[n] = v
        fs["constants"].append([n, e, v])
    for n, s in (data.get("string_constants") or {}).items():
        fs["strings"].append([n, s])
    for n, t in (data.get("aliases") or {}).items():
        fs["aliases"].append([n, t])
    for n, v in (data.get("host_ids") or {}).items():
        fs["hosts"].append([n, v])
    for n, v in (data.get("module_ids") or {}).items():
        fs["mods"].append([n, v])

    def fields(fd):
        if isinstance(fd, str):
            return fd
        out = []
        for fn, spec in fd.items():
            m = re.fullmatch(r"\s*([\s\w]*?)\s*(?:\[(.*)\])?", spec)
            ty, ln = m.group(1).strip(), m.group(2)
            out.append([fn, ty, ln.strip() if ln is not None else None,
                        int(eval_expr(ln, env)) if ln is not None else None])
        return out

    for n, d in (data.get("struct_defs") or {}).items():
        fs["structs"].append([n, fields(d["fields"]), d["fields"]])
    for n, d in (data.get("message_defs") or {}).items():
        if n == "_RESERVED_":
            fs["reserved"] = list(d["id"])
        else:
            fs["messages"].append([n, d["id"], None if d["fields"] is None else fields(d["fields"]), d["fields"]])
    return fs


def raw_text(name: str, mid: Any, fields: Any, is_struct: bool) -> str:
    if fields is None:
        return f"{name}:\n  id: {mid}\n  fields: null"
    if isinstance(fields, str):
        f = f"    fields: {fields}"
    else:
        f = "\n".join(f"    {fn}: {ft}" for fn, ft in fields.items())
    return f"{name}:\n  fields:\n{f}" if is_struct else f"{name}:\n  id: {mid}\n  fields:\n{f}"


def core_files(repo: Path) -> Dict[str, Any]:
    d = repo / "src" / "pyrtma" / "core_defs"
    files: Dict[str, Any] = {}
    env: Dict[str, Any] = {}
    hashes: Dict[str, str] = {}

    def load(fn: str):
        if fn in files:
            return
        data = read_yaml_subset((d / fn).read_text())
        files[fn] = None  # reserve (cycle guard)
        for imp in data.get("imports") or []:
            load(imp)
        fs = to_filespec(data, env)
        for s in fs["structs"]:
            hashes["s:" + s[0]] = hashlib.sha256(raw_text(s[0], None, s[2], True).encode()).hexdigest()[:8]
            del s[2:]
        for m in fs["messages"]:
            hashes["m:" + m[0]] = hashlib.sha256(raw_text(m[0], m[1], m[3], False).encode()).hexdigest()[:8]
            del m[3:]
        files[fn] = fs

    load("core_defs.yaml")
    return {"files": files, "root": "core_defs.yaml", "auto_pad": True, "coredefs": False, "hashes": hashes}


# ------------------------------------------------------------------------------------------------
# Lean text
# ------------------------------------------------------------------------------------------------
def _lean_stmt(t: List[str]) -> str:
    def cls(c):
        return {"c": ".char", "s": ".sint", "u": ".uint", "f": ".flt"}[c]

    def sp(s):
        return {"a": ".alias", "s": ".sdf", "m": ".mdf"}[s]

    def opt(x, neg=False):
        if x == "-":
            return "none"
        return f"(some ({x}))" if neg else f"(some {x})"

    def ty(s):
        p = s.split(".")
        if p[0] == "n":
            return f"(.nat ⟨{p[1]}, {cls(p[2])}⟩)"
        if p[0] == "r":
            return f"(.ref {sp(p[1])} {p[2]})"
        return ".bad"

    k = t[0]
    if k == "const":
        return f".const {t[1]} (.int ({t[3]}))" if t[2] == "i" else f".const {t[1]} (.flt {t[3]})"
    if k == "str":
        return f".strConst {t[1]} {t[2]}"
    if k == "aliasN":
        return f".aliasN {t[1]} ⟨{t[2]}, {cls(t[3])}⟩"
    if k == "aliasR":
        return f".aliasR {t[1]} {sp(t[2])} {t[3]}"
    if k in ("host", "mod", "mt"):
        return f".{k} {t[1]} ({t[2]})"
    if k == "def":
        fs = []
        for f in t[6:]:
            n, tt, ln, fr = f.split(":")
            fs.append(f"⟨{n}, {ty(tt)}, {opt(ln)}, true⟩")
        return f".defn {sp(t[1])} {t[2]} {opt(t[3], True)} {opt(t[4])} {opt(t[5])} [{', '.join(fs)}]"
    return ".bad"


def _lean_item(t: List[str]) -> str:
    # t = tokens after "ITEM"
    core = "true" if t[0] == "1" else "false"
    k = t[1]

    def spec(r):
        if r[0] == "R":
            return f"(.reuse {r[1]})"
        fs = []
        for f in r[1:]:
            n, ty, ln = f.split(":")
            fs.append(f"({n}, {ty}, {'none' if ln == '-' else f'some ({ln})'})")
        return f"(.list [{', '.join(fs)}])"

    if k == "const":
        body = f".const {t[2]} (.int ({t[4]}))" if t[3] == "i" else f".const {t[2]} (.flt {t[4]})"
    elif k == "str":
        body = f".strConst {t[2]} {t[3]}"
    elif k == "alias":
        body = f".alias {t[2]} {t[3]}"
    elif k == "host":
        body = f".hostId {t[2]} ({t[3]})"
    elif k == "mod":
        body = f".moduleId {t[2]} ({t[3]})"
    elif k == "struct":
        body = f".struct {t[2]} {t[3]} {spec(t[4:])}"
    elif k == "message":
        body = f".message {t[2]} ({t[3]}) {t[4]} {spec(t[5:])}"
    elif k == "reserved":
        body = f".reserved {t[2]} ({t[3]}) {t[4]}"
    else:
        body = f".signal {t[2]} ({t[3]}) {t[4]}"
    return f"({core}, {body})"


def generate(repo: Path) -> Dict[str, str]:
    from . import emit_corr as E
    I = E.Interner()
    # native keys first so that their numbers do not depend on the core files
    from . import gen_tables
    tbl = gen_tables.read_tables(repo)
    for k, n, s, f in tbl["supported"]:
        I(k)
        I(n)
    I("char")
    I("RTMA_MSG_HEADER")
    cl = core_files(repo)
    items = E.item_lines({**cl, "coredefs": False}, I, cl["hashes"])
    py_text = (repo / "src" / "pyrtma" / "core_defs.py").read_text()
    stmts = E.parse_py(py_text, I)

    def ls(s: str) -> str:
        return '"' + s.replace("\\", "\\\\").replace('"', '\\"') + '"'

    y = ["import Pyrtma.Model.Emit",
         "/-! GENERATED by harness/gen_core.py from core_defs/*.yaml of the working tree — do not edit. -/",
         "namespace Pyrtma.Gen.CoreYaml", "open Pyrtma.Emit", "",
         "/-- interned identifiers: `names[i]` has number `i + 1` -/",
         "def names : List String := [", ",\n".join("  " + ls(n) for n in I.names), "]", "",
         "/-- the three shipped files flattened in parse order (core flag off: compiled as `build_core_defs.sh` does) -/",
         "def items : List (Bool × Item) := [",
         ",\n".join("  " + _lean_item(ln.split()[1:]) for ln in items), "]", "",
         "end Pyrtma.Gen.CoreYaml", ""]
    p = ["import Pyrtma.Model.Emit",
         "/-! GENERATED by harness/gen_core.py from src/pyrtma/core_defs.py of the working tree (read with `ast`) — do not edit. -/",
         "namespace Pyrtma.Gen.CorePy", "open Pyrtma.Emit", "",
         "def stmts : List Stmt := [", ",\n".join("  " + _lean_stmt(s.split()) for s in stmts), "]", "",
         "end Pyrtma.Gen.CorePy", ""]
    return {"Pyrtma/Gen/CoreYaml.lean": "\n".join(y), "Pyrtma/Gen/CorePy.lean": "\n".join(p)}
