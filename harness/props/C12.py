"""C12 — id and name conflicts are always detected, never invented (model M7, Model/Registry.lean)."""
from __future__ import annotations

import json
from typing import Any, Dict, List, Tuple

from .. import common as C
from .. import parser_corr as R

PROP = "C12"
DRIVERS = ["drv_registry"]
LEAN_TARGETS = ["Pyrtma.Props.C12"]
LEVEL = "proof"
MATCHERS: Dict[str, Any] = {}
TRUSTED = [
    "Lean 4.33.0 kernel", "axioms: propext, Classical.choice, Quot.sound only (audited by #print axioms)",
    "harness/parser_corr.py: writes the definition trees, runs the real Parser.parse, describes the file system it built "
    "(resolved file paths, directories, links) and the import texts as written; the MODEL resolves the texts (Model/ImportPath.lean)",
    "CPython's re / pathlib / os.path.realpath only as the reference the models of the reserved-entry pattern and of path "
    "resolution are compared with on every run",
    "ruamel.yaml as the reader of the shipped core_defs/*.yaml for the model side",
]


def _count(d: Dict[str, int], k: str):
    d[k] = d.get(k, 0) + 1


def _feed(res: C.Result, cases: List[Tuple[str, Dict[str, Any]]]):
    results = R.run_cases(cases)
    out, info = R.drive(results)
    ex = res.extra
    for cid, case, obs, blk in results:
        r = out.get(cid)
        if r is None:
            raise C.MachineryError(f"driver gave no answer for case {cid}")
        tag = case.get("tag", "?")
        kind = "ok" if obs["ok"] else obs["cls"]
        nfiles = len(case["files"])
        res.note_case(json.dumps(case, sort_keys=True), nontrivial=nfiles >= 2 or not obs["ok"])
        res.traces_validated += 1
        _count(ex.setdefault("outcomes", {}), kind)
        _count(ex.setdefault("generator", {}), tag.split(":")[0])
        _count(ex.setdefault("files_per_case", {}), str(nfiles))
        inf = info.get(cid, "")
        if "flaws=[" in inf:
            fl = inf.split("flaws=[", 1)[1].rstrip("]").split()
            _count(ex.setdefault("flaw_sets", {}), "+".join(fl) or "none")
            for x in fl:
                _count(ex.setdefault("flaws_hit", {}), x)
        if "model=" in inf:
            _count(ex.setdefault("model_branches", {}), inf.split("model=", 1)[1].split()[0])
        rec = {"case": case, "impl": obs if not obs["ok"] else {k: v for k, v in obs.items()}, "protocol_id": cid}
        for d in r["corr"]:
            res.corr_diffs.append({"name": "corr:M7/registry", "diff": d[:600], "case": rec})
        if obs.get("ids_mismatch") is not None:
            res.corr_diffs.append({"name": "corr:M7/message_ids_vs_message_defs", "diff": str(obs["ids_mismatch"])[:300], "case": rec})
        for v in r["props"].get(PROP, []):
            _count(ex.setdefault("verdicts", {}), v.split()[0])
            if v.startswith("fail"):
                cl = v[5:]
                res.failures.append(C.Failure(clause=cl, case=rec, detail=f"{cl}: real parser -> {kind}; {inf}",
                                              finding=C.match_finding(PROP, cl, rec, MATCHERS)))
        if nfiles >= 3 and tag not in ("free",):
            res.sample({"tag": tag, "files": [{k: v for k, v in f.items() if v and k not in ("order",)} for f in case["files"]],
                        "impl": kind, "verdicts": r["props"], "info": inf})


ALL_MODEL_ERRS = ["ok", "Pyrtma.Registry.Err.dupName", "Pyrtma.Registry.Err.msgId", "Pyrtma.Registry.Err.moduleId",
                  "Pyrtma.Registry.Err.hostId", "Pyrtma.Registry.Err.range", "Pyrtma.Registry.Err.yamlDup",
                  "Pyrtma.Registry.Err.badName", "Pyrtma.Registry.Err.notInt", "Pyrtma.Registry.Err.resSyntax",
                  "Pyrtma.Registry.Err.resNotList", "Pyrtma.Registry.Err.fileNotFound", "Pyrtma.Registry.Err.fileFormat",
                  "Pyrtma.Registry.Err.emptyFile"]


def build_cases(res: C.Result, deep: bool) -> List[Tuple[str, Dict[str, Any]]]:
    rng = C.rng_for(res.seed, "C12" + ("deep" if deep else ""))
    _, maxmsg = R.core_files()
    cases: List[Tuple[str, Dict[str, Any]]] = []
    cases += R.directed(maxmsg)
    if deep:
        cases += R.small_scope(2, maxmsg, rng, None)
        cases += [(f"t{c[0]}", c[1]) for c in _three(rng, maxmsg, 60)]
    else:
        cases += R.small_scope(2, maxmsg, rng, 120)
        cases += [(f"t{c[0]}", c[1]) for c in _three(rng, maxmsg, 3)]
    nrand = 30000 if deep else 4000
    for k in range(nrand):
        cases.append((f"r{k}", R.rand_case(rng, maxmsg, malformed=False)))
    for k in range(nrand // 3):
        cases.append((f"m{k}", R.rand_case(rng, maxmsg, malformed=True)))
    return cases


def _three(rng, maxmsg: int, per_shape: int):
    """all 512 import relations on three files: conflict-free, plus `per_shape` seeded planted conflicts each"""
    pairs = R.conflict_pairs(maxmsg)
    out = []
    k = 0
    for adj in R.graph_shapes(3):
        out.append((f"{k}", dict(R.base_case(adj, False), tag="free")))
        k += 1
        for _ in range(per_shape):
            p = rng.choice(pairs)
            i, j = rng.randrange(3), rng.randrange(3)
            out.append((f"{k}", dict(R.planted(adj, False, p, i, j), tag=p[0])))
            k += 1
    return out


def _reserved_syntax(res: C.Result, deep: bool):
    """the regular expression of handle_reserve: Model/ResRegex.lean (pattern + backtracking matcher), rangeSearch (the
    scan the theorems use) and expandEntry/regReserved against the real `re` and the real handle_reserve"""
    rng = C.rng_for(res.seed, "C12rx" + ("deep" if deep else ""))
    entries = R.rx_entries(rng, 20000 if deep else 3000)
    recs, lines, meta = R.rx_run(entries)
    ex = res.extra
    ex["reserved_syntax"] = meta
    if meta.get("pattern_missing"):
        res.corr_diffs.append({"name": "corr:M7/reserved-regex", "diff": "no re.<f>(<pattern literal>, e) call in Parser.handle_reserve",
                               "case": {"rx": True, "entries": ["10-12"]}})
    # a differently spelled pattern is not a difference by itself (informational, `reserved_syntax` above): what counts is
    # that the real `re.search(<pattern of the source>)` and the model agree on every generated entry
    out = C.parse_driver(C.run_driver("registry", lines))
    for r in recs + [{"cid": "cls_space", "entry": "\\s over every code point"}, {"cid": "cls_digit", "entry": "[0-9] over every code point"}]:
        o = out.get(r["cid"])
        if o is None:
            raise C.MachineryError(f"driver gave no answer for case {r['cid']}")
        res.traces_validated += 1
        if "impl" in r:
            kind = ("ok" if r["impl"]["ids"] else "ok-empty") if r["impl"]["ok"] else r["impl"]["cls"]
            _count(ex.setdefault("reserved_entry_outcomes", {}), kind)
            _count(ex.setdefault("reserved_entry_regex", {}), "not-a-string" if "re" not in r else ("no-match" if r["re"] is None else "match"))
            res.note_case(("rx", repr(r["entry"])), nontrivial=True)
            if r.get("ids_mismatch"):
                res.corr_diffs.append({"name": "corr:M7/message_ids_vs_message_defs", "diff": "reserved placeholders", "case": {"rx": True, "entries": [r["entry"]]}})
        for d in o["corr"]:
            res.corr_diffs.append({"name": "corr:M7/reserved-regex" if d.startswith(("diff regex", "diff class")) else "corr:M7/reserved-entry",
                                   "diff": d[:400], "case": {"rx": True, "entries": [r["entry"]], "impl": r.get("impl"), "re": r.get("re")}})
    for r in recs[:4]:
        res.sample({"reserved_entry": r["entry"], "re.search": r.get("re"), "handle_reserve": r["impl"]}, cap=10)


def run(res: C.Result, deep: bool):
    _reserved_syntax(res, deep)
    cases = build_cases(res, deep)
    # corpus first
    cdir = C.CORPUS / PROP
    corpus = []
    if cdir.exists():
        for p in sorted(cdir.glob("*.case")):
            corpus.append((f"c{len(corpus)}", json.loads(p.read_text())))
    res.rule = ("reserved-entry syntax: 3000 (thorough: 20000) single entries — every blank of \\s x both separators, leading zeros, junk "
                "around, near misses (other dashes, `To`, `t o`, non-ASCII digits, zero-width characters), random strings over the "
                "pattern's alphabet, ints, bools, floats, lists — through the real re.search with the pattern read from the source and the "
                "real handle_reserve, against the regex model, the scan and expandEntry; \\s and [0-9] over all 1,112,064 code points; "
                "corpus; directed (every range boundary x core on/off x file named core_defs.yaml or not; conflicts with the "
                "shipped core definitions; one file through twelve path spellings x four ways of naming the root; every kind of import that is not a definition file); every import relation (self imports, cycles, "
                "diamonds, repeats) on <= 2 files x every planted conflict pair (36 name-kind pairs, 49 message-id pairs over "
                "message/signal/reserved-int/reserved-range writings, module/host id and name, metadata) x every pair of "
                "placements%s; all 512 import relations on 3 files conflict-free + %d seeded planted conflicts each; seeded random "
                "trees of 1-6 files in sub-directories with 12 import spellings (rel, ./, abs, ../dir/, symlink, nosuch/../, //, abs with /../, //abs, file.yaml/../, trailing /., up to / and down), repeated imports, shuffled "
                "section order, comments, small or large name/id pools, reserved ranges in 9 writings; malformed stream (bad "
                "names, non-int ids, bad reserved entries, empty files, missing/dir/.txt imports, repeated keys, files named "
                "core_defs.yaml). A case is non-trivial when it has >= 2 files or is rejected; distinct by the case JSON."
                % (" (all)" if deep else " (120 seeded per relation)", 60 if deep else 3))
    allc = corpus + cases
    for i in range(0, len(allc), 12000):
        _feed(res, allc[i:i + 12000])
    hit = set(res.extra.get("model_branches", {}))
    res.extra["model_branches_missed"] = [b for b in ALL_MODEL_ERRS if b not in hit]
    res.extra["corpus_cases"] = len(corpus)


def replay(body: Dict[str, Any]) -> int:
    rec = body.get("case") or (body.get("first_corr_diff") or {}).get("case")
    if isinstance(rec, dict) and rec.get("rx"):
        recs, lines, meta = R.rx_run(rec["entries"])
        out = C.run_driver("registry", lines)
        print(json.dumps(meta)); print(json.dumps(recs, default=repr)); print("\n".join(out))
        return 1 if any("CORR diff" in o for o in out) else 0
    case = rec.get("case") if isinstance(rec, dict) and "case" in rec else rec
    if not case or "files" not in case:
        print("nothing replayable in this file")
        return 2
    obs = R.run_real(case)
    blk = R.protocol("replay", case, obs)
    out = C.run_driver("registry", blk)
    print("implementation:", json.dumps(obs))
    print("\n".join(l for l in out))
    return 1 if any(" fail" in o or "CORR diff" in o for o in out) else 0
