"""C13 — the version hash identifies the definition text, everywhere the same (model M8, Model/HashText.lean)."""
from __future__ import annotations

import hashlib
import json
from typing import Any, Dict, List, Optional, Tuple

from .. import common as C
from .. import hash_corr as H

PROP = "C13"
DRIVERS = ["drv_hashtext"]
LEAN_TARGETS = ["Pyrtma.Props.C13"]
LEVEL = "proof"
TRUSTED = [
    "Lean 4.33.0 kernel", "axioms: propext, Classical.choice, Quot.sound only (audited by #print axioms)",
    "hashlib.sha256 only as the reference the model's own SHA-256 (Model/Sha256.lean) is compared with on every run "
    "(NIST vectors, every length 0..199, random bytes and texts, every generated definition text); a 32-bit prefix can collide",
    "harness/hash_corr.py: tree writer, identity resolver, variant generators, regex readers of the .h/.js/.m outputs",
    "ruamel.yaml only as the reference Model/YamlDef.lean: loadDef is compared with (the physical lines of every generated "
    "definition, decorated at random, loaded by both)",
]


def _f1(clause: str, case: Any) -> bool:
    """C13-F1: the target is declared with the re-use form `fields: NAME` and the two compared trees differ only in
    what the re-used definition provides (its fields were edited -> hash unchanged) or in how the same field list is
    supplied (spelled out / identical copy under another name -> hash changed)."""
    if not (isinstance(case, dict) and case.get("uses_ref")):
        return False
    tag = case.get("tag", "")
    if clause == "edit_does_not_change_hash":
        return tag.startswith(("edit:reused_", "directed:reused_", "directed:reuse_vs_field_named_fields"))
    if clause == "same_definition_different_hash":
        return tag in ("same:reuse_spelled_out", "same:reuse_identical_copy")
    return False


MATCHERS = {"C13-F1": _f1}


def _open_findings() -> Dict[str, Dict[str, Any]]:
    """known_findings.json decides; the slice's own fragment is used until the coordinator has merged it"""
    out: Dict[str, Dict[str, Any]] = {}
    frag = C.VERIF / "findings_fragments" / "C13.json"
    if frag.exists():
        for e in json.loads(frag.read_text()).get("findings", []):
            out[e["id"]] = e
    for e in C.known_findings(PROP):
        out[e["id"]] = e
    return {k: v for k, v in out.items() if v.get("status") == "open"}


def _match(clause: str, case: Any) -> Optional[str]:
    for fid in _open_findings():
        if fid in MATCHERS and MATCHERS[fid](clause, case):
            return fid
    return None


def _corr_name(d: str) -> str:
    if d.startswith("diff digest"):
        return "corr:M8/sha256-of-text"
    if d.startswith("diff sha256"):
        return "corr:M8/sha256"
    if d.startswith("diff loader"):
        return "corr:M8/yaml-loader"
    if d.startswith(("diff hash32", "diff outputs")):
        return "corr:M8/hash32-in-outputs"
    return "corr:M8/rawtext"


def _is_parser_error(cls_name: str) -> bool:
    """is the named exception class one of pyrtma's own ParserError family (a reasoned rejection), or "generator"?"""
    if cls_name == "generator":
        return True
    from pyrtma import parser as P
    c = getattr(P, cls_name, None)
    return isinstance(c, type) and issubclass(c, P.ParserError)


def _count(d: Dict[str, int], k: str):
    d[k] = d.get(k, 0) + 1


def _jobs(res: C.Result, deep: bool) -> List[Tuple]:
    rng = C.rng_for(res.seed, "C13" + ("deep" if deep else ""))
    jobs: List[Tuple] = []
    for k, (tag, a, b, tname) in enumerate(H.directed_pairs()):
        tb = tname if any(d["name"] == tname for f in b["files"] for d in f["defs"]) else "TARGE"
        jobs.append((f"d{k}", "directed:" + tag, a, b, "TARGET", tb))
    ntrees = 1500 if deep else 150
    n = 0
    for _ in range(ntrees):
        tree, target = H.base_tree(rng)
        for tag, v in H.relocations(rng, tree, target) + H.ref_relocations(rng, tree, target):
            jobs.append((f"p{n}", "same:" + tag, tree, v, target, target)); n += 1
        for tag, v in H.edits(rng, tree, target):
            tb = {"rename": "TARGET_RENAMED", "rename_case": "Target"}.get(tag, target)
            jobs.append((f"p{n}", "edit:" + tag, tree, v, target, tb)); n += 1
    return jobs


def _feed(res: C.Result, recs: List[Dict[str, Any]]):
    ex = res.extra
    lines: List[str] = []
    for r in recs:
        if "rejected" in r:
            cls = r["rejected"].get("cls", "?")
            _count(ex.setdefault("rejected_by_parser", {}), cls)
            res.sample({"rejected": r["tag"], "why": r["rejected"]}, cap=3)
            if not _is_parser_error(cls):
                # the generated trees are well-formed: an exception that is not a ParserError means the definition got no
                # hash at all — the model has a text for it, the implementation nothing (never a silent skip)
                res.corr_diffs.append({"name": "corr:M8/parser-crashes-on-generated-tree",
                                       "diff": f"{r['tag']}: {cls}: {r['rejected'].get('msg', '')}"[:300],
                                       "case": {"tag": r["tag"], "base": r["base"], "variant": r["variant"],
                                                "target_a": r["target_a"], "target_b": r["target_b"], "uses_ref": False}})
            continue
        lines += r["lines"] + r["extra_lines"]
    raw = C.run_driver("hashtext", lines)
    out = C.parse_driver(raw)
    texts = {}
    for ln in raw:
        t = ln.split(" ")
        if len(t) == 3 and t[1] == "TEXT":
            texts[t[0]] = t[2]
    for r in recs:
        if "rejected" in r:
            continue
        cid = r["cid"]
        o = out.get(cid)
        if o is None:
            raise C.MachineryError(f"driver gave no answer for case {cid}")
        kind = r["tag"].split(":")[0]
        res.note_case((r["tag"], json.dumps(r["variant"], sort_keys=True)), nontrivial=True)
        res.traces_validated += 1
        _count(ex.setdefault("pairs", {}), r["tag"].split(":")[0] + ":" + r["tag"].split(":")[1].rstrip("0123456789"))
        _count(ex.setdefault("target_form", {}), "reuse" if r["uses_ref"] else ("signal" if r["ident_b"]["signal"] else "fields"))
        case = {"tag": r["tag"], "base": r["base"], "variant": r["variant"], "target_a": r["target_a"],
                "target_b": r["target_b"], "uses_ref": r["uses_ref"]}
        for d in o["corr"]:
            res.corr_diffs.append({"name": _corr_name(d), "diff": d[:500], "case": case})
        _count(ex.setdefault("digests_computed_in_model", {}), "n")
        # the model's text, hashed here, must be the parser's hash
        checks = [(cid, r["hash_b"])] + list(r.get("extra_hash", {}).items())
        for c2, h in checks:
            tx = texts.get(c2)
            if tx is None or tx == "crash":
                res.corr_diffs.append({"name": "corr:M8/hash", "diff": f"{c2}: model produced no text", "case": case})
            elif hashlib.sha256(H.unhex(tx).encode()).hexdigest() != h:
                res.corr_diffs.append({"name": "corr:M8/hash", "diff": f"{c2}: sha256(model text) != parser hash {h}", "case": case})
            _count(ex.setdefault("texts_hashed", {}), "n")
        for c2 in r.get("extra_hash", {}):
            for d in out.get(c2, {}).get("corr", []):
                res.corr_diffs.append({"name": _corr_name(d), "diff": d[:500], "case": case})
            _count(ex.setdefault("digests_computed_in_model", {}), "n")
        for v in o["props"].get(PROP, []):
            _count(ex.setdefault("verdicts", {}), v.split()[0] + (":" + kind if v.startswith("ok") else ""))
            if v.startswith("fail"):
                cl = v[5:]
                res.failures.append(C.Failure(
                    clause=cl, case=case,
                    detail=f"{cl}: {r['tag']}; identity {'unchanged' if r['ident_a'] == r['ident_b'] else 'changed'}; "
                           f"hash {r['hash_a'][:8]} -> {r['hash_b'][:8]}",
                    finding=_match(cl, case)))
        if len(res.samples) < 6 and kind == "edit":
            res.sample({"tag": r["tag"], "identity_before": r["ident_a"], "identity_after": r["ident_b"],
                        "hash_before": r["hash_a"][:8], "hash_after": r["hash_b"][:8], "verdict": o["props"]})


def _outputs(res: C.Result, deep: bool):
    rng = C.rng_for(res.seed, "C13out" + ("deep" if deep else ""))
    ex = res.extra
    n = 12 if deep else 3
    langs = {"py": 0, "c": 0, "js": 0, "m": 0, "header.version": 0}
    spec_fail: List[Tuple[str, Any, str, Any]] = []
    for k in range(n):
        tree, target = H.base_tree(rng)
        # names at and around the column widths the back ends pad to (a value glued to an over-long name is lost)
        used_ids = {d["id"] for f in tree["files"] for d in f["defs"] if d["kind"] == "m"}
        for j, ln in enumerate((31, 32, 45, 46, 47, 48, 49, 63, 64, 80)):
            mid = next(i for i in range(7900 + 10 * k + j, 9999) if i not in used_ids)
            used_ids.add(mid)
            nm = ("LONG_NAME_%02d_" % ln + "X" * ln)[:ln]
            tree["files"][tree["root"]]["defs"].append(
                {"kind": "m", "name": nm, "id": mid, "fields": None if j % 2 else [["v", "int32"]]})
        # names that contain the back ends' own table prefixes (at the start and in the middle, both cases), each next to
        # the definition that carries the name with the prefix taken out: every message must have its OWN entry in every
        # output, with its own hash — not another definition's, not filed under a shortened name
        j = 0
        # quick tier: `hash_` and `MT_` in every tree, the other prefixes spread over the trees; thorough: all in every tree
        for pi, pre in enumerate(H.TABLE_PREFIXES):
            if not deep and pi >= 2 and (pi - 2) % n != k % n:
                continue
            for nm, other in ((f"{pre}ZQ{k}x{pi}A", f"ZQ{k}x{pi}A"), (f"Re{pre}ZR{k}x{pi}", f"ReZR{k}x{pi}")):
                for name in ((other, nm) if (k + j) % 2 == 0 else (nm, other)):      # either definition order
                    mid = next(i for i in range(8300 + 40 * k + j, 9999) if i not in used_ids)
                    used_ids.add(mid)
                    tree["files"][tree["root"]]["defs"].append(
                        {"kind": "m", "name": name, "id": mid, "fields": None if j % 3 == 0 else [["v", "int32"]]})
                    j += 1
        names = [d["name"] for f in tree["files"] for d in f["defs"] if d["kind"] == "m"]
        try:
            got = H.outputs_check(tree, names)
        except Exception as e:  # the tree may be rejected with the core definitions switched on (name clash): skip
            _count(ex.setdefault("outputs_skipped", {}), type(e).__name__)
            if not _is_parser_error(type(e).__name__):
                res.corr_diffs.append({"name": "corr:M8/compile-crashes-on-generated-tree",
                                       "diff": f"{type(e).__name__}: {e}"[:300], "case": {"tag": "outputs", "tree": tree, "message": names[0], "observed": {}}})
            continue
        if "_sender_error" in got:
            res.corr_diffs.append({"name": "corr:C13/sender-probe", "diff": got["_sender_error"], "case": {"tree": tree}})
        drv = _outputs_driver(tree, names, got, f"o{k}")
        for nme in names:
            g = got[nme]
            case = {"tag": "outputs", "tree": tree, "message": nme, "observed": g}
            o = drv.get(nme)
            if o is None:
                raise C.MachineryError(f"driver gave no answer for the outputs of {nme}")
            for d in o["corr"]:
                res.corr_diffs.append({"name": _corr_name(d), "diff": d[:500], "case": case})
            for v in o["props"].get(PROP, []):
                _count(ex.setdefault("verdicts", {}), v.split()[0] + (":outputs" if v.startswith("ok") else ""))
                if v.startswith("fail") and "_sender_error" not in got:
                    spec_fail.append((v[5:], case, nme, g))
            for lang in ("py", "c", "js", "m"):
                if g.get(lang) is None:
                    if "_sender_error" in got and lang == "py":
                        continue
                    res.failures.append(C.Failure(clause=f"hash_missing_in_{lang}_output", case=case,
                                                  detail=f"no hash constant for {nme} in the {lang} output"))
                elif g[lang] != g["parser"]:
                    res.failures.append(C.Failure(clause=f"hash_differs_in_{lang}_output", case=case,
                                                  detail=f"{nme}: parser {g['parser']:#010x}, {lang} output {g[lang]:#010x}"))
                else:
                    langs[lang] += 1
            for other, v, oh in g.get("signal_versions", []):
                if v not in (0, oh):
                    res.failures.append(C.Failure(clause="signal_version_is_another_definitions_hash", case=case,
                                                  detail=f"send_signal({other}) right after send_message({nme}) stamped version "
                                                         f"{v if isinstance(v, str) else hex(v)}; {other}'s hash is {oh:#010x}"))
                else:
                    langs["header.version"] += 1
            for v in g.get("versions", []):
                if v != g["parser"]:
                    res.failures.append(C.Failure(clause="header_version_is_not_the_hash", case=case,
                                                  detail=f"{nme}: send_message stamped {v:#010x}, hash is {g['parser']:#010x}"))
                else:
                    langs["header.version"] += 1
            res.note_case(("out", json.dumps(tree, sort_keys=True), nme))
    # the Spec's verdict (driver) and the direct comparison above must name the same failures
    have = {(f.clause, json.dumps(f.case, sort_keys=True)) for f in res.failures}
    for cl, case, nme, g in spec_fail:
        if (cl, json.dumps(case, sort_keys=True)) not in have:
            res.failures.append(C.Failure(clause=cl, case=case, detail=f"{nme}: {cl} (Spec judgeOutputs on {g})"))
    ex["outputs_agreeing"] = langs
    ex["outputs_trees"] = n
    if sum(ex.get("outputs_skipped", {}).values()) >= n and not res.corr_diffs:
        raise C.MachineryError(f"the outputs check ran on none of its {n} trees: {ex.get('outputs_skipped')}")


def _outputs_driver(tree, names, got, prefix: str) -> Dict[str, Dict[str, Any]]:
    """the model's hash32 of every message against the parser's, the four outputs' and the sender's values"""
    lines: List[str] = []
    ids: Dict[str, str] = {}
    for i, nme in enumerate(names):
        g = got[nme]
        fi, di = H._find(tree, nme)
        cid = f"{prefix}_{i}"
        ids[cid] = nme

        def hx(v):
            return "-" if v is None else "%x" % v
        vs = ",".join("%x" % v for v in g.get("versions", [])) or "-"
        lines += [f"CASE {cid}", H.def_tok(tree["files"][fi]["defs"][di]),
                  f"OUTS {H._hex(g['raw'])} {g['full']} {hx(g.get('py'))} {hx(g.get('c'))} {hx(g.get('js'))} {hx(g.get('m'))} {vs}", "END"]
    out = C.parse_driver(C.run_driver("hashtext", lines))
    return {ids[c]: o for c, o in out.items() if c in ids}


def _sha(res: C.Result, deep: bool):
    """Model/Sha256.lean against hashlib (and hashlib against the published digests)"""
    rng = C.rng_for(res.seed, "C13sha" + ("deep" if deep else ""))
    cases = H.sha_cases(rng, 6000 if deep else 1500, big=deep)
    lines, meta = H.sha_lines(cases)
    out = C.parse_driver(C.run_driver("hashtext", lines))
    ex = res.extra
    for cid, m in meta.items():
        o = out.get(cid)
        if o is None:
            raise C.MachineryError(f"driver gave no answer for case {cid}")
        _count(ex.setdefault("sha256_vectors", {}), m["tag"])
        res.traces_validated += 1
        for d in o["corr"]:
            res.corr_diffs.append({"name": _corr_name(d), "diff": d[:300], "case": m})


def run(res: C.Result, deep: bool):
    jobs = _jobs(res, deep)
    cdir = C.CORPUS / PROP
    corpus = []
    if cdir.exists():
        for p in sorted(cdir.glob("*.case")):
            c = json.loads(p.read_text())
            corpus.append((f"c{len(corpus)}", c["tag"], c["base"], c["variant"], c["target_a"], c["target_b"]))
    res.extra["corpus_cases"] = len(corpus)
    res.rule = ("corpus; directed pairs; %d seeded definition trees (1-3 files, structs, messages, signals, re-use forms, type "
                "texts with arrays / blanks / struct references) each with every relocation (same tree again, other "
                "directories, comments and blank lines 3 fixed ways and twice decorated at random (comment lines at any indentation, trailing comments with ':' '#' quotes, blank lines, trailing blanks, indentation widths, quote styles, hex ids, key order), own file on top, unrelated definitions added, other "
                "messages removed, hex id, key order, quoted type texts, imports reordered and repeated; re-use spelled out / "
                "pointed at an identical copy) and every single edit (rename x2, id x2, signal<->message, per field: rename, "
                "retype, array-ness, type-text spelling, delete; insert at every position, adjacent swaps, names swapped, "
                "types swapped; for the re-use form the same edits applied to the re-used definition); each variant parsed by "
                "the real Parser; model text compared with MDF.raw and sha256(model text) with MDF.hash for every definition "
                "of every variant; %d trees compiled to Python/C/JS/MATLAB and sent through a real Client" %
                (1500 if deep else 150, 12 if deep else 3))
    _sha(res, deep)
    recs = H.run_pairs(corpus + jobs)
    for i in range(0, len(recs), 5000):
        _feed(res, recs[i:i + 5000])
    _outputs(res, deep)


def replay(body: Dict[str, Any]) -> int:
    case = body.get("case") or (body.get("first_corr_diff") or {}).get("case")
    if not case:
        print("nothing replayable in this file"); return 2
    if case.get("tag") == "outputs":
        got = H.outputs_check(case["tree"], [case["message"]])
        print(json.dumps(got, indent=1))
        g = got[case["message"]]
        bad = any(g.get(l) != g["parser"] for l in ("py", "c", "js", "m")) or any(v != g["parser"] for v in g.get("versions", []))
        return 1 if bad else 0
    r = H.run_pair(("replay", case["tag"], case["base"], case["variant"], case["target_a"], case["target_b"]))
    if "rejected" in r:
        print("the parser rejects the tree now:", r["rejected"]); return 1
    out = C.run_driver("hashtext", r["lines"])
    print("identity before:", json.dumps(r["ident_a"])); print("identity after: ", json.dumps(r["ident_b"]))
    print("hash before:", r["hash_a"]); print("hash after: ", r["hash_b"])
    print("\n".join(o for o in out if " TEXT " not in o))
    tx = [o.split(" ")[2] for o in out if " TEXT " in o]
    hash_ok = bool(tx) and tx[0] != "crash" and hashlib.sha256(H.unhex(tx[0]).encode()).hexdigest() == r["hash_b"]
    print("sha256(model text) == parser hash:", hash_ok)
    return 1 if any(" fail" in o or "CORR diff" in o for o in out) or not hash_ok else 0
