"""C17 — the data logger loses, duplicates and reorders nothing (model M10)."""
from __future__ import annotations

import itertools
import multiprocessing as mp
import os
import shutil
import tempfile
from typing import Any, Dict, Iterable, List, Sequence, Tuple

from .. import common as C
from .. import datalog_corr as D
from .. import datalog_fine as G

PROP = "C17"
DRIVERS = ["drv_datalog"]
LEAN_TARGETS = ["Pyrtma.Props.C17"]
LEVEL = "proof"


def _f3(clause: str, cc: Any) -> bool:
    """C17-F3: an injected file-system failure killed the writer thread inside a write cycle (write_to_disk set,
    write_finished clear) and stop() then waits for write_finished for ever."""
    return (clause.startswith("stop_hangs_writer_dead") and isinstance(cc, dict) and cc.get("kind") == "G"
            and bool(cc.get("case", {}).get("faults")) and cc.get("obs", {}).get("status") == "hang"
            and cc.get("obs", {}).get("wdead") == 1 and cc.get("obs", {}).get("fired") == 1)


MATCHERS: Dict[str, Any] = {"C17-F3": _f3}


def _finding(clause: str, cc: Any):
    """open findings: known_findings.json, or this slice's fragment when it has not been merged yet"""
    fid = C.match_finding(PROP, clause, cc, MATCHERS)
    if fid:
        return fid
    import json
    frag = C.VERIF / "findings_fragments" / "C17.json"
    if frag.exists():
        for e in json.loads(frag.read_text()).get("findings", []):
            if e.get("status") == "open" and e["id"] in MATCHERS and MATCHERS[e["id"]](clause, cc):
                return e["id"]
    return None
TRUSTED = [
    "Lean 4.33.0 kernel; axioms propext, Classical.choice, Quot.sound only (audited by #print axioms)",
    "harness/datalog_corr.py: gated-thread controller, shims for threading/time, file decoders, generators",
    "harness/datalog_fine.py: the gated DataSet subclass / list subclass / file proxies (every access to an object both "
    "threads can reach is a scheduling point; code between two such accesses touches thread-local data only, which the "
    "harness audits per run: an attribute set by one thread and touched by the other must be in the gated set)",
    "CPython file objects (seek/write/close), tempfile.NamedTemporaryFile, json.dumps/loads, ctypes from_buffer_copy",
]

ALL_LABELS = ["R:begin", "R:td.is_set", "R:stage", "R:fin.clear", "R:td.set", "R:fin.wait", "R:td.clear",
              "W:td.wait", "W:write", "W:fin.set", "W:td.clear"]


# ------------------------------------------------------------------------------------------------
# generators
# ------------------------------------------------------------------------------------------------

def number_ops(ops: List[List[Any]]) -> List[List[Any]]:
    """give every update its serial id; append the closing stop"""
    out, k = [], 0
    for op in ops:
        if op[0] == "u":
            k += 1
            out.append(["u", op[1], op[2], k])
        else:
            out.append([op[0], op[1]])
    out.append(["s", 0])
    return out


def r_steps(case) -> int:
    n = len(case["ds"])
    return sum((4 + n) for _ in case["ops"]) + 6 + n


def block_schedules(nr: int, nw: int, blocks: int, first: str) -> Iterable[str]:
    """all schedules made of at most `blocks` alternating runs, run lengths 1..nr for R and 1..nw for W
    (the round-robin tail finishes the run)"""
    def rec(k: int, who: str, acc: str):
        yield acc
        if k == 0:
            return
        for n in range(1, (nr if who == "R" else nw) + 1):
            yield from rec(k - 1, "W" if who == "R" else "R", acc + who * n)
    yield from rec(blocks, first, "")


SMALL_PROGRAMS: List[Tuple[List[Dict[str, Any]], List[List[Any]]]] = [
    # (data sets, operations)                                            what it is about
    ([{"fmt": "raw", "types": "A", "interval": 0}],
     [["u", 16, 0], ["u", 16, 1]]),                                      # two flushes, then stop (C17-F1 shape)
    ([{"fmt": "quicklogger", "types": "A", "interval": 0}],
     [["u", 16, 0], ["u", 0, 2], ["t", 16]]),                            # flush, busy-skip, tick flush
    ([{"fmt": "json", "types": "A", "interval": 30}, {"fmt": "raw", "types": [1], "interval": 0}],
     [["u", 31, 1], ["u", 16, 0]]),                                      # sub-division + two data sets
    ([{"fmt": "quicklogger", "types": [0, 2], "interval": 0}],
     [["u", 16, 0], ["p", 1], ["u", 20, 0], ["r", 0], ["u", 16, 2]]),    # pause / resume around a deadline
    ([{"fmt": "raw", "types": "A", "interval": 0}],
     [["u", 1, 0]]),                                                     # single-flush run: only stop writes
]


def exhaustive_cases(deep: bool) -> Iterable[Dict[str, Any]]:
    blocks = 6 if deep else 5
    for dss, ops in SMALL_PROGRAMS:
        base = {"ds": dss, "ops": number_ops(ops)}
        nr = min(r_steps(base), 6)
        nw = 3 + len(dss)
        for first in "RW":
            for s in block_schedules(nr, nw, blocks, first):
                yield dict(base, sched=s)


def directed_cases() -> Iterable[Dict[str, Any]]:
    """boundary shapes: no data set, a set that selects nothing, no operation at all, only ticks, pause at the
    start, resume without pause, pause over a deadline, deadline hit exactly (elapsed == next_write is not a flush)"""
    ds_all = [{"fmt": "raw", "types": "A", "interval": 0}]
    shapes = [
        ([], [["u", 16, 0], ["u", 16, 1]]),
        ([{"fmt": "quicklogger", "types": [], "interval": 0}], [["u", 16, 0], ["u", 16, 1]]),
        (ds_all, []),
        (ds_all, [["t", 16], ["t", 16], ["t", 1]]),
        (ds_all, [["p", 0], ["u", 20, 0], ["u", 20, 1], ["r", 0], ["u", 0, 2]]),
        (ds_all, [["r", 5], ["u", 11, 0], ["r", 3], ["u", 14, 1], ["u", 2, 0]]),
        (ds_all, [["u", 15, 0], ["u", 0, 1], ["u", 1, 2], ["u", 15, 0], ["u", 1, 0]]),
        ([{"fmt": "json", "types": "A", "interval": 1}], [["u", 30, 0], ["u", 1, 1], ["u", 30, 2], ["u", 1, 0]]),
        ([{"fmt": "msg_header", "types": "A", "interval": 700}], [["u", 599, 0], ["u", 2, 1], ["u", 1, 2]]),
        ([{"fmt": f, "types": "A", "interval": 30} for f in D.FORMATS],
         [["u", 16, 0], ["u", 16, 1], ["u", 0, 2], ["t", 16], ["u", 16, 1]]),
        ([{"fmt": "quicklogger", "types": [2], "interval": 0}], [["u", 16, 2], ["u", 16, 2], ["u", 1, 2]]),
    ]
    scheds = ["", "R" * 200, "W" * 7, "RW" * 60, "RRW" * 40, "RWW" * 40, "RRRRRWWW" * 12,
              "RRRRRWWWRRRRRWWRRRRRR", "RRRRRRWWWWRRRRRRWWWRRRRRRR"]
    for dss, ops in shapes:
        for s in scheds:
            yield {"ds": dss, "ops": number_ops(ops), "sched": s}


# operations handed to the collection before start() (ids from 901: never equal to an id of the session)
PRE_SHAPES: List[List[List[Any]]] = [
    [["u", 1, 0, 901]],
    [["u", 20, 0, 901], ["u", 20, 1, 902], ["t", 20], ["u", 0, 2, 903]],
    [["p", 0], ["u", 1, 2, 901]],                 # paused before start(): the session itself is not paused
    [["r", 3], ["u", 1, 1, 901], ["p", 2], ["t", 40]],
]


def low_type_cases() -> Iterable[Dict[str, Any]]:
    """message types 0 (EXIT) and 1 (KILL) next to the zero padding of the configured type list: a data set with a
    list never records EXIT, records KILL exactly when 1 is in its list; a data set selecting everything records both
    (type index 3 = EXIT, 4 = KILL)"""
    dss = [{"fmt": "raw", "types": [0], "interval": 0}, {"fmt": "quicklogger", "types": [4, 1], "interval": 0},
           {"fmt": "json", "types": "A", "interval": 0}]
    ops = [["u", 1, 3], ["u", 1, 0], ["u", 16, 4], ["u", 1, 3], ["u", 16, 1], ["u", 1, 4]]
    for s in ["", "RW" * 80, "RRRRRWWW" * 14, "R" * 200]:
        yield {"ds": dss, "ops": number_ops(ops), "sched": s}
        yield {"ds": dss[:2], "ops": number_ops(ops[:4]), "sched": s, "pre": [["u", 1, 3, 901], ["u", 1, 4, 902]]}


def outside_session_cases() -> Iterable[Dict[str, Any]]:
    """messages, ticks, pause and resume that arrive while no recording is running, then a session"""
    progs = [SMALL_PROGRAMS[0], SMALL_PROGRAMS[2], SMALL_PROGRAMS[3],
             ([{"fmt": f, "types": "A", "interval": 30} for f in D.FORMATS], [["u", 1, 0], ["u", 16, 1], ["u", 31, 2]])]
    for dss, ops in progs:
        for pre in PRE_SHAPES:
            for s in ["", "RW" * 60, "RRRRRWWW" * 12]:
                yield {"ds": dss, "ops": number_ops(ops), "sched": s, "pre": pre}


def random_pre(rng) -> List[List[Any]]:
    out: List[List[Any]] = []
    k = 900
    for _ in range(rng.randint(1, 4)):
        r = rng.random()
        dt = rng.choice([0, 1, 16, 31])
        if r < 0.6:
            k += 1
            out.append(["u", dt, rng.randrange(3), k])
        elif r < 0.75:
            out.append(["t", dt])
        elif r < 0.9:
            out.append(["p", dt])
        else:
            out.append(["r", dt])
    return out


def random_case(rng, long: bool) -> Dict[str, Any]:
    nds = rng.choice([1, 1, 2, 2, 3])
    dss = []
    for _ in range(nds):
        sel = rng.choice(["A", "A", [0], [1], [0, 2], [1, 2], [0, 1, 2], [4, 0], [2, 4]])
        dss.append({"fmt": rng.choice(D.FORMATS), "types": sel, "interval": rng.choice([0, 0, 30, 30, 45, 10])})
    nops = rng.randint(20, 50) if long else rng.randint(3, 12)
    ops: List[List[Any]] = []
    for _ in range(nops):
        k = rng.random()
        dt = rng.choice([0, 0, 1, 1, 2, 5, 8, 16, 16, 31])
        if k < 0.70:
            ops.append(["u", dt, rng.randrange(3) if rng.random() < 0.9 else rng.choice([3, 4])])
        elif k < 0.85:
            ops.append(["t", dt])
        elif k < 0.93:
            ops.append(["p", dt])
        else:
            ops.append(["r", dt])
    case = {"ds": dss, "ops": number_ops(ops)}
    if rng.random() < 0.25:
        case["pre"] = random_pre(rng)
    # schedule: bursts of random length, three flavours of writer speed
    flavour = rng.choice(["even", "slowW", "fastW", "bursty"])
    total = rng.randint(0, 3 * r_steps(case))
    s = []
    while len(s) < total:
        if flavour == "even":
            s.append(rng.choice("RW"))
        elif flavour == "slowW":
            s.append("R" if rng.random() < 0.85 else "W")
        elif flavour == "fastW":
            s.append("W" if rng.random() < 0.7 else "R")
        else:
            s.extend(rng.choice("RW") * rng.randint(1, 9))
    case["sched"] = "".join(s[:total])
    return case


# ---- fine granularity (kind G): every access to a shared object is a scheduling point --------------------------

def fine_r_steps(case) -> int:
    n = len(case["ds"])
    return (len(case["ops"]) - 1) * (5 + 3 * n) + 6 + 12 * n


def fine_directed() -> Iterable[Dict[str, Any]]:
    scheds = ["", "R" * 900, "W" * 25, "RW" * 300, "RRW" * 200, "RWW" * 200, "RRRRRWWW" * 80, "RWWWWW" * 120,
              "RRRRRRRRW" * 80, "R" * 9 + "W" * 6 + "R" * 30, "R" * 9 + "W" * 3 + "R" * 12 + "W" * 9 + "R" * 40]
    seen = set()
    for case in itertools.chain(directed_cases(), outside_session_cases(), low_type_cases()):
        key = (str(case["ds"]), str(case["ops"]), str(case.get("pre")))
        if key in seen:
            continue
        seen.add(key)
        for s in (scheds if not case.get("pre") else scheds[:1] + scheds[3:5]):
            yield dict(case, sched=s, faults=[])


def fine_exhaustive(deep: bool, rng=None) -> Iterable[Dict[str, Any]]:
    """schedules R^a W^b R^c W^d (then round-robin): the writer is pre-empted after every one of its first b
    accesses, the recorder after every one of its accesses, for all a and all b; thorough: a spread of c / d for
    each (a, b); quick: c = 0 and one seeded (c, d) per (a, b)"""
    cs = [1, 2, 3, 5, 9, 30]
    dsw = [0, 4]
    for dss, ops in SMALL_PROGRAMS:
        base = {"ds": dss, "ops": number_ops(ops), "faults": []}
        ra = fine_r_steps(base)
        wb = 14 + 22 * len(dss)
        for a in range(0, ra + 1):
            yield dict(base, sched="R" * a)
            for b in range(1, wb + 1):
                yield dict(base, sched="R" * a + "W" * b)
                if deep or rng is None:
                    for cc in cs:
                        for d in dsw:
                            yield dict(base, sched="R" * a + "W" * b + "R" * cc + "W" * d)
                elif (a + b) % 2 == 0:
                    yield dict(base, sched="R" * a + "W" * b + "R" * rng.randint(1, 34) + "W" * rng.randint(0, 9))


def fine_fault_sweep(deep: bool) -> Iterable[Dict[str, Any]]:
    """every file-system operation of a run fails once: programs x schedule shapes x fault position"""
    progs = list(SMALL_PROGRAMS) + [
        ([{"fmt": "quicklogger", "types": "A", "interval": 30}],
         [["u", 16, 0], ["u", 16, 1], ["u", 16, 2], ["t", 16]]),
        ([{"fmt": "msg_header", "types": "A", "interval": 30}, {"fmt": "quicklogger", "types": "A", "interval": 0}],
         [["u", 31, 0], ["u", 16, 1]]),
    ]
    scheds = ["", "RW" * 200, "R" * 400, "RWWW" * 150] + (["RRRW" * 150, "R" * 12 + "W" * 40 + "R" * 100] if deep else [])
    for dss, ops in progs:
        for s in scheds:
            for k in range(0, 40 if deep else 26):
                yield {"ds": dss, "ops": number_ops(ops), "sched": s, "faults": [k]}


def fine_random(rng, long: bool) -> Dict[str, Any]:
    case = random_case(rng, long)
    total = rng.randint(0, 3 * fine_r_steps(case))
    flavour = rng.choice(["even", "slowW", "fastW", "bursty", "bursty"])
    s: List[str] = []
    while len(s) < total:
        if flavour == "even":
            s.append(rng.choice("RW"))
        elif flavour == "slowW":
            s.append("R" if rng.random() < 0.85 else "W")
        elif flavour == "fastW":
            s.append("W" if rng.random() < 0.7 else "R")
        else:
            s.extend(rng.choice("RW") * rng.randint(1, 14))
    case["sched"] = "".join(s[:total])
    r = rng.random()
    case["faults"] = [] if r < 0.7 else sorted({rng.randrange(60) for _ in range(1 if r < 0.92 else 2)})
    return case


def fmt_cases(rng, deep: bool) -> Iterable[Tuple[str, List[int], List[int], int]]:
    """(format, message types, sizes of the write() batches, size of the finalize batch)"""
    fmts = ["raw", "json", "quicklogger"]
    maxn = 4 if deep else 3
    for n in range(0, maxn + 1):
        typeseqs = list(itertools.product(range(3), repeat=n))
        if not deep and n == 3:
            typeseqs = typeseqs[::3]
        for types in typeseqs:
            # every composition of n into (writes..., last) with at most 3 writes, empty batches allowed
            for nwrites in range(0, 4):
                for cutp in itertools.combinations_with_replacement(range(n + 1), nwrites):
                    sizes = [b - a for a, b in zip((0,) + cutp, cutp)]
                    last = n - (cutp[-1] if cutp else 0)
                    for f in fmts:
                        yield (f, list(types), sizes, last)
    for _ in range(300 if deep else 40):
        n = rng.randint(5, 60)
        types = [rng.randrange(3) for _ in range(n)]
        cuts = sorted(rng.randint(0, n) for _ in range(rng.randint(0, 6)))
        sizes = [b - a for a, b in zip([0] + cuts, cuts)]
        last = n - (cuts[-1] if cuts else 0)
        yield (rng.choice(fmts), types, sizes, last)


# ------------------------------------------------------------------------------------------------
# running: the real code in worker processes, the Lean driver in the parent
# ------------------------------------------------------------------------------------------------

_STOP: Any = None      # multiprocessing.Event of the pool this worker belongs to: set = give back the remaining chunks unrun


def _init_worker(ev) -> None:
    global _STOP
    _STOP = ev


class WorkerFailed(Exception):
    """a worker process could not run a chunk; carries plain text (an exception class of the code under test may not
    survive pickling, and a result the pool cannot unpickle makes `imap` wait for ever)"""


def _work(chunk: List[Tuple[str, str, Any]]) -> List[Tuple[str, str, Any, List[str], Dict[str, Any]]]:
    try:
        return _work_chunk(chunk)
    except C.MachineryError as e:
        raise C.MachineryError(str(e)) from None
    except BaseException as e:  # noqa: BLE001
        import traceback
        raise WorkerFailed(f"{type(e).__name__}: {e}\n{traceback.format_exc()[-1500:]}") from None


def _work_chunk(chunk: List[Tuple[str, str, Any]]) -> List[Tuple[str, str, Any, List[str], Dict[str, Any]]]:
    out = []
    for cid, kind, case in chunk:
        if _STOP is not None and _STOP.is_set():
            break
        if kind == "S":
            obs = D.run_sched_case(case)
            out.append((cid, kind, case, D.sched_block(cid, case, obs),
                        {"status": obs["status"], "warn": obs["warn"], "wexc": obs["wexc"], "rexc": obs["rexc"],
                         "trace": obs["trace"], "files": obs["files"]}))
        elif kind == "G":
            obs = G.run_fine_case(case)
            out.append((cid, kind, case, G.fine_block(cid, case, obs),
                        {"status": obs["status"], "warn": obs["warn"], "wexc": obs["wexc"], "rexc": obs["rexc"],
                         "trace": obs["trace"], "files": obs["files"], "fired": obs["fired"], "wdead": obs["wdead"],
                         "audit": obs["audit"]}))
        elif kind == "M":
            out.append((cid, kind, case, [], D.multi_session_check(*case)))
        else:
            o = D.run_fmt_case(*case)
            out.append((cid, kind, case, D.fmt_block(cid, o), {"exc": o["exc"], "n": len(o["msgs"])}))
    return out


def _bump(d: Dict[str, int], k: str, n: int = 1):
    d[k] = d.get(k, 0) + n


def _account(res: C.Result, cid: str, kind: str, case: Any, blk: List[str], meta: Dict[str, Any], verdict):
    X = res.extra
    if kind in "SG":
        for l in blk:
            if l.startswith("FB "):
                _bump(X["file_bytes_compared"], case["ds"][int(l.split(" ", 2)[1])]["fmt"])
    if kind == "S":
        key = (tuple(map(str, case["ds"])), tuple(map(tuple, case["ops"])), case["sched"], str(case.get("pre")))
        nontrivial = any(t.startswith("W:write") for t in meta["trace"])
        if case.get("pre"):
            _bump(X["branches"], "operations handed to the collection before start()")
        res.note_case(key, nontrivial)
        _bump(X["outcomes"], meta["status"])
        for op in case["ops"]:
            _bump(X["op_kinds"], op[0])
        for d in case["ds"]:
            _bump(X["formats"], d["fmt"])
        _bump(X["data_sets_per_case"], str(len(case["ds"])))
        for t in meta["trace"]:
            lab = t.rstrip("0123456789")
            _bump(X["gate_labels"], lab)
        if meta["warn"]:
            _bump(X["branches"], "update: writer busy, flush skipped (warning)")
        if any(t == "R:fin.wait" for t in meta["trace"]):
            _bump(X["branches"], "stop: waited for the writer")
        if any(len(fl) > 1 for fl in meta["files"]):
            _bump(X["branches"], "sub-division produced a second file")
        if any(op[0] == "p" for op in case["ops"]):
            _bump(X["branches"], "pause used")
        if not any(t.startswith("W:write") for t in meta["trace"]):
            _bump(X["branches"], "single-flush run (only stop wrote)")
        if any(fl and fl[-1] == [] and len(fl) > 1 for fl in meta["files"]):
            _bump(X["branches"], "last file empty after sub-division")
        if len(case["ops"]) >= 6:
            res.sample({"case": case, "impl": blk[-(2 + sum(len(f) for f in meta["files"])):-1], "verdicts": verdict})
    elif kind == "G":
        key = ("G", tuple(map(str, case["ds"])), tuple(map(tuple, case["ops"])), case["sched"], tuple(case["faults"]),
               str(case.get("pre")))
        if case.get("pre"):
            _bump(X["fine_branches"], "operations handed to the collection before start()")
        res.note_case(key, any(t.startswith("W:l") for t in meta["trace"]))
        _bump(X["fine_outcomes"], meta["status"] + (" (failure injected)" if case["faults"] else ""))
        for t in meta["trace"]:
            lab = t.replace("0", "#").replace("1", "#").replace("2", "#").replace("3", "#")
            _bump(X["fine_gate_labels"], lab)
        if meta["fired"]:
            _bump(X["fine_failure_hit_in"], "writer thread" if meta["wdead"] else "recording thread (stop)")
        if meta["warn"]:
            _bump(X["fine_branches"], "update: writer busy, flush skipped (warning)")
        if any(t == "R:fin.wait" for t in meta["trace"]):
            _bump(X["fine_branches"], "stop: waited for the writer")
        if any(len(fl) > 1 for fl in meta["files"]):
            _bump(X["fine_branches"], "sub-division produced a second file")
        tr = meta["trace"]
        if any(a.startswith("W:") and a[2] in "gls" and b.startswith("R:") and (b[2] in "ls" and b[3:4].isdigit())
               for a, b in zip(tr, tr[1:])):
            _bump(X["fine_branches"], "recorder touched a data set between two accesses of the writer's cycle")
        if case["faults"] and len(res.samples) < 12 and meta["status"] != "done":
            res.sample({"fine_case": case, "impl": blk[5:7], "verdicts": verdict})
    else:
        fmt, types, sizes, last = case
        res.note_case(("F", fmt, tuple(types), tuple(sizes), last), nontrivial=len(types) >= 2)
        _bump(X["fmt_cases"], fmt)
        _bump(X["fmt_paths"], "direct finalize (no write before)" if not sizes else "temp-file path / multi-write")


BATCH = 8000     # cases per call of the Lean driver


def _settle(res: C.Result, flat: List[Tuple[str, str, Any, List[str], Dict[str, Any]]], out_lines: List[str]) -> None:
    """verdicts of the driver for one batch of finished cases"""
    out = C.parse_driver(out_lines)
    for cid, kind, case, blk, meta in flat:
        r = out.get(cid)
        if r is None:
            raise C.MachineryError(f"driver gave no answer for case {cid}")
        res.traces_validated += 1
        _account(res, cid, kind, case, blk, meta, r["props"])
        cc = {"kind": kind, "case": case, "protocol": blk if len("".join(blk)) < 20000 else blk[:6]}
        if kind == "G":
            cc["obs"] = {"status": meta["status"], "wdead": meta["wdead"], "fired": meta["fired"]}
        for d in r["corr"]:
            res.corr_diffs.append({"name": "corr:M10/" + {"S": "handshake", "G": "fine-handshake"}.get(kind, "format"),
                                   "diff": d[:600], "case": cc})
        for v in r["props"].get(PROP, []):
            if v.startswith("fail"):
                cl = v[5:]
                detail = f"{cl}: " + (f"impl status {meta['status']} wexc={meta['wexc']} rexc={meta['rexc']} "
                                      f"files={meta['files']}" if kind in "SG" else f"formatter case {case}")
                res.failures.append(C.Failure(clause=cl, case=cc, detail=detail, finding=_finding(cl, cc)))


def _multi_session_verdict(res: C.Result, rs: List[Dict[str, Any]]) -> None:
    ms_bad = []
    for r in rs:
        res.evaluations += 1
        res.extra.setdefault("multi_session_runs", 0)
        res.extra["multi_session_runs"] += 1
        fmt, fl = r["fmt"], r["flush_every_update"]
        if r["exc"]:
            ms_bad.append((r, f"recording {len(r['sessions'])} raised {r['exc']}"))
            continue
        for si, sess in enumerate(r["sessions"]):
            if sess["sent"] != sess["read"]:
                ms_bad.append((r, f"recording {si} ({fmt}, flush_every_update={fl}): sent {sess['sent']}, the file(s) "
                                  f"{sess['files']} contain {sess['read'][:14]}"))
                break
    for r, what in ms_bad[:2]:
        res.failures.append(C.Failure(clause="several_recordings_with_one_collection: " + what[:150],
                                      case={"multi_session": {"fmt": r["fmt"], "flush_every_update": r["flush_every_update"]}},
                                      detail=what))


def _feed(res: C.Result, items: List[Tuple[str, str, Any]], pool, until_failure: bool = False) -> None:
    """The real code runs in the worker processes, chunk by chunk in the order of `items`; as soon as BATCH cases are
    back they go to the Lean driver in a background thread while the workers go on with the next chunks (the driver
    used to run between two barriers of the pool).  `until_failure`: stop feeding once a batch showed a failure of
    the Spec on the implementation that is not a recorded finding."""
    if not items:
        return
    from concurrent.futures import ThreadPoolExecutor
    nproc = pool._processes if pool else 1
    size = max(1, min(60, len(items) // (nproc * 8) + 1))
    slow = [it for it in items if it[1] == "M"]          # real clock: one chunk each, first
    rest = [it for it in items if it[1] != "M"]
    chunks = [[it] for it in slow] + [rest[i:i + size] for i in range(0, len(rest), size)]
    results = pool.imap(_work, chunks) if pool else map(_work, chunks)
    multi: List[Dict[str, Any]] = []
    pending: List[Tuple[List[Any], Any]] = []

    def harvest(block: bool) -> None:
        while pending and (block or pending[0][1].done()):
            flat, fut = pending.pop(0)
            _settle(res, flat, fut.result())

    def launch(ex, flat) -> None:
        lines: List[str] = []
        for r in flat:
            lines += r[3]
        pending.append((flat, ex.submit(C.run_driver, "datalog", lines)))

    with ThreadPoolExecutor(2) as ex:
        batch: List[Any] = []
        for rs in results:
            for r in rs:
                if r[1] == "M":
                    multi.append(r[4])
                else:
                    batch.append(r)
            if len(batch) >= BATCH:
                launch(ex, batch)
                batch = []
            harvest(block=False)
            if until_failure and [f for f in res.failures if not f.finding]:
                batch = []
                if pool:
                    pool._verif_stop.set()      # the chunks still queued come back empty
                break
        if batch:
            launch(ex, batch)
        harvest(block=True)
    _multi_session_verdict(res, multi)


def _init_extra(res: C.Result):
    for k in ("outcomes", "op_kinds", "formats", "data_sets_per_case", "gate_labels", "branches", "fmt_cases",
              "fmt_paths", "file_bytes_compared", "fine_outcomes", "fine_gate_labels", "fine_branches", "fine_failure_hit_in"):
        res.extra.setdefault(k, {})


def _with_pool(fn):
    """worker pool whose processes (and the code under test in them) keep every temporary file under one scratch
    directory of this run, removed at the end whatever the workers left behind"""
    D.fast_tmp()
    old_tmp = tempfile.tempdir
    root = tempfile.mkdtemp(prefix="pyrtma_verif_c17_")
    tempfile.tempdir = root
    d = tempfile.mkdtemp(prefix="pyrtma_verif_dldefs_")
    D.write_defs(d)
    os.environ["VERIF_DL_DEFS_DIR"] = d
    nproc = min(16, os.cpu_count() or 2)
    pool = None
    try:
        if nproc > 1:
            ctx = mp.get_context("fork")
            ev = ctx.Event()
            pool = ctx.Pool(nproc, initializer=_init_worker, initargs=(ev,))
            pool._verif_stop = ev
        r = fn(pool)
        if pool:
            pool.close()
        return r
    finally:
        if pool:
            pool.terminate()     # after an exception: do not run the chunks still queued
            pool.join()
        tempfile.tempdir = old_tmp
        shutil.rmtree(root, ignore_errors=True)
        os.environ.pop("VERIF_DL_DEFS_DIR", None)


def _package_imports(res: C.Result) -> bool:
    """`import pyrtma.data_logger` (it registers the formatters) and the harness's own set-up, in this process.  A tree
    on which that raises has no data logger to check: reported as a tie that no longer checks (rule 2), not as a crash."""
    try:
        D.env()
        return True
    except C.MachineryError:
        raise
    except Exception as e:  # noqa: BLE001
        msg = f"harness set-up: the data logger package cannot be imported / set up: {type(e).__name__}: {e}"[:300]
        if msg not in res.broken:
            res.broken.append(msg)
        return False


def run(res: C.Result, deep: bool):
    _init_extra(res)
    if not _package_imports(res):
        return

    # several recordings with one DataCollection object (real threads, real clock; sequential use, no race involved):
    # six items of kind M, run by the workers next to everything else
    rng = C.rng_for(res.seed, "C17" + ("deep" if deep else ""))
    items: List[Tuple[str, str, Any]] = [(f"m{fmt}{int(fl)}", "M", (fmt, fl))
                                         for fmt in ("raw", "json", "quicklogger") for fl in (False, True)]
    n = 0
    for p in sorted((C.CORPUS / PROP).glob("*.case")) if (C.CORPUS / PROP).is_dir() else []:
        import json
        items.append((f"c{n}", "S", json.loads(p.read_text()))); n += 1
    for case in itertools.chain(directed_cases(), outside_session_cases(), low_type_cases()):
        items.append((f"d{n}", "S", case)); n += 1
    ex = list(exhaustive_cases(deep))
    for case in ex:
        items.append((f"e{n}", "S", case)); n += 1
    nrand = (6000, 1500) if deep else (500, 150)
    for _ in range(nrand[0]):
        items.append((f"r{n}", "S", random_case(rng, long=False))); n += 1
    for _ in range(nrand[1]):
        items.append((f"l{n}", "S", random_case(rng, long=True))); n += 1
    for fc in fmt_cases(rng, deep):
        items.append((f"f{n}", "F", fc)); n += 1
    n_fine0 = n
    for case in fine_directed():
        items.append((f"gd{n}", "G", case)); n += 1
    for case in fine_exhaustive(deep, rng):
        items.append((f"ge{n}", "G", case)); n += 1
    for case in fine_fault_sweep(deep):
        items.append((f"gf{n}", "G", case)); n += 1
    nfr = (5000, 1000) if deep else (700, 150)
    for _ in range(nfr[0]):
        items.append((f"gr{n}", "G", fine_random(rng, long=False))); n += 1
    for _ in range(nfr[1]):
        items.append((f"gl{n}", "G", fine_random(rng, long=True))); n += 1
    res.extra["fine_cases"] = n - n_fine0
    res.rule = ("handshake: every schedule of <= %d alternating runs (run length 1..%d for R, one writer cycle for W, "
                "both starting threads) over %d small programs [%d cases]; directed boundary programs x 9 schedule "
                "shapes; programs preceded by operations handed to the collection before start() (messages, time-outs, "
                "pause, resume: 4 shapes x 4 programs x 3 schedules, and a quarter of the random cases); data sets "
                "configured with the zero-padded type list of the data logger, messages of the core types 0 / 1; "
                "%d seeded random short and %d long (20-50 operations, 1-3 data sets, all four formatters, four "
                "scheduler flavours) runs; each schedule is completed by a round-robin tail.  formats: every partition "
                "of every type sequence of length <= %d into <= 3 write() batches + finalize batch for raw/json/"
                "quicklogger, plus seeded long partitions.  A handshake case is non-trivial when the writer wrote at "
                "least once; distinct by (data sets, operations, schedule).  fine granularity (every access to a shared "
                "object is a scheduling point): the directed programs x 11 schedule shapes; for the 5 small programs every "
                "schedule R^a W^b R^c W^d with all a, all b and (thorough) a spread of c, d resp. (quick) c = 0 and, for every other (a, b), one seeded (c, d); a sweep that makes each of the first "
                "26/40 file-system operations fail, over 7 programs x 4/6 schedule shapes; seeded random runs with burst "
                "schedules and 0-2 injected failures."
                % (6 if deep else 5, 6, len(SMALL_PROGRAMS), len(ex), nrand[0], nrand[1],
                   4 if deep else 3))

    _with_pool(lambda pool: _feed(res, items, pool))
    seen = set(res.extra["gate_labels"])
    res.extra["gate_labels_never_seen"] = [l for l in ALL_LABELS if l not in seen]
    res.assumptions = ["every access to an object both threads can reach is a scheduling point; code between two such "
                       "accesses touches thread-local data only (audited per run, see TRUSTED)",
                       "one recording session per collection in the models: start(); operations; stop() — what precedes "
                       "start() and what happens between several recordings of one collection (six multi-session runs "
                       "with real threads) is judged on the implementation only"]


def search(res: C.Result):
    """rule 2: model and code disagree but no failing input yet: explore schedules around the diverging cases"""
    _init_extra(res)
    if not _package_imports(res):
        return
    # VERIF_SEARCH_SCALE (default 1): a mutation sweep that runs this search hundreds of times may shrink it; a verdict
    # "no failing input found" obtained with a scale below 1 is to be confirmed with the full search
    scale = float(os.environ.get("VERIF_SEARCH_SCALE") or 1.0)
    res.extra["search_scale"] = scale
    seeds = [d["case"]["case"] for d in res.corr_diffs if d["case"]["kind"] in "SG"][:max(2, int(12 * scale))]
    items: List[Tuple[str, str, Any]] = []
    n = 0
    rng = C.rng_for(res.seed, "C17search")
    for case in seeds:
        base = {"ds": case["ds"], "ops": case["ops"]}
        if case.get("pre"):
            base["pre"] = case["pre"]
        nr = min(r_steps(base), 8)
        for first in "RW":
            for s in itertools.islice(block_schedules(nr, 3 + len(case["ds"]), 5, first), int(6000 * scale)):
                items.append((f"s{n}", "S", dict(base, sched=s))); n += 1
    for dss, ops in SMALL_PROGRAMS:
        base = {"ds": dss, "ops": number_ops(ops)}
        for first in "RW":
            scheds = block_schedules(min(r_steps(base), 8), 3 + len(dss), 5, first)
            for s in (scheds if scale >= 1 else itertools.islice(scheds, int(12000 * scale))):
                items.append((f"s{n}", "S", dict(base, sched=s))); n += 1
    for _ in range(int(3000 * scale)):
        items.append((f"s{n}", "S", random_case(rng, long=rng.random() < 0.3))); n += 1
    if scale >= 1:
        for case in fine_exhaustive(False, rng):
            items.append((f"s{n}", "G", case)); n += 1
    for _ in range(int(3000 * scale)):
        items.append((f"s{n}", "G", fine_random(rng, long=rng.random() < 0.3))); n += 1

    _with_pool(lambda pool: _feed(res, items, pool, until_failure=True))


def replay(body: Dict[str, Any]) -> int:
    if "multi_session" in (body.get("case") or {}):
        c = body["case"]["multi_session"]
        r = D.multi_session_check(c["fmt"], c["flush_every_update"])
        print(r)
        return 1 if (r["exc"] or any(x["sent"] != x["read"] for x in r["sessions"])) else 0
    cc = body.get("case") or (body.get("first_corr_diff") or {}).get("case")
    if not cc or "case" not in cc:
        print("nothing replayable in this file")
        return 2
    if cc["kind"] == "S":
        case = cc["case"]
        obs = D.run_sched_case(case)
        blk = D.sched_block("replay", case, obs)
        if obs.get("wexc") or obs.get("rexc"):
            print(f"# writer exception: {obs.get('wexc')}   recorder exception: {obs.get('rexc')}")
    elif cc["kind"] == "G":
        case = cc["case"]
        obs = G.run_fine_case(case)
        blk = G.fine_block("replay", case, obs)
        if obs.get("wexc") or obs.get("rexc"):
            print(f"# writer exception: {obs.get('wexc')}   recorder exception: {obs.get('rexc')}")
    else:
        blk = D.fmt_block("replay", D.run_fmt_case(*cc["case"]))
    out = C.run_driver("datalog", blk)
    print("\n".join(l if len(l) < 400 else l[:400] + "…" for l in blk))
    print("\n".join(out))
    return 1 if any(" PROP C17 fail" in o or "CORR diff" in o for o in out) else 0
