"""C10 — serialisation round trips are the identity (model M5, Model/Serial.lean)."""
from __future__ import annotations

from typing import Any, Dict, List

from .. import common as C
from .. import serial_corr as SC
from .. import valid_corr as VC

PROP = "C10"
DRIVERS = ["drv_serial"]
LEAN_TARGETS = ["Pyrtma.Props.C10"]
LEVEL = "proof"
ISOLATE = True          # the real code runs in a forked child (check: `run_isolated`): a segfault still ends in a verdict


def _f3(clause: str, case: Any) -> bool:
    """C10-F3: only the round trips that involve a TimeCodeMessageHeader as the header (its to_dict lacks the inherited fields)"""
    return "timecode_header" in clause and isinstance(case, dict) and bool(case.get("timecode"))


MATCHERS: Dict[str, Any] = {"C10-F3": _f3}


def _match(clause: str, case: Any):
    """known_findings.json decides; the slice's own fragment is used until the coordinator has merged it"""
    import json
    known = {e["id"]: e for e in C.known_findings(PROP)}
    frag = C.VERIF / "findings_fragments" / "C10.json"
    if frag.exists():
        for e in json.loads(frag.read_text()).get("findings", []):
            known.setdefault(e["id"], e)
    for fid, e in known.items():
        if e.get("status") == "open" and fid in MATCHERS and MATCHERS[fid](clause, case):
            return fid
    return None
TRUSTED = [
    "Lean 4.33.0 kernel; axioms propext / Classical.choice / Quot.sound only (audited by #print axioms)",
    "harness/serial_corr.py: class descriptors from _fields_ and ctypes offsets, messages built through the validated field API, "
    "tokenisation of dictionaries, storage scripts on real ctypes objects",
    "Python's float repr / float(): opaque; tokens are supplied per case and checked against the JSON float grammar",
    "ctypes from_buffer_copy / bytes(): fresh allocation is the model's assumption, compared with real objects on random scripts",
]

STYLES = ["default", "lo", "hi", "zero", "nan", "sparse", "rnd", "rnd", "rnd"]


def _cases(seed: int, deep: bool):
    W = VC.world()
    rng = C.rng_for(seed, "C10" + ("deep" if deep else ""))
    classes = SC.all_classes(W)
    reps = 6 if deep else 1
    import json
    d = C.CORPUS / PROP
    for f in sorted(d.glob("*.json")) if d.exists() else []:      # minimised past failures first
        body = json.loads(f.read_text())["case"]
        cls = next((c for c in classes if c.__name__ == body["class"]), None)
        if cls is not None:
            yield cls, body["style"], body["subseed"]
    import ctypes
    for ci, cls in enumerate(classes):
        for style in (["default"] if ctypes.sizeof(cls) == 0 else STYLES + (["rnd"] * 12 if deep else [])):
            for r in range(reps if style in ("rnd", "sparse") else 1):
                yield cls, style, rng.getrandbits(48)


def run(res: C.Result, deep: bool):
    import random
    W = VC.world()
    lines: List[str] = []
    meta: Dict[str, Any] = {}
    n = 0
    ex = res.extra
    ex["classes"] = 0
    seen_cls = set()
    nbytes = 0

    pending: List[Any] = []

    def flush():
        """hand the accumulated blocks to a driver process (several run concurrently: the driver dominates the wall time)"""
        nonlocal lines, meta
        if lines:
            pending.append((pool.submit(C.run_driver, "serial", lines), meta))
        lines, meta = [], {}

    def collect():
        for fut, mt in pending:
            out = C.parse_driver(fut.result())
            for cid, (cname, style, sub, blk, cmod) in mt.items():
                r = out.get(cid)
                if r is None:
                    raise C.MachineryError(f"driver gave no answer for case {cid}")
                rc = {"class": cname, "module": cmod, "style": style, "subseed": sub, "timecode": cid.endswith("tc"),
                      "protocol": [l if len(l) < 400 else l[:400] + "..." for l in blk]}
                for d in r["corr"]:
                    res.corr_diffs.append({"name": "corr:M5/leaf", "diff": d[:600], "case": rc})
                for v in r["props"].get(PROP, []):
                    if v.startswith("fail"):
                        cl = v[5:]
                        res.failures.append(C.Failure(clause=cl, case=rc,
                                                      detail=f"{cl}: class {cname} built with style {style}/{sub}",
                                                      finding=_match(cl, rc)))
        pending.clear()

    import concurrent.futures
    import os
    pool = concurrent.futures.ThreadPoolExecutor(max_workers=min(8, os.cpu_count() or 2))
    for cls, style, sub in _cases(res.seed, deep):
        cid = f"s{n}"
        n += 1
        def trouble(what: str, blk=()):
            """the code under test raised where the unchanged code never does: a correspondence difference with the case as
            replay (never a crash of the harness)"""
            ex["harness_trouble"] = ex.get("harness_trouble", 0) + 1
            if ex["harness_trouble"] <= 20:
                res.corr_diffs.append({"name": "corr:M5/build", "diff": what[:400],
                                       "case": {"class": cls.__name__, "module": cls.__module__, "style": style, "subseed": sub, "timecode": False,
                                                "protocol": [l if len(l) < 400 else l[:400] + "..." for l in blk]}})
        C.crumb({"class": cls.__name__, "module": cls.__module__, "style": style, "subseed": sub, "timecode": False})
        try:
            m = SC.build(W, cls, random.Random(sub), style)
        except Exception as e:  # noqa: BLE001  an in-domain value was refused by the validated field API
            trouble(f"building a {cls.__name__} (style {style}) through the validated field API raised {type(e).__name__}: {e}")
            res.note_case((cls.__name__, style, sub), nontrivial=False)
            continue
        info: Dict[str, Any] = {}
        blk = SC.run_case(cid, cls, m, info, extended=style == "default")
        if info.get("trouble"):
            trouble(info["trouble"], blk)
        lines += blk
        meta[cid] = (cls.__name__, style, sub, blk, cls.__module__)
        if SC.is_registered_message(cls, m) and style in ("default", "rnd"):
            info = {}
            tblk = SC.run_timecode_case(cid + "tc", cls, m, info)
            if info.get("trouble"):
                trouble(info["trouble"], tblk)
            lines += tblk
            meta[cid + "tc"] = (cls.__name__, style, sub, tblk, cls.__module__)
            ex.setdefault("timecode_header_cases", 0)
            ex["timecode_header_cases"] += 1
        res.note_case((cls.__name__, style, sub), nontrivial=style != "default")
        res.traces_validated += 1
        seen_cls.add(cls.__name__)
        ex.setdefault("styles", {}).setdefault(style, 0)
        ex["styles"][style] += 1
        for l in blk:
            if l.startswith("RT "):
                t = l.split()
                ex.setdefault("trips", {}).setdefault(t[1], {"ok": 0, "err": 0})
                ex["trips"][t[1]]["err" if t[2].startswith("err") else "ok"] += 1
            elif l.startswith("LEAF "):
                k = l.split()[2]
                ex.setdefault("leaf_kinds", {}).setdefault(k, 0)
                ex["leaf_kinds"][k] += 1
            elif l.startswith("HOP "):
                ex.setdefault("storage_ops", {}).setdefault(l.split()[1], 0)
                ex["storage_ops"][l.split()[1]] += 1
            elif l.startswith("FD "):
                t = l.split(None, 3)
                ex.setdefault("from_dict_probes", {}).setdefault(t[1], {"ok": 0, "err": 0})
                ex["from_dict_probes"][t[1]]["err" if t[2].startswith("err") else "ok"] += 1
            elif l.startswith("VER "):
                ex.setdefault("version_probes", {"refused": 0, "accepted": 0})
                t = l.split()
                ex["version_probes"]["refused" if t[3] == "1" else "accepted"] += 1
                if len(t) > 4:
                    ex.setdefault("version_probe_texts", {}).setdefault(t[4], 0)
                    ex["version_probe_texts"][t[4]] += 1
        if len(res.samples) < 3 and style == "rnd" and len(blk) < 14:
            res.sample({"class": cls.__name__, "protocol": [l[:200] for l in blk]})
        nbytes += sum(map(len, blk))
        if nbytes > 1_500_000:
            flush()
            nbytes = 0
    flush()
    collect()
    pool.shutdown()
    ex["classes"] = len(seen_cls)
    res.rule = ("every message and struct class of pyrtma.core_defs, of tests/test_msg_defs and three synthetic classes with one "
                "field per validator kind / width / nesting; each built through the validated field API in styles: default, all-min, "
                "all-max, -0.0/long-then-empty strings, NaN, sparse, random (strings: a long value then a shorter one; control "
                "characters, quotes; byte arrays all-0x00 / all-0xFF); trips: bytes, dict, json, minified json, dict through json "
                "text, header+data json (version = hash and 0), copy; version probes {0, hash, hash^1, hash+1, 1, 0xFFFFFFFF}; "
                "model correspondence per case: whole to_dict(), from_dict on the dictionary / its json.loads image / altered "
                "dictionaries, well-formedness of the built bytes, JSON text (both layouts, data alone and header+data), "
                "fromJson, a random storage script; header+data JSON with the time-code header as a case of its own (C10-F3)")


def replay(body: Dict[str, Any]) -> int:
    import random
    case = body.get("case") or (body.get("first_corr_diff") or {}).get("case")
    if not case or "class" not in case:
        print("nothing replayable in this file")
        return 2
    W = VC.world()
    # (two classes can have the same name: the test definitions define some of the core messages again)
    cls = next((c for c in SC.all_classes(W) if c.__name__ == case["class"] and c.__module__ == case.get("module", c.__module__)), None)
    if cls is None:
        print("class not found:", case["class"])
        return 2
    try:
        m = SC.build(W, cls, random.Random(case["subseed"]), case["style"])
    except Exception as e:  # noqa: BLE001
        print(f"building the message through the validated field API raised {type(e).__name__}: {e}")
        return 1
    info: Dict[str, Any] = {}
    blk = SC.run_timecode_case("replay", cls, m, info) if case.get("timecode") else \
        SC.run_case("replay", cls, m, info, extended=case["style"] == "default")
    if info.get("trouble"):
        print(info["trouble"])
    out = C.run_driver("serial", blk)
    print("\n".join(l[:300] for l in blk))
    print("\n".join(out))
    return 1 if info.get("trouble") or any(" fail" in o or "CORR diff" in o for o in out) else 0
