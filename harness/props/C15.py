"""C15 — accepted definitions yield outputs that load in their language (models M6 + M9)."""
from __future__ import annotations

from typing import Any, Dict

from .. import common as C
from .. import emit_gen as G
from .. import emit_run as R

PROP = "C15"
DRIVERS = ["drv_emit"]
LEAN_TARGETS = ["Pyrtma.Props.C15"]
LEVEL = "proof"
WANT = {"probes": True, "determinism": False, "roundtrip": False}
LOAD_CLAUSES = ("tool_py", "tool_c", "tool_js", "tool_m", "python_loads", "c_compiles", "js_loads",
                "matlab_defined_before_use")

MATCHERS: Dict[str, Any] = {
    # alias whose (resolved) target is a struct: printed in the alias section, i.e. before the struct
    "C15-F3": lambda clause, case: clause in LOAD_CLAUSES and G.has_alias_of_struct(case),
    # struct with a field (or `fields:` source) that is a message: structs are printed before all messages
    "C15-F4": lambda clause, case: clause in LOAD_CLAUSES and G.has_struct_using_message(case),
}


def judge(res: C.Result, results: Dict[str, Dict[str, Any]]):
    for cid, r in results.items():
        cl, obs = r["closure"], r["obs"]
        ndefs = sum(len(fs.get("structs", [])) + len(fs.get("messages", [])) for fs in cl["files"].values())
        res.note_case(cl["files"], nontrivial=ndefs >= 2)
        res.traces_validated += 1
        for d in r["corr"]:
            res.corr_diffs.append({"name": "corr:M9/" + d.split()[1], "diff": d, "case": cl})
        v = r["props"].get(PROP, "")
        res.extra.setdefault("verdicts", {}).setdefault(v.split()[0] if v else "none", 0)
        res.extra["verdicts"][v.split()[0] if v else "none"] += 1
        if v.startswith("fail"):
            clause = v[5:].split()[0]
            detail = {"tool_py": obs.get("py_probe_error"), "tool_c": obs.get("gcc_error"),
                      "tool_js": obs.get("node_error"), "tool_m": obs.get("m_error")}.get(clause) or obs.get("error", "")
            # the driver names the finding class with the Lean predicates on the model's registry (`Reg.aliasOfStruct`,
            # `Reg.structUsesMsg`: the side conditions of the theorem `loadable`); a failure counts as the known finding only
            # if that class AND the structural signature of the closure agree
            lean_cls = {t[6:] for t in v.split() if t.startswith("class:")}
            finding = R.match(PROP, clause, cl, MATCHERS)
            if finding is not None and finding.split("-")[-1] not in lean_cls:
                other = [f for f in ("C15-F3", "C15-F4") if f.split("-")[-1] in lean_cls and MATCHERS[f](clause, cl)]
                finding = other[0] if other else None
            res.failures.append(C.Failure(clause=clause, case=cl, detail=f"{clause}: {detail} [{' '.join(sorted(lean_cls))}]"[:400],
                                          finding=finding))
        if len(res.samples) < 5 and ndefs >= 3:
            res.sample({"tags": cl.get("tags"), "outcome": obs.get("outcome"), "verdict": v, "root": cl["root"],
                        "files": list(cl["files"])})


def run(res: C.Result, deep: bool):
    cases = R.build_cases(res.seed, deep, "emit", 400 if deep else 40, PROP)
    res.rule = ("directed closures (every documented construct, every defect of DESIGN.md section 7), exhaustive native types "
                "x {scalar,[1],[2],[5]} and ordered pairs, a malformed stream, and seeded random closures of 1-4 files in random "
                "import graphs (aliases of natives/aliases/imported structs, nesting to depth 4, arrays of structs, messages in "
                "messages and in structs of importing files, reuse, signals, reserved ids, constant-expression lengths, core types); "
                "each compiled by the real compile() to .py/.h/.js/.m and loaded by CPython, gcc, node and the .m interpreter; "
                "non-trivial = at least two definitions; distinct by file contents")
    results = R.run_closures(cases, WANT)
    R.describe(res, results)
    judge(res, results)


def replay(body: Dict[str, Any]) -> int:
    return R.replay_closure(PROP, body, WANT)
