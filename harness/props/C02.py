"""C02 — client and manager always agree on the subscription set (model M2)."""
from __future__ import annotations

import multiprocessing as mp
import os
from typing import Any, Dict, List

from .. import common as C
from .. import client_corr as K

PROP = "C02"
DRIVERS = ["drv_clientsub"]
LEAN_TARGETS = ["Pyrtma.Props.C02"]
LEVEL = "proof"

MATCHERS: Dict[str, Any] = {}      # no open finding (C02-F4 is fixed by /repo 5d9f32d: nothing is suppressed)
TRUSTED = [
    "Lean 4.33.0 kernel", "axioms: propext, Classical.choice, Quot.sound only (audited by #print axioms)",
    "harness/client_corr.py: in-memory duplex connections, scripted select, frozen clock stand for socket/select/"
    "time inside pyrtma.manager and pyrtma.client; differential testing of Model/ClientSub.lean vs the real "
    "Client API driving the real MessageManager.run(); for the life cycle also pyrtma.client.socket (a shim whose "
    "sockets become in-memory connections on connect(); a connection can be cut: reads see FIN or RST, writes raise "
    "ConnectionResetError) - differential testing of Model/ClientLife.lean",
]


def _work(chunk):
    C.use_repo()
    out = []
    for cid, case in chunk:
        try:
            out.append((cid, (K.run_life_case if case.get("life") else K.run_case)(cid, case), None))
        except C.MachineryError as e:
            out.append((cid, None, f"MachineryError: {e}"))
        except BaseException as e:  # noqa: BLE001  (WouldBlock, or the manager crashed: reported as machinery)
            if isinstance(e, (KeyboardInterrupt, SystemExit)):
                raise
            out.append((cid, None, f"{type(e).__name__}: {e}"))
    return out


def _run_cases(cases: List[Any]) -> List[Any]:
    n = min(max(1, (os.cpu_count() or 2) - 1), 12)
    if len(cases) < 200 or n == 1:
        return _work(cases)
    size = max(20, len(cases) // (n * 4))
    chunks = [cases[i:i + size] for i in range(0, len(cases), size)]
    ctx = mp.get_context("fork")
    with ctx.Pool(n) as pool:
        res = pool.map(_work, chunks)
    return [x for r in res for x in r]


def _feed(res: C.Result, cases: List[Any]):
    done = _run_cases(cases)
    lines: List[str] = []
    meta: Dict[str, Any] = {}
    bycid = dict(cases)
    for cid, blk, err in done:
        if blk is None:
            # the pair could not be driven to the end: the real code raised something the harness does not expect
            res.failures.append(C.Failure(clause="harness_could_not_complete_case", case={"case": bycid[cid]},
                                          detail=f"case {cid}: {err}"))
            continue
        lines += blk
        meta[cid] = blk
    out = C.parse_driver(C.run_driver("clientsub", lines))
    ex = res.extra
    for cid, blk in meta.items():
        r = out.get(cid)
        if r is None:
            raise C.MachineryError(f"driver gave no answer for case {cid}")
        case = bycid[cid]
        res.note_case(blk[1:], nontrivial=len(case["ops"]) >= 2)
        res.traces_validated += 1
        for l in blk:
            if l.startswith("OP "):
                k = l.split()[1]
                ex.setdefault("ops", {}).setdefault(k, 0)
                ex["ops"][k] += 1
            elif l.startswith("LOP "):
                t = l.split()
                k = t[1] + (":" + t[2] if t[1] == "sub" else "")
                ex.setdefault("life_ops", {}).setdefault(k, 0)
                ex["life_ops"][k] += 1
            elif l.startswith("LPH "):
                t = l.split()
                st = t[1].split(":")[0]
                k = ("connected" if " C 1 " in l else "disconnected") + ":" + st
                ex.setdefault("life_phase_status", {}).setdefault(k, 0)
                ex["life_phase_status"][k] += 1
                if " R - " not in l:
                    ex.setdefault("handshakes", {}).setdefault("accepted" if st == "ok" else "refused", 0)
                    ex["handshakes"]["accepted" if st == "ok" else "refused"] += 1
            elif l.startswith("PH "):
                t = l.split()
                st = t[1].split(":")[0]
                ex.setdefault("phase_status", {}).setdefault(st, 0)
                ex["phase_status"][st] += 1
                if " A 1" in l:
                    ex["phases_subscribed_to_all"] = ex.get("phases_subscribed_to_all", 0) + 1
        tag = case.get("tag", "?")
        ex.setdefault("generators", {}).setdefault(tag, 0)
        ex["generators"][tag] += 1
        jc = {"case": case, "protocol": blk}
        for d in r["corr"]:
            res.corr_diffs.append({"name": "corr:M2/life-cycle" if case.get("life") else "corr:M2/subscription",
                                   "diff": d[:1500], "case": jc})
        for v in r["props"].get(PROP, []):
            ex.setdefault("verdicts", {}).setdefault(v.split()[0], 0)
            ex["verdicts"][v.split()[0]] += 1
            if v.startswith("fail"):
                cl = v[5:]
                res.failures.append(C.Failure(clause=cl.split()[0], case=jc, detail=cl,
                                              finding=C.match_finding(PROP, cl, jc, MATCHERS)))
        if len(case["ops"]) >= 3 and tag in ("random", "seq3", "directed", "directed-boundary", "life-random", "life-directed"):
            res.sample({"tag": tag, "protocol": blk[:14], "verdicts": r["props"]})


def cases_for(res: C.Result, deep: bool):
    rng = C.rng_for(res.seed, "C02" + ("deep" if deep else ""))
    cases = []
    n = 0

    def add(c):
        nonlocal n
        cases.append((f"k{n}", c))
        n += 1

    import json
    for f in sorted((C.CORPUS / PROP).glob("*.json")):      # witnesses of past failures first
        j = json.loads(f.read_text())
        add({"U": list(j["U"]), "ops": [(k, list(a)) for k, a in j["ops"]], "tag": "corpus"})
    for c in K.directed():
        add(c)
    for c in K.exhaustive(3, 3 if deep else 2):
        add(c)
    for _ in range(6000 if deep else 1000):
        add(K.rand_case(rng, 30))
    # the session life cycle: one Client object from its construction on (second layer of M2)
    for c in K.life_directed():
        add(c)
    for c in K.life_exhaustive(3 if deep else 2):
        add(c)
    for _ in range(6000 if deep else 1200):
        add(K.life_rand_case(rng, 25))
    return cases


def run(res: C.Result, deep: bool):
    cases = cases_for(res, deep)
    res.rule = ("directed witnesses of the known defects; every reachable client state over {t1,t2,t3} (each none / "
                "subscribed / paused, plus subscribed-to-all) x every operation (4 control methods, 3 *_all methods, "
                "both context managers, reconnect) x every argument list of length <= 3 over {t1,t2,t3,ALL} incl. "
                "duplicates; all sequences of <= %d operations with short argument lists; seeded random histories of "
                "<= 30 operations over 7 types with ALL and duplicates mixed in (3 in 10 over a pool that mixes ordinary ids with "
                "ids at the edges of the id space: 0, 1, MAX_MESSAGE_TYPES-1 / +0 / +1, 65536, ALL-1, -1, -2^31); 10 directed "
                "histories that put every operation on each edge id; after every phase one probe per type "
                "of the universe (incl. a never-mentioned type) is sent through the real manager; a case is "
                "non-trivial when it has >= 2 operations.  Session life cycle (one Client object from its constructor "
                "on, real Client.connect / disconnect / read_message / send_signal on sockets made by a socket shim): 11 "
                "directed histories; all sequences of <= %d operations over a 17-letter alphabet (connect with / without "
                "allow_multiple, disconnect, connection lost on read / on send / before a subscription call, noticed by "
                "the manager or not, the manager discovering dead connections, subscription calls) after 3 prefixes on 5 "
                "set-ups (dynamic / static id, other modules holding ids, cursor at the wrap-around, every dynamic id "
                "taken); seeded random histories of <= 25 operations with random other modules and cursor positions, "
                "handshakes the manager answers too late included (C02-F4, fixed: the client ends disconnected)"
                % (3 if deep else 2, 3 if deep else 2))
    res.assumptions.append("the manager is pumped (MessageManager.run() until idle) after every client phase: "
                           "control frames are processed before the next probe (no in-flight window is modelled)")
    for i in range(0, len(cases), 20000):
        _feed(res, cases[i:i + 20000])
    res.extra["cases_total"] = len(cases)
    # the same property on a second session of one Client object (reconnect after disconnect / lost connection)
    C.use_repo()
    from .. import client_entry as E
    rr = E.check_reconnect_state()
    res.extra["reconnect_cases"] = rr["cases"]
    res.evaluations += rr["cases"]
    for f in rr["failures"]:
        if f["property"] == PROP:
            res.failures.append(C.Failure(clause="second_session: " + f["what"][:160], case={"client_reconnect": f},
                                          detail=f["what"]))


def replay(body: Dict[str, Any]) -> int:
    _c = body.get("case") or {}
    if "client_reconnect" in _c:
        C.use_repo()
        from .. import client_entry as E
        want = _c["client_reconnect"]
        bad = [f for f in E.check_reconnect_state()["failures"] if f["property"] == PROP and
               all(f.get(k) == want.get(k) for k in ("first_session_ended_by", "subscribed_to_all", "timecode"))]
        print(bad or "no failure")
        return 1 if bad else 0
    jc = body.get("case") or (body.get("first_corr_diff") or {}).get("case")
    if not jc or "case" not in jc:
        print("nothing replayable in this file")
        return 2
    case = jc["case"]
    if case.get("life"):
        case = dict(case, ops=[tuple(o) for o in case["ops"]], others=[tuple(o) for o in case.get("others", [])])
        blk = K.run_life_case("replay", case)
    else:
        case = {"U": list(case["U"]), "ops": [(k, list(a)) for k, a in case["ops"]]}
        blk = K.run_case("replay", case)
    out = C.run_driver("clientsub", blk)
    print("\n".join(blk))
    print("\n".join(out))
    return 1 if any(" fail" in o or "CORR diff" in o for o in out) else 0
