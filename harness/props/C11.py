"""C11 — accepted layouts are naturally aligned with only explicit padding (model M6)."""
from __future__ import annotations

import multiprocessing as mp
import os
from typing import Any, Dict, List

from .. import common as C
from .. import layout_corr as L

PROP = "C11"
DRIVERS = ["drv_layout"]
LEAN_TARGETS = ["Pyrtma.Props.C11"]
LEVEL = "proof"
MATCHERS: Dict[str, Any] = {}


def _work(chunk):
    C.use_repo()
    out = []
    for cid, ap, spec in chunk:
        blk, _b = L.run_case(cid, ap, spec)
        out.append((cid, ap, spec, blk))
    return out


def _feed(res: C.Result, cases: List[Any], builts: Dict[str, Any]):
    lines: List[str] = []
    meta: Dict[str, Any] = {}
    nproc = min(16, os.cpu_count() or 4)
    if len(cases) > 2000:
        step = max(200, len(cases) // (nproc * 8))
        chunks = [cases[i:i + step] for i in range(0, len(cases), step)]
        with mp.get_context("fork").Pool(nproc) as pool:
            done = [x for part in pool.map(_work, chunks) for x in part]
    else:
        done = _work(cases)
    for cid, ap, spec, blk in done:
        if blk is None:
            continue
        lines += blk
        meta[cid] = (ap, spec, blk)
        if blk[2].startswith("OBS ok"):
            builts[cid] = (ap, spec)        # rebuilt on demand for the gcc probe
    out = C.parse_driver(C.run_driver("layout", lines))
    for cid, (ap, spec, blk) in meta.items():
        r = out.get(cid)
        if r is None:
            raise C.MachineryError(f"driver gave no answer for case {cid}")
        obs = blk[2]
        res.note_case((ap, spec), nontrivial=len(spec) >= 2)
        res.traces_validated += 1
        kind = obs.split()[1] + ("" if obs.split()[1] == "ok" else ":" + obs.split()[2])
        res.extra.setdefault("outcomes", {}).setdefault(kind, 0)
        res.extra["outcomes"][kind] += 1
        if "padding" not in res.extra:
            res.extra["padding"] = {"with_pad_fields": 0}
        if ":1@" in obs:
            res.extra["padding"]["with_pad_fields"] += 1
        case = {"auto_pad": ap, "spec": spec, "protocol": blk}
        for d in r["corr"]:
            res.corr_diffs.append({"name": "corr:M6/layout", "diff": d, "case": case})
        for v in r["props"].get(PROP, []):
            if v.startswith("fail"):
                cl = v[5:]
                res.failures.append(C.Failure(clause=cl, case=case, detail=f"{cl}: impl returned [{obs}]",
                                              finding=C.match_finding(PROP, cl, case, MATCHERS)))
        if len(spec) >= 3:
            res.sample({"auto_pad": ap, "in": blk[1], "impl": obs, "verdicts": r["props"]})


def _feed_yaml(res: C.Result, groups):
    lines: List[str] = []
    meta: Dict[str, Any] = {}
    for gid, ap, defs in groups:
        # every second group goes through a Parser object that has already failed on a file defining the same names
        # with other layouts (parse() -> clear() -> parse() on the same object)
        reuse = gid.startswith("yd") or (sum(map(ord, gid)) % 2 == 0)
        for cid, blk in L.run_yaml_group(gid, ap, defs, reuse):
            lines += blk
            meta[cid] = (ap, defs, blk, reuse)
    out = C.parse_driver(C.run_driver("layout", lines))
    oc = res.extra.setdefault("yaml_outcomes", {})
    for cid, (ap, defs, blk, reused) in meta.items():
        r = out.get(cid)
        if r is None:
            raise C.MachineryError(f"driver gave no answer for case {cid}")
        obs = blk[2]
        oc["parser_reused_after_failed_parse"] = oc.get("parser_reused_after_failed_parse", 0) + int(reused)
        reuse = any(isinstance(b, str) and k != "a" for _n, b, k in defs)
        oc["groups_with_alias_members"] = oc.get("groups_with_alias_members", 0) + int(any(k == "a" for _n, _b, k in defs))
        res.note_case((ap, repr(defs), cid.rsplit(".", 1)[1]), nontrivial=True)
        res.traces_validated += 1
        kind = ("reuse:" if reuse else "plain:") + obs.split()[1] + ("" if obs.split()[1] == "ok" else ":" + obs.split()[2])
        oc[kind] = oc.get(kind, 0) + 1
        case = {"auto_pad": ap, "yaml_group": [list(x) for x in defs], "definition": cid.rsplit(".", 1)[1], "protocol": blk,
                "parser_reused": reused}
        for d in r["corr"]:
            res.corr_diffs.append({"name": "corr:M6/layout(yaml)", "diff": d, "case": case})
        for v in r["props"].get(PROP, []):
            if v.startswith("fail"):
                cl = v[5:]
                res.failures.append(C.Failure(clause=cl, case=case, detail=f"{cl}: impl returned [{obs}] for IN [{blk[1]}]",
                                              finding=C.match_finding(PROP, cl, case, MATCHERS)))


def run(res: C.Result, deep: bool):
    rng = C.rng_for(res.seed, "C11" + ("deep" if deep else ""))
    builts: Dict[str, Any] = {}
    cases = []
    n = 0
    for spec in L.directed():
        for ap in (True, False):
            cases.append((f"d{n}", ap, spec)); n += 1
    for spec in L.exhaustive(4 if deep else 3):
        for ap in (True, False):
            cases.append((f"e{n}", ap, spec)); n += 1
    for _ in range(6000 if deep else 600):
        spec = L.rand_spec(rng, depth=3, maxf=rng.choice([3, 6, 12, 30]))
        cases.append((f"r{n}", rng.random() < 0.8, spec)); n += 1
    res.rule = ("exhaustive field lists of length <= %d over 4 widths x lengths {None,1,2,3,5} x auto_pad on/off; "
                "directed size-limit / zero-length / nested cases; seeded random lists up to 30 fields with nested "
                "structs to depth 3; plus the same Spec through the YAML front end (Parser.parse): groups of 2-6 struct/message "
                "definitions with field-list reuse, reuse of a reuse, and reused definitions as members and array elements "
                "(directed: 4 widths x 4 leading widths x struct/message; seeded random groups), member alignments computed "
                "by the harness, not read from the parser; a case is non-trivial when it has >= 2 fields (every YAML case is); "
                "distinct by (auto_pad, spec)"
                % (4 if deep else 3))
    # chunk to bound memory
    for i in range(0, len(cases), 20000):
        _feed(res, cases[i:i + 20000], builts)
    # the same property through the YAML front end (field-list reuse, struct members, struct arrays)
    groups = [(f"yd{i}{'p' if ap else 'n'}", ap, g) for i, g in enumerate(L.yaml_directed()) for ap in (True, False)]
    for i in range(1500 if deep else 250):
        groups.append((f"yr{i}", rng.random() < 0.7, L.yaml_random(rng)))
    _feed_yaml(res, groups)
    # gcc as the C compiler of the property statement, on a sample of accepted structs
    keys = sorted(builts)
    rng.shuffle(keys)
    probe = []
    for k in keys[: (1500 if deep else 150)]:
        _blk, b = L.run_case(k, *builts[k])
        if b is not None and len(b.sdf.fields) > 0:
            probe.append(b)
    bad = L.gcc_probe(probe)
    res.extra["gcc_probed"] = len(probe)
    for name, got, want in bad:
        res.failures.append(C.Failure(clause="gcc_layout_differs", case={"struct": name, "gcc": got, "recorded": want},
                                      detail=f"gcc lays out {name} as {got}, parser recorded {want}"))


def replay(body: Dict[str, Any]) -> int:
    case = body.get("case") or (body.get("first_corr_diff") or {}).get("case")
    if case and "yaml_group" in case:
        defs = [(n, b if isinstance(b, (str, int)) else [tuple(m) for m in b], k) for n, b, k in case["yaml_group"]]
        bad = 0
        for cid, blk in L.run_yaml_group("replay", case["auto_pad"], defs, bool(case.get("parser_reused"))):
            out = C.run_driver("layout", blk)
            print("\n".join(blk)); print("\n".join(out))
            bad += any(" fail" in o or "CORR diff" in o for o in out)
        return 1 if bad else 0
    if not case or "spec" not in case:
        print("nothing replayable in this file"); return 2
    spec = [tuple(x) if not isinstance(x[1], list) else ("s", x[1], x[2]) for x in case["spec"]]
    blk, _ = L.run_case("replay", case["auto_pad"], _tuplify(case["spec"]))
    out = C.run_driver("layout", blk)
    print("\n".join(blk)); print("\n".join(out))
    return 1 if any(" fail" in o or "CORR diff" in o for o in out) else 0


def _tuplify(spec):
    return [(k, _tuplify(w) if k == "s" else w, l) for k, w, l in spec]
