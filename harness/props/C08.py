"""C08 — client read path is faithful, filtered and self-resynchronising (model M3)."""
from __future__ import annotations

import multiprocessing as mp
import os
from typing import Any, Dict, List

from .. import common as C
from .. import read_corr as R

PROP = "C08"
DRIVERS = ["drv_clientread"]
LEAN_TARGETS = ["Pyrtma.Props.C08"]
LEVEL = "proof"
MATCHERS: Dict[str, Any] = {}
TRUSTED = [
    "Lean 4.33.0 kernel", "axioms: propext, Classical.choice, Quot.sound only (audited by #print axioms)",
    "harness/read_corr.py: FakeSock/FakeSelect stand for CPython socket/select (MSG_WAITALL short only at FIN, "
    "ConnectionResetError at RST), differential testing of Model/ClientRead.lean vs pyrtma.client.Client.read_message; "
    "for several sessions also pyrtma.client.socket (hands out the next scripted FakeSock) and pyrtma.client.time (a clock "
    "that moves only while a select waits out its timeout): Model/ClientReadLife.lean vs Client.connect / disconnect / "
    "send_signal / read_message",
]


def _work(chunk):
    C.use_repo()
    out = []
    for cid, case in chunk:
        try:
            out.append((cid, (R.run_life_case if case.get("life") else R.run_case)(cid, case), None))
        except (R.WouldBlock, R.Hang) as e:
            out.append((cid, None, f"{type(e).__name__} escaped"))
        except Exception as e:  # noqa: BLE001
            out.append((cid, None, f"{type(e).__name__}: {e}"))
    return out


def _run_cases(cases: List[Any]) -> List[Any]:
    n = min(max(1, (os.cpu_count() or 2) - 1), 12)
    if len(cases) < 400 or n == 1:
        return _work(cases)
    size = max(50, len(cases) // (n * 4))
    chunks = [cases[i:i + size] for i in range(0, len(cases), size)]
    ctx = mp.get_context("fork")
    with ctx.Pool(n) as pool:
        res = pool.map(_work, chunks)
    return [x for r in res for x in r]


def _feed(res: C.Result, cases: List[Any]):
    done = _run_cases(cases)
    lines: List[str] = []
    meta: Dict[str, Any] = {}
    bycid = dict(cases)
    for cid, blk, err in done:
        if blk is None:
            raise C.MachineryError(f"harness failed on case {cid}: {err}")
        lines += blk
        meta[cid] = blk
    out = C.parse_driver(C.run_driver("clientread", lines))
    ex = res.extra
    for cid, blk in meta.items():
        r = out.get(cid)
        if r is None:
            raise C.MachineryError(f"driver gave no answer for case {cid}")
        case = bycid[cid]
        obs = [l for l in blk if l.startswith("OBS ")]
        kinds = [o.split()[3].split(":")[0] for o in obs]
        life = bool(case.get("life"))
        tag = case.get("tag", "?").split(":")[0]
        ex.setdefault("generators", {}).setdefault(tag, 0)
        ex["generators"][tag] += 1
        res.traces_validated += 1
        for k in kinds:
            ex.setdefault("outcomes", {}).setdefault(k, 0)
            ex["outcomes"][k] += 1
        if life:
            cobs = [l.split() for l in blk if l.startswith("COBS ")]
            res.note_case(blk[1:], nontrivial=len(cobs) >= 1)
            for t in cobs:
                ex.setdefault("life_connect_or_send_outcomes", {}).setdefault(t[3].split(":")[0], 0)
                ex["life_connect_or_send_outcomes"][t[3].split(":")[0]] += 1
            ex["life_sessions"] = ex.get("life_sessions", 0) + sum(1 for l in blk if l == "CALL connect")
            jc = {"case": R.life_to_json(case), "protocol": blk}
        else:
            res.note_case(blk[1:], nontrivial=len(case["frames"]) >= 1)
            ex.setdefault("ends", {}).setdefault(case["end"] + ("+tail" if case["tail"] else ""), 0)
            ex["ends"][case["end"] + ("+tail" if case["tail"] else "")] += 1
            jc = {"case": R.to_json(case), "protocol": blk}
        for d in r["corr"]:
            res.corr_diffs.append({"name": "corr:M3/sessions" if life else "corr:M3/read_message", "diff": d, "case": jc})
        for v in r["props"].get(PROP, []):
            ex.setdefault("verdicts", {}).setdefault(v.split()[0], 0)
            ex["verdicts"][v.split()[0]] += 1
            if v.startswith("fail"):
                cl = v[5:]
                res.failures.append(C.Failure(clause=cl.split()[0], case=jc,
                                              detail=f"{cl}: impl observations {obs}",
                                              finding=C.match_finding(PROP, cl, jc, MATCHERS)))
        if life:
            if tag == "life-random" and len(set(kinds)) >= 3:
                res.sample({"tag": case.get("tag"), "calls": [l for l in blk if l.startswith("CALL")][:12],
                            "impl": [" ".join(l.split()[:4]) for l in blk if l.split()[0] in ("OBS", "COBS", "UOBS")][:12],
                            "verdicts": r["props"]}, cap=8)
        elif len(case["frames"]) >= 2 and len(set(kinds)) >= 3:
            res.sample({"tag": case.get("tag"), "calls": [l for l in blk if l.startswith("CALL")],
                        "impl": [" ".join(o.split()[:4]) for o in obs], "verdicts": r["props"]})


def cases_for(res: C.Result, deep: bool):
    rng = C.rng_for(res.seed, "C08" + ("deep" if deep else ""))
    cases = []
    n = 0

    def add(c):
        nonlocal n
        cases.append((f"k{n}", R.normalise(c)))
        n += 1

    import json
    for f in sorted((C.CORPUS / PROP).glob("*.json")):      # witnesses of past failures first
        add(R.from_json(json.loads(f.read_text())))
    for c in R.exhaustive(4 if deep else 3, 3 if deep else 2):
        add(c)
    for c in R.sub_changes(False):
        add(c)
    for c in R.def_changes():
        add(c)
    if deep:
        for c in R.sub_changes(True):
            add(c)
    for _ in range(60000 if deep else 10000):
        add(R.rand_case(rng))
    for _ in range(20000 if deep else 3000):
        add(R.rand_case(rng, malformed=True))
    # several sessions of one client object (second layer of M3): connect / disconnect / lost connections between reads
    def addl(c):
        nonlocal n
        cases.append((f"k{n}", R.normalise_life(c)))
        n += 1
    for c in R.life_directed():
        addl(c)
    for c in R.life_exhaustive(deep):
        addl(c)
    for _ in range(30000 if deep else 6000):
        addl(R.life_rand_case(rng))
    return cases


def run(res: C.Result, deep: bool):
    cases = cases_for(res, deep)
    res.rule = ("exhaustive sequences of <= %d frames over 12 frame kinds (subscribed / unsubscribed / ACK / unknown / "
                "size+ / size- / wrong version / zero version / signals; 7 core kinds at length 4) x timeout class {None,0,>0,<0} x ack x "
                "sync_check x {FIN, idle}; cut at every byte offset of the last frame of sequences <= %d x {FIN, RST}; "
                "3-frame queues x subscription change between reads; 3-frame queues x a change of the local definition table "
                "after the first read (a type registered again larger / smaller / with another hash through @message_def, a "
                "definition added for an unknown type, a definition removed, three at once) x sync_check - every read is "
                "judged against the table of its time; seeded random queues of <= 8 frames with "
                "subscription changes (and, 1 in 25 reads, a definition-table change), both header layouts, random segmenting; malformed streams (random bytes, "
                "negative / huge lengths, boundary type ids); a case is non-trivial when it has >= 1 whole frame.  "
                "Several sessions of one Client object (real connect() / disconnect() / send_signal on scripted sockets "
                "handed out by a socket shim): directed (a first session subscribed to a type or to all, ended by "
                "disconnect / EOF under a read / reset under a send / connect() while connected, then a second connection "
                "carrying the handshake ACKs followed by frames of the old types; reads before any connect; handshakes "
                "without ACK, cut, with undecodable frames before the ACK); exhaustive second sessions (<= %d frames before "
                "the ACK over 5 kinds, <= 2 after) x 4 endings x 2 old subscription states x 3 read argument classes; "
                "seeded random histories of <= 4 sessions with subscription changes, sends on dead connections, "
                "disconnects, both header layouts, random segmenting"
                % ((4, 3, 2) if deep else (3, 2, 1)))
    res.assumptions.append("FakeSock contract: recv*(MSG_WAITALL) short only at FIN, ConnectionResetError at RST "
                           "(then EOF), blocking on an idle peer reported as outcome `blocked`")
    for i in range(0, len(cases), 30000):
        _feed(res, cases[i:i + 30000])
    res.extra["cases_total"] = len(cases)
    # the same property on a second session of one Client object (reconnect after disconnect / lost connection)
    C.use_repo()
    from .. import client_entry as E
    rr = E.check_reconnect_state()
    res.extra["reconnect_cases"] = rr["cases"]
    res.evaluations += rr["cases"]
    for f in rr["failures"]:
        if f["property"] == PROP:
            res.failures.append(C.Failure(clause="second_session: " + f["what"][:160], case={"client_reconnect": f},
                                          detail=f["what"]))
    if deep:
        # the FakeSock contract against real loopback TCP (FIN strictly, RST end state only)
        C.use_repo()
        smoke = []
        for k in ("goodS", "unknown", "sizePlus", "goodU"):
            h, p = R.frame(k, False, 7)
            whole = h + p
            for off in (0, 1, 20, 47, 48, len(whole) - 1):
                if off >= len(whole):
                    continue
                for end in ("fin", "rst"):
                    smoke.append({"frames": [R.frame("goodU", False, 1), R.frame("goodS", False, 2)],
                                  "tail": whole[:off], "end": end, "sub": (False, R.SUB0),
                                  "calls": R.reads(4, "pos", False, True), "tag": f"tcp:{k}@{off}:{end}"})
        try:
            rs = R.tcp_smoke(smoke)
        except OSError as e:
            res.extra["tcp_smoke"] = f"skipped: {e}"
            rs = []
        bad = [r for r in rs if not r["ok"]]
        if rs:
            res.extra["tcp_smoke"] = {"runs": len(rs), "agree": len(rs) - len(bad),
                                      "fin_runs": sum(1 for r in rs if r["end"] == "fin")}
        for r in bad[:3]:
            res.corr_diffs.append({"name": "corr:FakeSock/tcp", "diff": f"real={r['real']} fake={r['fake']}",
                                   "case": {"tag": r["tag"]}})


def replay(body: Dict[str, Any]) -> int:
    _c = body.get("case") or {}
    if "client_reconnect" in _c:
        C.use_repo()
        from .. import client_entry as E
        want = _c["client_reconnect"]
        bad = [f for f in E.check_reconnect_state()["failures"] if f["property"] == PROP and
               all(f.get(k) == want.get(k) for k in ("first_session_ended_by", "subscribed_to_all", "timecode"))]
        print(bad or "no failure")
        return 1 if bad else 0
    jc = body.get("case") or (body.get("first_corr_diff") or {}).get("case")
    if not jc or "case" not in jc:
        print("nothing replayable in this file")
        return 2
    if jc["case"].get("life"):
        blk = R.run_life_case("replay", R.life_from_json(jc["case"]))
    else:
        blk = R.run_case("replay", R.from_json(jc["case"]))
    out = C.run_driver("clientread", blk)
    print("\n".join(blk))
    print("\n".join(out))
    return 1 if any(" fail" in o or "CORR diff" in o for o in out) else 0
