"""C06 — served by the manager model M1 (see harness/mgr_props.py, lean/Pyrtma/Props/C06.lean)."""
from .. import common as C
from .. import mgr_props as MP

PROP = "C06"
# the client half of the dynamic-id sentence runs on the M2 life-cycle model, the option plumbing on Model/ClientEntry.lean
DRIVERS = list(MP.DRIVERS) + ["drv_clientsub", "drv_cliententry"]
ENTRY_TARGET = "Pyrtma.Props.C06Entry"       # audited next to Props/C06.lean (theorems of the client-side models)
LEAN_TARGETS = ["Pyrtma.Props.C06"]
LEVEL = "proof"
MATCHERS = {}


def run(res: C.Result, deep: bool):
    MP.run_for(PROP, res, deep, MATCHERS)
    # last clause of C06: options reach the wire as named through Client.connect and client_context (real Client, fake socket)
    from .. import client_entry as E
    r = E.check_entry_points()
    res.evaluations += r["cases"]
    res.extra["client_entry_cases"] = r["cases"]
    for f in r["failures"]:
        res.failures.append(C.Failure(clause="options_honoured: " + f["what"], case={"client_entry": f},
                                      detail=f"{f['entry']}({f['options']}): {f['what']}",
                                      finding=C.match_finding(PROP, f["what"], f, MATCHERS)))
    _client_life(res, deep)
    _entry_model(res)
    _entry_theorems(res)


def _entry_theorems(res: C.Result):
    """build and audit Props/C06Entry.lean (option plumbing + client identity theorems) like a Props/Cnn.lean"""
    ok, log = C.lake_build([ENTRY_TARGET])
    if not ok:
        res.broken.append("lean-build: " + ", ".join(C.failed_modules(log)[:4] or [ENTRY_TARGET]))
        return
    aud = C.audit("C06Entry")
    res.extra["entry_theorems"] = {t: a for t, a in aud.get("theorems", {}).items()}
    res.extra["entry_theorems_discharged"] = sum(1 for a in aud.get("theorems", {}).values()
                                                 if all(x in C.ALLOWED_AXIOMS for x in a))
    for b in aud.get("bad", []):
        res.broken.append("audit(C06Entry): " + b)
    if not aud.get("theorems"):
        res.broken.append("audit(C06Entry): no theorems found")


def _entry_model(res: C.Result):
    """the model side of `check_entry_points`: for every call shape x every combination of option values, the payload
    Model/ClientEntry.lean computes from the *actuals as written* is compared with the frames the real Client wrote (CORR),
    and the Spec `honoured` (each option equals the field of the same name) is evaluated on the real frames (PROP)."""
    from .. import client_entry as E
    cases = E.entry_model_cases()
    lines = [l for c in cases for l in c["protocol"]]
    out = C.parse_driver(C.run_driver("cliententry", lines))
    shapes = {}
    for c in cases:
        r = out.get(c["id"])
        if r is None:
            raise C.MachineryError(f"driver gave no answer for entry case {c['id']}")
        res.evaluations += 1
        shapes[c["label"]] = shapes.get(c["label"], 0) + 1
        jc = {"client_entry_model": {k: c[k] for k in ("label", "kind", "timecode", "options", "calls")},
              "protocol": c["protocol"]}
        for d in r["corr"]:
            res.corr_diffs.append({"name": "corr:M2b/options", "diff": d[:600], "case": jc})
        for v in r["props"].get(PROP, []):
            if v.startswith("fail"):
                res.failures.append(C.Failure(clause="options_honoured(model): " + v[5:], case=jc,
                                              detail=f"{c['label']}({c['options']}): {v[5:]}",
                                              finding=C.match_finding(PROP, v[5:], jc, MATCHERS)))
    res.extra["entry_model_cases"] = shapes


def _client_life(res: C.Result, deep: bool):
    """"A client asking for id 0 ... learns it from the acknowledgement", client side, over several sessions of one Client
    object: the real Client against the real manager, compared with Model/ClientLife.lean (identity projection) and judged
    by the clauses `lifeC06` of Spec/ClientLife.lean (theorems: Props/C02.lean connect_requests_created_id,
    reported_id_is_acked_id, dynamic_id_fresh)."""
    from .. import client_corr as K
    rng = C.rng_for(res.seed, "C06life" + ("deep" if deep else ""))
    cases = [(f"l{i}", c) for i, c in enumerate(K.life_id_cases(rng, 1500 if deep else 300))]
    lines = []
    blks = {}
    for cid, case in cases:
        try:
            blk = K.run_life_case(cid, case)
        except C.MachineryError:
            raise
        except BaseException as e:  # noqa: BLE001
            if isinstance(e, (KeyboardInterrupt, SystemExit)):
                raise
            res.failures.append(C.Failure(clause="harness_could_not_complete_case", case={"client_life": case},
                                          detail=f"life-cycle case {cid}: {type(e).__name__}: {e}"))
            continue
        blks[cid] = blk
        lines += blk
    out = C.parse_driver(C.run_driver("clientsub", lines))
    n_conn = 0
    for cid, case in cases:
        if cid not in blks:
            continue
        r = out.get(cid)
        if r is None:
            raise C.MachineryError(f"driver gave no answer for life-cycle case {cid}")
        res.evaluations += 1
        n_conn += sum(1 for l in blks[cid] if l.startswith("LPH ") and " R - " not in l)
        jc = {"client_life": case, "protocol": blks[cid]}
        for d in r["corr"]:
            res.corr_diffs.append({"name": "corr:M2/life-cycle-ids", "diff": d[:1500], "case": jc})
        for v in r["props"].get(PROP, []):
            if v.startswith("fail"):
                res.failures.append(C.Failure(clause="client_identity: " + v[5:].split()[0], case=jc, detail=v[5:],
                                              finding=C.match_finding(PROP, v[5:], jc, MATCHERS)))
    res.extra["client_life_cases"] = len(blks)
    res.extra["client_life_handshakes"] = n_conn


def replay(body):
    case = body.get("case") or (body.get("first_corr_diff") or {}).get("case") or {}
    if "client_entry" in case:
        from .. import client_entry as E
        C.use_repo()
        r = E.check_entry_points()
        want = case["client_entry"]
        bad = [f for f in r["failures"] if f["entry"] == want["entry"] and f["options"] == want["options"]]
        for f in bad:
            print(f)
        return 1 if bad else 0
    if "client_entry_model" in case:
        from .. import client_entry as E
        C.use_repo()
        want = case["client_entry_model"]
        hit = [c for c in E.entry_model_cases() if all(c[k] == want[k] for k in ("label", "timecode", "options"))]
        lines = [l for c in hit for l in c["protocol"]]
        out = C.run_driver("cliententry", lines)
        print("\n".join(lines))
        print("\n".join(out))
        return 1 if any("PROP C06 fail" in o or "CORR diff" in o for o in out) else 0
    if "client_life" in case:
        from .. import client_corr as K
        C.use_repo()
        c = case["client_life"]
        c = dict(c, ops=[tuple(o) for o in c["ops"]], others=[tuple(o) for o in c.get("others", [])])
        blk = K.run_life_case("replay", c)
        out = C.run_driver("clientsub", blk)
        print("\n".join(blk))
        print("\n".join(out))
        return 1 if any("PROP C06 fail" in o or "CORR diff" in o for o in out) else 0
    return MP.replay(PROP, body)
