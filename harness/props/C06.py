"""C06 — served by the manager model M1 (see harness/mgr_props.py, lean/Pyrtma/Props/C06.lean)."""
from .. import common as C
from .. import mgr_props as MP

PROP = "C06"
DRIVERS = MP.DRIVERS
LEAN_TARGETS = ["Pyrtma.Props.C06"]
LEVEL = "proof"
MATCHERS = {}


def run(res: C.Result, deep: bool):
    MP.run_for(PROP, res, deep, MATCHERS)
    # last clause of C06: options reach the wire as named through Client.connect and client_context (real Client, fake socket)
    from .. import client_entry as E
    r = E.check_entry_points()
    res.evaluations += r["cases"]
    res.extra["client_entry_cases"] = r["cases"]
    for f in r["failures"]:
        res.failures.append(C.Failure(clause="options_honoured: " + f["what"], case={"client_entry": f},
                                      detail=f"{f['entry']}({f['options']}): {f['what']}",
                                      finding=C.match_finding(PROP, f["what"], f, MATCHERS)))


def replay(body):
    case = body.get("case") or {}
    if "client_entry" in case:
        from .. import client_entry as E
        C.use_repo()
        r = E.check_entry_points()
        want = case["client_entry"]
        bad = [f for f in r["failures"] if f["entry"] == want["entry"] and f["options"] == want["options"]]
        for f in bad:
            print(f)
        return 1 if bad else 0
    return MP.replay(PROP, body)
