"""C16 — deterministic compilation; combined-YAML round trip; shipped core_defs.py is current (models M9 + Gen)."""
from __future__ import annotations

import shutil
import tempfile
from pathlib import Path
from typing import Any, Dict

from .. import common as C
from .. import emit_corr as E
from .. import emit_gen as G
from .. import emit_run as R

PROP = "C16"
DRIVERS = ["drv_emit"]
LEAN_TARGETS = ["Pyrtma.Props.C16"]
LEVEL = "proof"
WANT = {"probes": False, "determinism": True, "roundtrip": True}

MATCHERS: Dict[str, Any] = {
    # the combined file is re-read section by section (aliases before structs before messages): a closure whose
    # alias targets a struct or whose struct contains a message cannot be re-parsed
    # (the clause name carries the Lean predicate: `noFwdRef` of Spec/Emit.lean is false on the closure — the class the
    # theorem `reparse_fails_iff_forward_ref` proves to be exactly the failing one; the structural test on the closure
    # is kept as a second, independent witness)
    "C16-F2": lambda clause, case: clause == "combined_roundtrip_forward_ref" and
    (G.has_alias_of_struct(case) or G.has_struct_using_message(case)),
}


def shipped_core_current() -> Dict[str, Any]:
    """regenerate core_defs.py the way build_core_defs.sh does and compare with the shipped file, byte for byte"""
    C.use_repo()
    import os
    tmp = Path(tempfile.mkdtemp(prefix="pyrtma_verif_core_"))
    saved = os.dup(2)
    dn = os.open(os.devnull, os.O_WRONLY)
    os.dup2(dn, 2)                      # `black` reports on the real stderr
    try:
        src = C.REPO / "src" / "pyrtma"
        # exactly as build_core_defs.sh does: from src/pyrtma, with the relative path core_defs/core_defs.yaml
        oc, err = E.real_compile({"auto_pad": True, "coredefs": False}, Path("core_defs") / "core_defs.yaml", tmp,
                                 cwd=src, out_name="core_defs", python=True)
        if oc != ["ok"]:
            return {"ok": False, "why": "compile of the shipped core YAML failed: " + err}
        new = (tmp / "core_defs.py").read_text()
        old = (src / "core_defs.py").read_text()
        if new == old:
            return {"ok": True}
        import difflib
        d = list(difflib.unified_diff(old.splitlines(), new.splitlines(), "shipped core_defs.py", "regenerated", n=0, lineterm=""))
        return {"ok": False, "why": "\n".join(d[:12])}
    finally:
        os.dup2(saved, 2)
        os.close(saved)
        os.close(dn)
        shutil.rmtree(tmp, ignore_errors=True)


def judge(res: C.Result, results: Dict[str, Dict[str, Any]]):
    for cid, r in results.items():
        cl, obs = r["closure"], r["obs"]
        ndefs = sum(len(fs.get("structs", [])) + len(fs.get("messages", [])) for fs in cl["files"].values())
        res.note_case(cl["files"], nontrivial=ndefs >= 2)
        res.traces_validated += 1
        for d in r["corr"]:
            res.corr_diffs.append({"name": "corr:M9/" + d.split()[1], "diff": d, "case": cl})
        v = r["props"].get(PROP, "")
        k = v.split()[0] if v else "none"
        res.extra.setdefault("verdicts", {}).setdefault(k, 0)
        res.extra["verdicts"][k] += 1
        if v.startswith("fail"):
            clause = v[5:].split()[0]
            res.failures.append(C.Failure(clause=clause, case=cl, detail=f"{v[:200]} | re-parse: {obs.get('roundtrip', '')}"[:400],
                                          finding=R.match(PROP, clause, cl, MATCHERS)))
        if obs.get("nondeterministic"):
            res.failures.append(C.Failure(clause="byte_identical_recompile", case=cl,
                                          detail="outputs differ between two compiles: " + ", ".join(obs["nondeterministic"])[:300]))
        if len(res.samples) < 5 and ndefs >= 3:
            res.sample({"tags": cl.get("tags"), "outcome": obs.get("outcome"), "verdict": v, "roundtrip": obs.get("roundtrip"),
                        "nondeterministic": obs.get("nondeterministic")})


def run(res: C.Result, deep: bool):
    cases = R.build_cases(res.seed, deep, "emit", 500 if deep else 50, PROP)
    res.rule = ("the closures of C04/C15 (directed, exhaustive natives, malformed, seeded random multi-file); each accepted closure is "
                "compiled twice by the real compile() — absolute path from the harness cwd, then a relative path from another working "
                "directory into another output directory — and the five outputs compared byte for byte; the combined YAML is re-parsed "
                "by the real parser and its aliases/structs/messages (ids via REG lines: sizes, alignments, fields, lengths) compared "
                "with the original as sets; the shipped core_defs.py is regenerated and diffed; non-trivial = at least two definitions")
    results = R.run_closures(cases, WANT)
    R.describe(res, results)
    judge(res, results)
    core = shipped_core_current()
    res.extra["shipped_core_defs_py"] = "byte-identical to a fresh compile" if core["ok"] else core["why"]
    res.evaluations += 1
    if not core["ok"]:
        res.failures.append(C.Failure(clause="shipped_core_defs_py_current", case={"regenerate": "core_defs/core_defs.yaml"},
                                      detail=core["why"][:600]))


def replay(body: Dict[str, Any]) -> int:
    case = body.get("case") or {}
    if case.get("regenerate"):
        core = shipped_core_current()
        print(core)
        return 0 if core["ok"] else 1
    return R.replay_closure(PROP, body, WANT)
