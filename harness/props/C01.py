"""C01 — served by the manager model M1 (see harness/mgr_props.py, lean/Pyrtma/Props/C01.lean)."""
from .. import common as C
from .. import mgr_props as MP

PROP = "C01"
DRIVERS = MP.DRIVERS
LEAN_TARGETS = ["Pyrtma.Props.C01"]
LEVEL = "proof"
MATCHERS = {}


def run(res: C.Result, deep: bool):
    MP.run_for(PROP, res, deep, MATCHERS)
    # the client half of the property: real Client objects on both sides of the real manager (implementation only)
    from .. import route_e2e as E
    r = E.run(res.seed, deep)
    res.evaluations += r["cases"]
    res.extra["e2e_real_clients"] = {k: r[k] for k in ("cases", "messages", "clients")}
    for f in r["failures"][:20]:
        res.failures.append(C.Failure(clause=f["clause"], case=f["case"], detail=f["detail"][:600]))
    if deep:
        # the fake socket layer against real TCP: sequential scenarios through a real manager on localhost
        from .. import mgr_tcp as T
        try:
            r = T.compare()
        except Exception as e:  # noqa: BLE001  no network namespace / no free port: reported, not fatal
            res.extra["tcp_smoke"] = f"skipped: {type(e).__name__}: {e}"
            return
        res.extra["tcp_smoke"] = {k: r[k] for k in ("runs", "agree")} | ({"skipped": r["skipped"]} if r.get("skipped") else {})
        res.assumptions.append("fakes.py socket/select contract; validated against real localhost TCP on %d sequential "
                               "scenarios (%d agree)" % (r["runs"], r["agree"]))
        for d in r["diffs"][:3]:
            res.corr_diffs.append({"name": "corr:fakes/tcp", "diff": str(d)[:600], "case": {"tcp_scenario": d.get("scenario")}})


def replay(body):
    case = body.get("case") or {}
    if case.get("kind") == "e2e":
        from .. import route_e2e as E
        fails = E.run_case(case["case"])
        print("\n".join(fails) or "ok")
        return 1 if fails else 0
    return MP.replay(PROP, body)
