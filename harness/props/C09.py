"""C09 — field validation is sound, complete and atomic (model M4, Model/Validators.lean)."""
from __future__ import annotations

import base64
import pickle
from typing import Any, Dict, List

from .. import common as C
from .. import valid_corr as VC

PROP = "C09"
DRIVERS = ["drv_validators"]
LEAN_TARGETS = ["Pyrtma.Props.C09"]
LEVEL = "proof"
ISOLATE = True          # the real code runs in a forked child (check: `run_isolated`): a segfault still ends in a verdict
MATCHERS: Dict[str, Any] = {}
TRUSTED = [
    "Lean 4.33.0 kernel; axioms propext / Classical.choice / Quot.sound only (audited by #print axioms)",
    "harness/valid_corr.py: materialises abstract values as real Python objects, canonicalises read-backs, walks programs "
    "(real `with` / try / except) and reports the lexical disable depth of every executed assignment",
    "ctypes: field / array-element setters as modelled by `elemStore` / `storeMany` (element-wise, may stop half way); offset "
    "arithmetic for nested structs / struct-array elements (the whole message buffer is compared: projection `message`)",
    "float rounding: `roundMag` is opaque; the float theorems rest on the named hypotheses `RoundHyp` "
    "(Proofs/ValidatorsFloat.lean: nearest32/64, overflow32/64, widenExact, intExact, bigIntNarrow) - not proved, evaluated "
    "by the driver at the operands of every generated float case (`round_hyp_instances_evaluated`) and bit patterns "
    "compared with ctypes",
    "tyWF / valWF (Spec/ValidatorsExt.lean): a `bytes` consists of bytes, a ctypes / struct instance has the size of its "
    "class, a double has 64 bits, String(n) has n > 1, an array descriptor class goes with its kind of element validator",
]

FILLS = [b"", bytes([0x5A, 0x21, 0x7E, 0x33, 0x41, 0x62, 0x07])]


def _scalar_targets(W) -> List[Dict[str, Any]]:
    """(class, path, field) of every scalar-like field we assign to: top level and through nested structs"""
    out = []
    for name, fty, _ in W.fields(W.M):
        if fty[0] != "arr":
            out.append({"cls": "M", "path": [], "field": name, "fty": fty})
    for name, fty, _ in W.fields(W.structs[1]):
        out.append({"cls": "M", "path": ["st"], "field": name, "fty": fty})
        out.append({"cls": "M", "path": ["sa", 2], "field": name, "fty": fty})
    out.append({"cls": "O", "path": ["n", "st"], "field": "a", "fty": ("int", "i16")})
    out.append({"cls": "O", "path": ["na", 1], "field": "x", "fty": ("int", "i8")})
    out.append({"cls": "O", "path": ["na", 1, "sa", 0], "field": "f", "fty": ("flt", "f32")})
    out.append({"cls": "O", "path": [], "field": "n", "fty": ("strct", 3, None)})
    return out


def _array_targets(W) -> List[Dict[str, Any]]:
    out = []
    for name, fty, _ in W.fields(W.M):
        if fty[0] == "arr":
            out.append({"cls": "M", "path": [], "field": name, "fty": fty})
    out.append({"cls": "O", "path": ["n"], "field": "ai4", "fty": ("arr", "intArray", "i16", 4)})
    out.append({"cls": "O", "path": ["na", 0], "field": "sa", "fty": ("arr", "structArray", ("s", 1, 8), 3)})
    return out


def _fix_sizes(W, t):
    import ctypes
    f = t["fty"]
    if f[0] == "strct" and f[2] is None:
        t["fty"] = ("strct", f[1], ctypes.sizeof(W.structs[f[1]]))
    return t


def gen_cases(seed: int, deep: bool) -> List[Dict[str, Any]]:
    import ctypes
    W = VC.world()
    rng = C.rng_for(seed, "C09" + ("deep" if deep else ""))
    cases: List[Dict[str, Any]] = []

    def add(t, key, val, en=True, fill=None, alt=0, tag=""):
        cases.append({"cls": t["cls"], "path": t["path"], "field": t["field"], "fty": t["fty"], "key": key, "val": val,
                      "en": en, "fill": FILLS[len(cases) % 2] if fill is None else fill, "alt": alt, "gen": tag})

    S_SIZE = ctypes.sizeof(W.structs[1])
    scal = [_fix_sizes(W, t) for t in _scalar_targets(W)]
    arrs = _array_targets(W)

    # A. every scalar field x its boundary / wrong-type pool
    for t in scal:
        pool = VC.scalar_pool(t["fty"]) if t["fty"][0] != "strct" else (
            [("t", t["fty"][1], bytes((i * 7 + 1) % 256 for i in range(t["fty"][2]))), ("t", 2 if t["fty"][1] == 1 else 1, bytes(S_SIZE))]
            + VC.other_scalars() + [("i", 0), ("s", [97])])
        for i, s in enumerate(pool):
            add(t, ("whole",), ("S", s), alt=i, tag="A")
        add(t, ("whole",), ("L", "list", [("i", 1)]), tag="A")
        add(t, ("whole",), ("L", "tuple", []), tag="A")
    # B. single elements at every index
    for t in arrs:
        _, cls, vk, n = t["fty"]
        pool = VC.scalar_pool(VC.elem_fty(vk)) if not isinstance(vk, tuple) else (
            [("t", vk[1], bytes(range(1, vk[2] + 1))), ("t", 2 if vk[1] == 1 else 1, bytes(vk[2]))] + VC.other_scalars() + [("i", 0)])
        for idx in range(-n - 1, n + 1):
            full = deep or idx in (0, -1, n - 1, n, -n, -n - 1)
            for i, s in enumerate(pool):
                if full or rng.random() < 0.15:
                    add(t, ("idx", idx), ("S", s), alt=i, tag="B")
        xs = [VC.good_elem(rng, vk)]
        add(t, ("idx", 0), ("L", "list", xs), tag="B")
        add(t, ("idx", 0), ("L", "tuple", []), tag="B")
        add(t, ("bad",), ("S", VC.good_elem(rng, vk)), tag="B")
    # C. one bad element at every position, also next to NaN
    for t in arrs:
        _, cls, vk, n = t["fty"]
        for p in range(n):
            for bad in VC.bad_elems(vk):
                variants = ["plain"] + (["nan_all", "nan_before", "nan_after"] if vk in VC.FKS else [])
                for var in variants:
                    xs = [VC.good_elem(rng, vk) for _ in range(n)]
                    if var == "nan_all":
                        xs = [("f", VC.NAN)] * n
                    if var == "nan_before" and p > 0:
                        xs[p - 1] = ("f", VC.NAN)
                    if var == "nan_after" and p + 1 < n:
                        xs[p + 1] = ("f", VC.NAN | (1 << 63))
                    if var == "nan_before" and p == 0 and n > 1:
                        xs[n - 1] = ("f", VC.NAN)
                    xs = list(xs)
                    xs[p] = bad
                    for kind in (["list", "tuple", "gen"] if deep else [rng.choice(["list", "tuple"])]):
                        key = rng.choice([("whole",), ("slice", None, None, None)])
                        add(t, key, ("L", kind, xs), tag="C")
    # D. every slice shape of the 6-arrays
    pts = [None] + (list(range(-8, 9)) if deep else [-7, -6, -3, -1, 0, 1, 3, 5, 6, 7])
    steps = [None, 1, 2, 3, -1, -2, -3, 0, 7, -7]
    for fname in ("ai6", "af6", "ab6"):
        t = next(a for a in arrs if a["field"] == fname and a["cls"] == "M")
        _, cls, vk, n = t["fty"]
        for a in pts:
            for b in pts:
                for st in steps:
                    ln = len(range(*slice(a, b, st).indices(n))) if st != 0 else rng.randrange(0, n + 1)
                    key = ("slice", a, b, st)
                    good = [VC.good_elem(rng, vk) for _ in range(ln)]
                    add(t, key, VC.seq_value(rng, vk, good, kind=rng.choice(["list", "tuple", "carray"])), tag="D")
                    r = rng.random()
                    if ln > 0 and r < 0.5:
                        xs = list(good)
                        xs[rng.randrange(ln)] = rng.choice(VC.bad_elems(vk))
                        add(t, key, ("L", "list", xs), tag="D")
                    elif r < 0.7:
                        add(t, key, ("L", "list", good + [VC.good_elem(rng, vk)]), tag="D")
                    elif r < 0.85 and ln > 0:
                        add(t, key, ("L", rng.choice(["list", "tuple"]), good[:-1]), tag="D")
                    elif r < 0.95:
                        add(t, key, ("S", VC.good_elem(rng, vk)), tag="D")
                    else:
                        add(t, key, ("L", "gen", good), tag="D")
    # D2. slice shapes of struct arrays (top level and inside a nested struct-array element) and of a nested int array
    pts2 = [None, -5, -4, -3, -2, -1, 0, 1, 2, 3, 4, 5]
    for t in [a for a in arrs if a["field"] in ("sa", "ai4", "a_u64", "ad4") and (a["cls"] == "O" or a["field"] in ("sa", "a_u64", "ad4"))]:
        _, cls, vk, n = t["fty"]
        for a in pts2:
            for b in pts2:
                for st in (None, 1, 2, -1, -2, 3, -3, 0):
                    if not deep and rng.random() < 0.5:
                        continue
                    ln = len(range(*slice(a, b, st).indices(n))) if st != 0 else rng.randrange(0, n + 1)
                    good = [VC.good_elem(rng, vk) for _ in range(ln)]
                    add(t, ("slice", a, b, st), VC.seq_value(rng, vk, good, kind=rng.choice(["list", "tuple", "carray"])), tag="D2")
                    if ln > 0 and rng.random() < 0.4:
                        xs = list(good)
                        xs[rng.randrange(ln)] = rng.choice(VC.bad_elems(vk))
                        add(t, ("slice", a, b, st), ("L", "list", xs), tag="D2")
    # E. wrong lengths, strings / bytes as sequences
    for t in arrs:
        _, cls, vk, n = t["fty"]
        for ln in sorted({0, 1, n - 1, n, n + 1, 2 * n}):
            xs = [VC.good_elem(rng, vk) for _ in range(ln)]
            for kind in ("list", "tuple", "carray", "gen"):
                add(t, ("whole",), VC.seq_value(rng, vk, xs, kind=kind), tag="E")
                add(t, ("slice", None, None, None), VC.seq_value(rng, vk, xs, kind=kind), tag="E")
            add(t, ("whole",), ("S", ("y", bytes(rng.randrange(256) for _ in range(ln)))), alt=ln, tag="E")
            add(t, ("whole",), ("S", ("y", bytes(rng.randrange(128) for _ in range(ln)))), alt=ln + 1, tag="E")
            add(t, ("slice", 0, ln, None), ("S", ("y", bytes(rng.randrange(128) for _ in range(ln)))), tag="E")
            add(t, ("whole",), ("S", ("s", [97] * ln)), tag="E")
        add(t, ("whole",), ("S", VC.good_elem(rng, vk)), tag="E")
        add(t, ("whole",), ("S", ("o", "none")), tag="E")
        add(t, ("slice", 0, 1, None), ("S", ("y", b"A")), tag="E")
        add(t, ("idx", 0), ("S", ("y", b"AB")), tag="E")
    # F. other messages' array objects
    donors = []
    for c in (W.N, W.M):
        for name, fty, _ in W.fields(c):
            if fty[0] == "arr" and (c is W.N or name in ("a_i8", "a_u8", "ab6", "ai4", "af4", "ad4", "sa", "ai6", "af6", "ab4")):
                donors.append(fty)
    for t in arrs:
        _, cls, vk, n = t["fty"]
        for d in donors:
            _, dcls, dvk, dn = d
            same_ctype = dn == n and {dvk, vk} == {"u8", "byte"}      # c_ubyte * n on both sides, descriptor classes differ
            if not deep and (dcls, dvk, dn) != (cls, vk, n) and not same_ctype and rng.random() < 0.5:
                continue
            # struct donors: ASCII only (an error message that prints a struct decodes its char fields)
            raw = bytes(rng.randrange(128 if isinstance(dvk, tuple) else 256) for _ in range(VC.vk_esize(dvk) * dn))
            if dvk == "f32":
                raw = b"".join(__import__("struct").pack("<f", rng.choice([1.5, -2.0, 0.0, 3e38, 1e-40])) for _ in range(dn))
            add(t, ("whole",), ("A", dcls, dvk, dn, raw), tag="F")
            add(t, ("slice", None, None, None), ("A", dcls, dvk, dn, raw), tag="F")
            if dvk in VC.FKS:
                # float arrays of another message holding inf / NaN / subnormals (copied as they are by `msg.a = other.a`,
                # checked element by element when they go through a slice)
                pk = "<f" if dvk == "f32" else "<d"
                specials = [float("inf"), -float("inf"), float("nan"), 1e-45, -0.0, 3.0e38, 2.5]
                raw2 = b"".join(__import__("struct").pack(pk, rng.choice(specials)) for _ in range(dn))
                add(t, ("whole",), ("A", dcls, dvk, dn, raw2), tag="F")
                add(t, ("slice", None, None, None), ("A", dcls, dvk, dn, raw2), tag="F")
                add(t, ("slice", 0, dn, 1), ("A", dcls, dvk, dn, raw2), tag="F")
            add(t, ("whole",), ("A", dcls, dvk, dn, None), tag="F")
        add(t, ("whole",), ("A", cls, vk, n, None), tag="F")
        add(t, ("whole",), ("A", cls, vk, n + 1, None), tag="F")
        if VC.find_array_field(W, cls, vk, n):
            add(t, ("whole",), ("A", cls, vk, n, bytes(rng.randrange(128 if isinstance(vk, tuple) else 256) for _ in range(VC.vk_esize(vk) * n))
                                if vk != "f32" else bytes(VC.vk_esize(vk) * n)), tag="F")
    # G. validation switched off (correspondence only; shows the stores are not atomic by themselves)
    for t in scal:
        f = t["fty"]
        if f[0] in ("int", "byte"):
            for v in (300, -129, 2 ** 70, 0, 5):
                add(t, ("whole",), ("S", ("i", v)), en=False, tag="G")
            add(t, ("whole",), ("S", ("f", VC.f2b(1.5))), en=False, tag="G")
            add(t, ("whole",), ("S", ("y", b"A")), en=False, tag="G")
        if f[0] == "flt":
            for s in [("f", VC.f2b(1e39)), ("f", 0x7FF0000000000000), ("i", 10 ** 400), ("i", 3), ("s", [97])]:
                add(t, ("whole",), ("S", s), en=False, tag="G")
        if f[0] in ("str", "char"):
            n = 1 if f[0] == "char" else f[1]
            for s in ["", "a", "a" * (n - 1), "a" * n, "a" * (n + 1), "é"]:
                add(t, ("whole",), ("S", ("s", [ord(c) for c in s])), en=False, tag="G")
            add(t, ("whole",), ("S", ("i", 1)), en=False, tag="G")
            for s in VC.char_array_pool(n):      # ctypes char-array instances: refused by ctypes / by `value.encode`
                add(t, ("whole",), ("S", s), en=False, tag="G")
    for t in arrs:
        _, cls, vk, n = t["fty"]
        for _ in range(6 if deep else 3):
            xs = [VC.good_elem(rng, vk) for _ in range(n)]
            if n > 1:
                xs[rng.randrange(1, n)] = rng.choice(VC.bad_elems(vk))
            add(t, ("whole",), ("L", "list", xs), en=False, tag="G")
            add(t, ("idx", rng.randrange(-n, n)), ("S", VC.good_elem(rng, vk)), en=False, tag="G")
    # H. seeded random, incl. the shipped classes
    core = W.load_core()
    tops = [("M", W.M), ("O", W.O)] + [(W.tid_of[c], c) for c in core]
    for _ in range(40000 if deep else 6000):
        top_id, top = rng.choice(tops) if rng.random() < 0.6 else ("M", W.M)
        path: List[Any] = []
        cur = top
        fl = W.fields(cur)
        if not fl:
            continue
        name, fty, _ = rng.choice(fl)
        while fty[0] in ("strct", "arr") and rng.random() < 0.5:
            if fty[0] == "strct":
                path.append(name)
                cur = W.structs[fty[1]]
            elif isinstance(fty[2], tuple):
                path += [name, rng.randrange(fty[3])]
                cur = W.structs[fty[2][1]]
            else:
                break
            fl = W.fields(cur)
            if not fl:
                break
            name, fty, _ = rng.choice(fl)
        if not fl:
            continue
        t = {"cls": top_id, "path": path, "field": name, "fty": fty}
        fill = bytes(rng.randrange(256) for _ in range(rng.choice([0, 5, 13])))
        if fty[0] != "arr":
            if fty[0] == "strct":
                pool = [("t", fty[1], bytes(rng.randrange(256) for _ in range(fty[2]))), ("t", 1, bytes(S_SIZE)), ("o", "none")]
            else:
                pool = VC.scalar_pool(fty)
                if fty[0] in ("int", "byte") and rng.random() < 0.5:
                    pool = [VC.good_elem(rng, fty[1] if fty[0] == "int" else "byte")]
                if fty[0] == "flt" and rng.random() < 0.5:
                    pool = [("f", rng.getrandbits(64))]
                if fty[0] == "str" and rng.random() < 0.6:
                    ln = rng.randrange(0, fty[1] + 2)
                    pool = [("s", [rng.choice([0, 1, 9, 10, 34, 39, 92, 127, 128, 233, 0x20AC]) if rng.random() < 0.15
                                   else rng.randrange(32, 127) for _ in range(ln)])]
            add(t, ("whole",), ("S", rng.choice(pool)), fill=fill, alt=rng.randrange(2), tag="H")
            continue
        _, cls, vk, n = fty
        r = rng.random()
        if r < 0.3:
            key = ("whole",)
        elif r < 0.55:
            key = ("idx", rng.randrange(-n - 1, n + 1))
        elif r < 0.97:
            key = ("slice", rng.choice([None] + list(range(-n - 2, n + 3))), rng.choice([None] + list(range(-n - 2, n + 3))),
                   rng.choice([None, None, 1, 2, -1, -2, 3, 0, n, -n]))
        else:
            key = ("bad",)
        if key[0] in ("idx", "bad"):
            s = VC.good_elem(rng, vk) if rng.random() < 0.7 else rng.choice(VC.bad_elems(vk))
            if s == ("o", "nested"):
                s = ("o", "obj")      # a list is not a scalar right-hand side
            add(t, key, ("S", s), fill=fill, alt=rng.randrange(2), tag="H")
            continue
        ln = n if key[0] == "whole" else (len(range(*slice(*key[1:]).indices(n))) if key[3] != 0 else rng.randrange(n + 1))
        r = rng.random()
        if r < 0.12:
            ln = max(0, ln + rng.choice([-1, 1, 2]))
        xs = [VC.good_elem(rng, vk) for _ in range(ln)]
        if ln and r > 0.8:
            xs[rng.randrange(ln)] = rng.choice(VC.bad_elems(vk))
        add(t, key, VC.seq_value(rng, vk, xs), fill=fill, alt=rng.randrange(2), tag="H")
    return cases


# ----------------------------------------------------------------------------------------------------------
# programs: nested disable blocks, try/except, raise, views bound anywhere (model: Stmt / execList)
# ----------------------------------------------------------------------------------------------------------

def _prog_world(W):
    """per top class: assignable fields [(path, field, fty)] and bindable structs [path]"""
    out = {}
    for cname in ("M", "O"):
        top = getattr(W, cname)
        fields, structs = [], []

        def walk(cls, path, depth):
            for name, fty, _ in W.fields(cls):
                fields.append((list(path), name, fty))
                if depth >= 2:
                    continue
                if fty[0] == "strct":
                    structs.append(list(path) + [name])
                    walk(W.structs[fty[1]], list(path) + [name], depth + 1)
                elif fty[0] == "arr" and isinstance(fty[2], tuple):
                    for k in sorted({0, fty[3] - 1}):
                        structs.append(list(path) + [name, k])
                        walk(W.structs[fty[2][1]], list(path) + [name, k], depth + 1)

        walk(top, [], 0)
        out[cname] = (fields, structs)
    return out


def _rand_rhs(rng, fty, allow_whole: bool):
    """(key, value) for one assignment to a field of descriptor `fty`: valid about 60% of the time"""
    good = rng.random() < 0.6
    if fty[0] != "arr":
        if fty[0] == "strct":
            pool = [("t", fty[1], bytes(rng.randrange(128) for _ in range(fty[2])))] if good else \
                   [("t", 2 if fty[1] == 1 else 1, bytes(8)), ("o", "none"), ("i", 0)]
        elif good and fty[0] in ("int", "byte"):
            pool = [VC.good_elem(rng, fty[1] if fty[0] == "int" else "byte")]
        elif good and fty[0] == "flt":
            pool = [VC.good_elem(rng, fty[1])]
        elif good and fty[0] in ("str", "char"):
            n = 1 if fty[0] == "char" else fty[1] - 1
            pool = [("s", [rng.randrange(32, 127) for _ in range(rng.randint(1 if fty[0] == "char" else 0, n))])]
        else:
            # (`.other` stands for "no number at all": a Fraction has `__float__`, which the bare ctypes float setter -
            # reached inside a disable block - would accept)
            pool = [x for x in VC.scalar_pool(fty) if not (fty[0] == "flt" and x == ("o", "frac"))]
        return ("whole",), ("S", rng.choice(pool))
    _, cls, vk, n = fty
    r = rng.random()
    if r < 0.45 or (r < 0.6 and not allow_whole):
        key = ("idx", rng.randrange(-n, n) if good else rng.randrange(-n - 1, n + 1))
        s = VC.good_elem(rng, vk) if good else rng.choice(VC.bad_elems(vk))
        if s == ("o", "nested"):
            s = ("o", "obj")
        return key, ("S", s)
    if r < 0.6:
        key = ("whole",)
        ln = n
    else:
        key = ("slice", rng.choice([None] + list(range(-n - 1, n + 2))), rng.choice([None] + list(range(-n - 1, n + 2))),
               rng.choice([None, None, 1, 2, -1, -2, 3]))
        ln = len(range(*slice(*key[1:]).indices(n)))
    xs = [VC.good_elem(rng, vk) for _ in range(ln)]
    if not good:
        if ln and rng.random() < 0.7:
            xs[rng.randrange(ln)] = rng.choice(VC.bad_elems(vk))
        else:
            xs = xs + [VC.good_elem(rng, vk)]
    return key, VC.seq_value(rng, vk, xs, kind=rng.choice(["list", "tuple", "carray"]))


def gen_programs(seed: int, deep: bool) -> List[Dict[str, Any]]:
    W = VC.world()
    rng = C.rng_for(seed, "C09prog" + ("deep" if deep else ""))
    PW = _prog_world(W)
    progs = []
    for _ in range(3000 if deep else 500):
        cname = rng.choice(["M", "O"])
        fields, structs = PW[cname]
        arrays = [f for f in fields if f[2][0] == "arr"]
        bound: Dict[int, Any] = {}           # variables a bind statement exists for (it may not have run: NameError)
        counter = [0]

        def block(depth_left: int) -> List[Any]:
            stmts: List[Any] = []
            for _ in range(rng.randint(1, 5)):
                r = rng.random()
                if r < 0.18:
                    i = counter[0]
                    counter[0] += 1
                    if rng.random() < 0.6:
                        path, name, fty = rng.choice(arrays)
                        obj = {"path": path, "field": name, "fty": fty}
                    else:
                        obj = {"path": rng.choice(structs), "field": None, "fty": None}
                    bound[i] = obj
                    stmts.append(("bind", i, obj))
                elif r < 0.68:
                    if bound and rng.random() < 0.6:
                        i = rng.choice(sorted(bound))
                        obj = bound[i]
                        if obj["field"] is not None:            # a bound array object: view[key] = value
                            tgt, sub = obj, None
                            key, val = _rand_rhs(rng, obj["fty"], allow_whole=False)
                        else:                                   # a bound struct: view.f = value / view.f[key] = value
                            sub_fields = [f for f in fields if f[0] == obj["path"]]
                            path, name, fty = rng.choice(sub_fields)
                            tgt, sub = {"path": path, "field": name, "fty": fty}, name
                            key, val = _rand_rhs(rng, fty, allow_whole=True)
                        a = ("assign", i, sub, tgt, key, val)
                    else:
                        path, name, fty = rng.choice(fields)
                        key, val = _rand_rhs(rng, fty, allow_whole=True)
                        a = ("assign", "f", None, {"path": path, "field": name, "fty": fty}, key, val)
                    stmts.append(("try", [a]) if rng.random() < 0.55 else a)
                elif r < 0.86 and depth_left > 0:
                    stmts.append(("block", rng.random() < 0.25, block(depth_left - 1)))
                elif r < 0.94 and depth_left > 0:
                    stmts.append(("try", block(depth_left - 1)))
                elif r < 0.97:
                    stmts.append(("raise",))
            return stmts

        progs.append({"cls": cname, "fill": bytes(rng.randrange(256) for _ in range(rng.choice([0, 7, 11]))),
                      "stmts": block(4 if deep else 3)})
    # the shape of the seeded change, literally: a view bound inside a disable block, used after it
    for cname in ("M",):
        fields, _ = PW[cname]
        for path, name, fty in [f for f in fields if f[2][0] == "arr" and not f[0]]:
            _, cls, vk, n = fty
            bad = next(b for b in VC.bad_elems(vk) if b != ("o", "nested"))
            obj = {"path": path, "field": name, "fty": fty}
            progs.append({"cls": cname, "fill": b"", "stmts": [
                ("block", False, [("bind", 0, obj), ("assign", 0, None, obj, ("idx", 0), ("S", VC.good_elem(rng, vk)))]),
                ("try", [("assign", 0, None, obj, ("idx", 0), ("S", bad))]),
                ("bind", 1, obj),
                ("block", False, [("block", True, [("try", [("raise",)])]),
                                  ("assign", 1, None, obj, ("idx", n - 1), ("S", bad)) if vk not in VC.FKS and not isinstance(vk, tuple)
                                  else ("assign", 1, None, obj, ("idx", n - 1), ("S", VC.good_elem(rng, vk)))]),
                ("try", [("block", False, [("raise",)])]),
                ("try", [("assign", 1, None, obj, ("slice", None, None, -1), ("L", "list", [bad] * n))]),
                ("assign", "f", None, obj, ("idx", 0), ("S", VC.good_elem(rng, vk)))]})
    return progs


def _feed_progs(res: C.Result, deep: bool, extra=()):
    progs = list(extra) + gen_programs(res.seed, deep)
    lines: List[str] = []
    meta = {}
    tot = {"assign": 0, "outside": 0, "raised": 0, "via_view": 0, "ended_by_exception": 0, "max_depth": 0}
    for i, prog in enumerate(progs):
        cid = f"p{i}"
        C.crumb({"prog": _pack(prog)})
        try:
            blk, info = VC.run_prog(cid, prog)
        except Exception as e:  # noqa: BLE001
            _trouble(res, "corr:M4/program", f"the program could not be run on this tree ({type(e).__name__}: {e})",
                     {"prog": _pack(prog), "protocol": []})
            continue
        lines += blk
        meta[cid] = (prog, blk)
        for k in ("assign", "outside", "raised", "via_view"):
            tot[k] += info[k]
        tot["ended_by_exception"] += bool(info.get("ended_by_exception"))
        tot["max_depth"] = max(tot["max_depth"], info["max_depth"])
    out = C.parse_driver(C.run_driver("validators", lines))
    res.extra["programs"] = len(progs)
    res.extra["program_ops"] = dict(tot)
    for cid, (prog, blk) in meta.items():
        r = out.get(cid)
        if r is None:
            raise C.MachineryError(f"driver gave no answer for program {cid}")
        res.note_case(("prog", repr(prog["stmts"]), prog["cls"], bytes(prog["fill"])), nontrivial=True)
        res.traces_validated += 1
        rc = {"prog": _pack(prog), "protocol": [l if len(l) < 400 else l[:400] + "..." for l in blk]}
        for d in r["corr"]:
            res.corr_diffs.append({"name": "corr:M4/program", "diff": d, "case": rc})
        for v in r["props"].get(PROP, []):
            if v.startswith("fail"):
                res.failures.append(C.Failure(clause=v[5:].split(" ")[0], case=rc, detail=v[5:]))
    if progs and ("p%d" % (len(progs) // 3)) in meta:
        res.sample({"protocol": [l if len(l) < 300 else l[:300] + "..." for l in meta["p%d" % (len(progs) // 3)][1]]})


def _trouble(res: C.Result, name: str, what: str, case: Dict[str, Any]):
    """the code under test raised where the unchanged code never does (reading a field, creating a message, resolving a
    nested struct): a correspondence difference with the case as replay - never a crash of the harness"""
    n = res.extra["harness_trouble"] = res.extra.get("harness_trouble", 0) + 1
    if n <= 20:
        res.corr_diffs.append({"name": name, "diff": what[:400], "case": case})


def _pack(case: Dict[str, Any]) -> Dict[str, Any]:
    return {"pickle": base64.b64encode(pickle.dumps(case)).decode(),
            "text": {k: repr(v) for k, v in case.items() if k != "fill"}}


def _feed(res: C.Result, cases: List[Dict[str, Any]], start: int):
    lines: List[str] = []
    meta: Dict[str, Any] = {}
    for i, case in enumerate(cases):
        cid = f"c{start + i}"
        C.crumb({"case": _pack(case)})
        try:
            blk, info = VC.run_case(cid, case)
        except KeyError:
            continue  # no donor for this array shape
        except Exception as e:  # noqa: BLE001
            _trouble(res, "corr:M4/setField", f"the case could not be set up on this tree ({type(e).__name__}: {e})",
                     {"case": _pack(case), "protocol": []})
            continue
        lines += blk
        meta[cid] = (case, blk, info)
    out = C.parse_driver(C.run_driver("validators", lines))
    ex = res.extra
    for cid, (case, blk, info) in meta.items():
        r = out.get(cid)
        if r is None:
            raise C.MachineryError(f"driver gave no answer for case {cid}")
        tag = (r["props"].get("TAG") or ["?"])[0] + ("" if case["en"] else "-disabled")
        ex.setdefault("domain_x_outcome", {}).setdefault(tag, 0)
        ex["domain_x_outcome"][tag] += 1
        res.note_case((case["cls"], tuple(map(str, case["path"])), case["field"], case["key"], repr(case["val"]), case["en"],
                       bytes(case["fill"] or b"")), nontrivial=True)
        res.traces_validated += 1
        for h in r["props"].get("HYPS", []):
            ex["round_hyp_instances_evaluated"] = ex.get("round_hyp_instances_evaluated", 0) + int(h)
        ex.setdefault("generator", {}).setdefault(case["gen"], 0)
        ex["generator"][case["gen"]] += 1
        ex.setdefault("outcomes", {}).setdefault(info["outcome"], 0)
        ex["outcomes"][info["outcome"]] += 1
        fk = case["fty"][0] + (":" + case["fty"][1] if case["fty"][0] == "arr" else "")
        ex.setdefault("field_kinds", {}).setdefault(fk, 0)
        ex["field_kinds"][fk] += 1
        ex.setdefault("key_kinds", {}).setdefault(case["key"][0], 0)
        ex["key_kinds"][case["key"][0]] += 1
        if not case["en"] and info["outcome"] != "ok" and info["changed"]:
            ex["disabled_partial_writes_seen"] = ex.get("disabled_partial_writes_seen", 0) + 1
        rc = {"case": _pack(case), "protocol": blk}
        for d in r["corr"]:
            proj = ("readField" if "[readField]" in d else "message" if "[message]" in d else "canon" if "[canon]" in d
                    else "roundHyp" if "[roundHyp]" in d else "setField")
            ex.setdefault("corr_diffs_by_projection", {}).setdefault(proj, 0)
            ex["corr_diffs_by_projection"][proj] += 1
            res.corr_diffs.append({"name": "corr:M4/" + proj, "diff": d, "case": rc})
        for v in r["props"].get(PROP, []):
            if v.startswith("fail"):
                cl = v[5:]
                res.failures.append(C.Failure(clause=cl, case=rc, detail=f"{cl}: {' | '.join(blk[1:9])}",
                                              finding=C.match_finding(PROP, cl, case, MATCHERS)))
        if case["gen"] in ("C", "D", "F") and len(res.samples) < 4 and (start + int(cid[1:])) % 997 == 0:
            res.sample({"protocol": [l if len(l) < 300 else l[:300] + "..." for l in blk], "verdicts": r["props"]})
    return out


def _feed_ctx(res: C.Result, deep: bool, extra=()):
    hs = list(extra) + VC.ctx_histories(8 if deep else 6)
    lines: List[str] = []
    meta = {}
    for i, evs in enumerate(hs):
        cid = f"x{i}"
        info: Dict[str, Any] = {}
        C.crumb({"ctx": evs})
        try:
            blk = VC.run_ctx(cid, evs, info)
        except Exception as e:  # noqa: BLE001
            _trouble(res, "corr:M4/disable_message_validation",
                     f"the history could not be run on this tree ({type(e).__name__}: {e})", {"ctx": evs, "protocol": []})
            continue
        lines += blk
        meta[cid] = (evs, blk)
        for t in info.get("manager_raised", [])[:1]:
            # the model's context manager never raises by itself
            res.corr_diffs.append({"name": "corr:M4/disable_message_validation", "diff": t, "case": {"ctx": evs, "protocol": blk}})
    out = C.parse_driver(C.run_driver("validators", lines))
    res.extra["ctx_histories"] = len(hs)
    for cid, (evs, blk) in meta.items():
        r = out.get(cid)
        if r is None:
            raise C.MachineryError(f"driver gave no answer for case {cid}")
        res.note_case(("ctx", tuple(evs)), nontrivial=len(evs) >= 4)
        res.traces_validated += 1
        rc = {"ctx": evs, "protocol": blk}
        for d in r["corr"]:
            res.corr_diffs.append({"name": "corr:M4/disable_message_validation", "diff": d, "case": rc})
        for v in r["props"].get(PROP, []):
            if v.startswith("fail"):
                res.failures.append(C.Failure(clause=v[5:], case=rc, detail=f"{v[5:]}: events {evs} flags {blk[2]}"))
    if hs and ("x%d" % (len(hs) // 2)) in meta:
        res.sample({"protocol": meta["x%d" % (len(hs) // 2)][1]})


def _corpus():
    """minimised past failures (corpus/C09/*.json), replayed first on every run"""
    import json
    cs, ctx, progs = [], [], []
    d = C.CORPUS / PROP
    for f in sorted(d.glob("*.json")) if d.exists() else []:
        body = json.loads(f.read_text())["case"]
        if "ctx" in body:
            ctx.append(body["ctx"])
        elif "prog" in body:
            progs.append(pickle.loads(base64.b64decode(body["prog"]["pickle"])))
        else:
            cs.append(pickle.loads(base64.b64decode(body["case"]["pickle"])))
    return cs, ctx, progs


def run(res: C.Result, deep: bool):
    try:
        VC.world().load_core()
    except Exception as e:  # noqa: BLE001  (class creation runs the descriptors' __init__ / __set_name__ and the metaclass)
        res.broken.append(f"tie:M4: the message classes the harness assigns to cannot be created on this tree "
                          f"({type(e).__name__}: {e})"[:300])
        return
    ccases, cctx, cprogs = _corpus()
    res.extra["corpus_cases"] = len(ccases) + len(cctx) + len(cprogs)
    cases = ccases + gen_cases(res.seed, deep)
    res.rule = ("A: every scalar field (top level and through nested structs / struct arrays) x boundary and wrong-type pool; "
                "B: every index -n-1..n of every array x element pool; C: one bad element at every position of arrays of "
                "length 1..6 (floats also surrounded by / next to NaN); D: every slice (start, stop, step) shape of three "
                "6-arrays with right / wrong length and bad elements; D2: slice shapes of struct arrays, of arrays inside nested "
                "structs / struct-array elements; E: wrong lengths, str/bytes/generators/ctypes arrays as "
                "sequences; F: other messages' array objects (bound / unbound, same / other shape, float arrays holding inf / NaN / subnormals); G: the same stores with "
                "validation disabled (correspondence only); H: seeded random over the synthetic classes and every class of "
                "pyrtma.core_defs; CTX: every well-nested enter/exit(normal|exception) history up to %d events; PROG: seeded "
                "random programs (nested `with disable_message_validation(ignore)`, try/except, raise, array objects / "
                "sub-structures / struct-array elements bound at any point, assignments through them or through fresh "
                "attribute access, valid and invalid values) plus the literal shape 'view bound inside a block, used after it' "
                "for every array field. "
                "distinct by (class, path, field, key, value, enabled, prefill)" % (8 if deep else 6))
    for i in range(0, len(cases), 20000):
        _feed(res, cases[i:i + 20000], i)
    _feed_ctx(res, deep, cctx)
    _feed_progs(res, deep, cprogs)
    _threads(res)


def thread_probe() -> List[Dict[str, Any]]:
    """`with disable_message_validation():` switches validation off for the code inside the block — not for another thread
    that assigns at the same time (a MessageManager started in a background thread runs its whole loop inside such a
    block).  Returns the out-of-domain assignments that were accepted outside any block."""
    import threading
    C.use_repo()
    import pyrtma.core_defs as cd
    from pyrtma.validators import disable_message_validation
    inside, release = threading.Event(), threading.Event()
    bad: List[Dict[str, Any]] = []
    trouble: List[str] = []
    thread_probe.trouble = trouble

    def holder():
        try:
            with disable_message_validation():
                inside.set()
                release.wait(10)
        except Exception as e:  # noqa: BLE001  the context manager itself raised: an observation (reported as a
            # correspondence difference by `_threads`), the probe goes on without a block held by the other thread
            trouble.append(f"disable_message_validation raised {type(e).__name__} in the helper thread")
            inside.set()

    def attempts(who):
        m = cd.MDF_CONNECT_V2()
        for field, value in (("logger_status", 70000), ("mod_id", -40000), ("pid", 2 ** 40), ("name", "x" * 99),
                             ("logger_status", "one"), ("pid", 1.5)):
            try:
                setattr(m, field, value)
            except Exception:  # noqa: BLE001  refused: what the property demands
                continue
            try:
                stored = repr(getattr(m, field))[:20]
            except Exception as e:  # noqa: BLE001
                stored = f"<reading it raises {type(e).__name__}>"
            bad.append({"thread": who, "field": f"MDF_CONNECT_V2.{field}", "value": repr(value)[:20], "stored": stored})
    t = threading.Thread(target=holder, daemon=True)
    t.start()
    if not inside.wait(10):
        raise C.MachineryError("the helper thread never entered its block")
    try:
        attempts("main thread, another thread holds a disable block")
        w = threading.Thread(target=attempts, args=("second thread, another thread holds a disable block",), daemon=True)
        w.start(); w.join(10)
    finally:
        release.set()
        t.join(10)
    attempts("main thread, after the other thread left its block")
    return bad


def _threads(res: C.Result):
    bad = thread_probe()
    res.extra["thread_probe_assignments"] = 18
    res.evaluations += 18
    for t in getattr(thread_probe, "trouble", [])[:1]:
        res.corr_diffs.append({"name": "corr:M4/disable_message_validation", "diff": t, "case": {"thread_probe": {}}})
    for b in bad[:3]:
        res.failures.append(C.Failure(
            clause="validation_in_force_outside_disable_blocks: accepted while only another thread was inside a block",
            case={"thread_probe": b}, detail=f"{b['field']} = {b['value']} was accepted ({b['thread']}); it reads back {b['stored']}"))


def replay(body: Dict[str, Any]) -> int:
    if "thread_probe" in (body.get("case") or {}):
        bad = thread_probe()
        print(bad or "no assignment accepted")
        return 1 if bad else 0
    case = body.get("case") or (body.get("first_corr_diff") or {}).get("case")
    if not case:
        print("nothing replayable in this file")
        return 2
    if "ctx" in case:
        blk = VC.run_ctx("replay", case["ctx"])
    elif "prog" in case:
        blk, _ = VC.run_prog("replay", pickle.loads(base64.b64decode(case["prog"]["pickle"])))
    else:
        blk, _ = VC.run_case("replay", pickle.loads(base64.b64decode(case["case"]["pickle"])))
    out = C.run_driver("validators", blk)
    print("\n".join(blk))
    print("\n".join(out))
    return 1 if any(" fail" in o or "CORR diff" in o for o in out) else 0
