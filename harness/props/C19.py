"""C19 — served by the manager model M1 (see harness/mgr_props.py, lean/Pyrtma/Props/C19.lean)."""
from .. import common as C
from .. import mgr_props as MP

PROP = "C19"
DRIVERS = MP.DRIVERS
LEAN_TARGETS = ["Pyrtma.Props.C19"]
LEVEL = "proof"
MATCHERS = {}


def run(res: C.Result, deep: bool):
    MP.run_for(PROP, res, deep, MATCHERS)


def replay(body):
    return MP.replay(PROP, body)
