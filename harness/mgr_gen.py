"""Case generators for the manager model M1: structured random histories, a malformed stream, directed scenarios
(every crash path that was repaired, boundary sizes of the statistics messages, dynamic-id wrap, cuts at every byte
offset), and a probe suffix (a fresh publisher/subscriber pair must still be served after whatever happened)."""
from __future__ import annotations

import itertools
from typing import Any, Dict, Iterable, Iterator, List, Optional, Tuple

from . import mgr_corr as G

T = [5000, 5001, 5002]
I32MAX = 2 ** 31 - 1


def cdm():
    import pyrtma.core_defs as cd
    return cd


def probe(s: G.Script):
    """two new clients connect (dynamic ids), one subscribes, the other publishes: must work whatever came before"""
    cd = cdm()
    s.accept(2)
    a, b = s.nconn - 1, s.nconn
    s.round([s.rd(a, cd.MT_CONNECT, G.p_connect()), s.rd(b, cd.MT_CONNECT_V2, G.p_connect_v2(pid=99, name=b"probe"))], writable=[a, b])
    s.round([s.rd(b, cd.MT_SUBSCRIBE, G.p_i32(5999))], writable=[a, b])
    s.round([s.rd(a, 5999, b"probe-payload", src=77)], writable=[a, b])
    return s


def connect_n(s: G.Script, n: int, ids: Optional[List[int]] = None, loggers: Iterable[int] = ()):
    """accept n and CONNECT each (ids default 10, 11, ...)"""
    cd = cdm()
    base = s.nconn
    s.accept(n)
    for i in range(n):
        u = base + i + 1
        mid = (ids[i] if ids else 10 + i)
        s.round([s.rd(u, cd.MT_CONNECT, G.p_connect(logger=1 if (i + 1) in loggers else 0), src=mid)])
    return list(range(base + 1, base + n + 1))


# ----------------------------------------------------------------------------------------------------------------
# random structured histories
# ----------------------------------------------------------------------------------------------------------------

def random_script(rng, n_clients: int, n_rounds: int, malformed: float = 0.03, failp: float = 0.04,
                  big: bool = False, notice_heavy: bool = False) -> G.Script:
    cd = cdm()
    s = G.Script()
    conn_guess: Dict[int, int] = {}       # uid -> requested id (guess: connected)
    gone: set = set()
    subtypes = T + [cd.ALL_MESSAGE_TYPES, cd.MT_FAILED_MESSAGE, cd.MT_CLIENT_CLOSED, cd.MT_CLIENT_INFO,
                    cd.MT_TIMING_MESSAGE, cd.MT_MESSAGE_TRAFFIC, cd.MT_ACTIVE_CLIENTS, cd.MT_ACKNOWLEDGE,
                    cd.MT_RTMA_LOG_INFO, cd.MT_RTMA_LOG_ERROR, cd.MT_RTMA_LOG_WARNING]
    if notice_heavy:      # many listeners to the manager's own notices, frequent non-writability and failures
        subtypes = [5000, 5000, cd.MT_FAILED_MESSAGE, cd.MT_FAILED_MESSAGE, cd.MT_CLIENT_CLOSED, cd.MT_CLIENT_CLOSED,
                    cd.MT_CLIENT_INFO, cd.ALL_MESSAGE_TYPES, cd.MT_RTMA_LOG_ERROR, cd.MT_TIMING_MESSAGE]
    names = [b"", b"", b"a", b"b", b"message_manager", b"x" * 31]
    idpool = [0, 0, 0, 10, 11, 12, 12, 50, 100, 101, -1, 200, 1, 32767]

    def one_read(u: int) -> Dict[str, Any]:
        r = rng.random()
        if r < malformed:
            kind = rng.choice(["neg", "huge", "i32max", "cut", "errh", "errp", "stale", "hiname", "oddtype"])
            if kind == "neg":
                gone.add(u); return s.rd(u, rng.choice(T), b"", nbytes=-rng.choice([1, 2, 2 ** 31]))
            if kind == "huge":
                gone.add(u); return s.rd(u, rng.choice(T), b"", nbytes=2 ** 20 + rng.choice([1, 2, 5000]))
            if kind == "i32max":
                gone.add(u); return s.rd(u, rng.choice(T), b"", nbytes=I32MAX)
            if kind == "cut":
                pay = bytes(rng.randrange(256) for _ in range(rng.choice([0, 4, 44])))
                gone.add(u); return s.rd(u, rng.choice(T + [cd.MT_CONNECT_V2, cd.MT_SUBSCRIBE]), pay, cut=rng.randrange(0, 48 + max(len(pay), 1)))
            if kind == "errh":
                gone.add(u); return s.rd(u, rng.choice(T), b"abcd", err="hdr")
            if kind == "errp":
                gone.add(u); return s.rd(u, rng.choice(T), b"abcd", err="pay")
            if kind == "stale":       # control frame declaring fewer bytes than its structure: decodes stale buffer bytes
                return s.rd(u, rng.choice([cd.MT_SUBSCRIBE, cd.MT_UNSUBSCRIBE, cd.MT_CONNECT, cd.MT_CONNECT_V2, cd.MT_MODULE_READY, cd.MT_CLIENT_SET_NAME]),
                            bytes(rng.randrange(256) for _ in range(rng.choice([0, 1, 2]))))
            if kind == "hiname":
                gone.add(u)
                if rng.random() < 0.5:
                    return s.rd(u, cd.MT_CLIENT_SET_NAME, G.p_name(b"ab\xc3\xa9"))
                return s.rd(u, cd.MT_CONNECT_V2, G.p_connect_v2(mod_id=rng.choice([0, 20]), name=b"\xff\xfe"))
            return s.rd(u, rng.choice([-1, -5, -10000, -10001, 9999, 10000, 10001, I32MAX, -2 ** 31, cd.MT_FAILED_MESSAGE,
                                       cd.MT_RTMA_LOG_INFO, cd.MT_ACKNOWLEDGE, cd.MT_TIMING_MESSAGE]), b"zz", src=rng.choice([0, 10, -3]))
        if u not in conn_guess:
            rid = rng.choice(idpool)
            conn_guess[u] = rid
            lg = 1 if rng.random() < 0.2 else 0
            if rng.random() < 0.5:
                return s.rd(u, cd.MT_CONNECT, G.p_connect(logger=lg, daemon=rng.choice([0, 1])), src=rid)
            return s.rd(u, cd.MT_CONNECT_V2, G.p_connect_v2(logger=lg, daemon=rng.choice([0, 1]), allow_multiple=rng.choice([0, 0, 1]),
                                                           mod_id=rid, pid=rng.choice([0, 5, 123456, -7]), name=rng.choice(names)))
        r = rng.random()
        if r < 0.30:
            op = rng.choice([cd.MT_SUBSCRIBE, cd.MT_SUBSCRIBE, cd.MT_UNSUBSCRIBE, cd.MT_PAUSE_SUBSCRIPTION, cd.MT_RESUME_SUBSCRIPTION])
            return s.rd(u, op, G.p_i32(rng.choice(subtypes)))
        if r < 0.85:
            ids = [v for v in conn_guess.values() if v > 0] or [10]
            dest = rng.choice([0, 0, 0, 0, rng.choice(ids), rng.choice(ids), 100, 150, 200, 201, -1])
            host = rng.choice([0, 0, 0, 0, 0, 1, 5, 6, -1])
            size = rng.choice([0, 0, 1, 8, 104, 104, 65535 if big else 512])
            b0 = rng.randrange(256)
            pay = bytes((b0 + 7 * i) % 256 for i in range(size))
            return s.rd(u, rng.choice(T + T + [cd.ALL_MESSAGE_TYPES, 7777]), pay, src=rng.choice([0, conn_guess[u], 33]), dest=dest,
                        dest_host=host, src_host=rng.choice([0, 2]))
        if r < 0.88:
            gone.add(u); return s.rd(u, cd.MT_DISCONNECT)
        if r < 0.92:
            return s.rd(u, cd.MT_CLIENT_SET_NAME, G.p_name(rng.choice(names)))
        if r < 0.96:
            return s.rd(u, cd.MT_MODULE_READY, G.p_i32(rng.choice([1, 4321, -1])))
        return s.rd(u, rng.choice([cd.MT_CONNECT, cd.MT_CONNECT_V2]), G.p_connect_v2(mod_id=rng.choice(idpool)), src=rng.choice(idpool))

    plain_read = one_read

    def one_read(u: int) -> Dict[str, Any]:      # noqa: F811
        # control frames too carry destination fields (the manager has no use for them): any value, legal or not
        rd = plain_read(u)
        if "dest" not in rd and "nbytes" not in rd and "cut" not in rd and "err" not in rd and rng.random() < 0.2:
            rd["dest"] = rng.choice([0, 10, 200, 201, -1, 32767, -32768])
            rd["dest_host"] = rng.choice([0, 0, 5, 6, -1, 32767])
        return rd

    for _ in range(n_rounds):
        acc = s.nconn < n_clients and rng.random() < (0.6 if s.nconn < 2 else 0.25)
        cands = [u for u in range(1, s.nconn + 1) if u not in gone or rng.random() < 0.1]
        rng.shuffle(cands)
        readers = cands[: rng.choice([0, 1, 1, 1, 2, 2, 3])]
        reads = [one_read(u) for u in readers]
        n_after = s.nconn + (1 if acc else 0)
        allu = list(range(1, n_after + 1))
        w = allu if rng.random() < (0.25 if notice_heavy else 0.6) else [u for u in allu if rng.random() < 0.6]
        fail = {}
        if rng.random() < failp and allu:
            fail[rng.choice(allu)] = rng.choice(["hdr", "pay", "hdr", None])
        dt = rng.choice([0, 0, 0, 0, 0, 250, 500, 1000, 1250, 6000])
        s.round(reads, writable=w, dt=dt, fail=fail or None, accept=acc)
    return probe(s)


# ----------------------------------------------------------------------------------------------------------------
# directed scenarios
# ----------------------------------------------------------------------------------------------------------------

def directed() -> Iterator[Tuple[str, G.Script]]:
    cd = cdm()

    # --- the crash paths (C03); each followed by the probe pair
    for nb in (-2 ** 31, -1, 2 ** 20 + 1, I32MAX, 2 ** 20):
        s = G.Script(); connect_n(s, 2)
        if nb == 2 ** 20:      # the largest length the manager can read: 64 bytes arrive, then EOF
            s.round([s.rd(1, 5000, b"q" * 64, nbytes=nb)])
        else:
            s.round([s.rd(1, 5000, b"", nbytes=nb)])
        yield f"len_{nb}", probe(s)
    # the largest payload the manager accepts (its whole 1 MiB buffer), delivered in full and forwarded
    s = G.Script(); connect_n(s, 3, loggers=[3])
    s.round([s.rd(2, cd.MT_SUBSCRIBE, G.p_i32(5000))])
    s.round([s.rd(1, 5000, bytes((3 + 7 * i) % 256 for i in range(2 ** 20)))])
    s.round([s.rd(1, 5000, b"next")])
    yield "len_1048576_in_full", probe(s)
    for mt in (-2 ** 31, -10001, -10000, -1, 0, 1, 9999, 10000, 10001, cd.ALL_MESSAGE_TYPES, I32MAX - 1):
        s = G.Script(); connect_n(s, 2)
        s.round([s.rd(2, cd.MT_SUBSCRIBE, G.p_i32(cd.MT_TIMING_MESSAGE))])
        s.round([s.rd(1, mt, b"abc")]); s.round(dt=1000); s.round(dt=1000)
        yield f"type_{mt}_then_timing", probe(s)
    for nm in (b"\xc3\xa9", b"ok\xff", b"\x80" * 32, b"a\x00\xff", b"N" * 32, b"n" * 31):   # …, a name that fills the field
        s = G.Script(); s.accept(2)
        s.round([s.rd(1, cd.MT_CONNECT_V2, G.p_connect_v2(mod_id=12, name=nm))])
        s.round([s.rd(2, cd.MT_CONNECT, G.p_connect(), src=13)])
        s.round([s.rd(2, cd.MT_CLIENT_SET_NAME, G.p_name(nm))])
        yield f"name_{nm.hex()}", probe(s)
    # a client that hears the manager's own error log and whose socket is broken gets refused (double removal)
    for kind in ("badid", "setname", "v2name", "clash"):
        for lg in (cd.MT_RTMA_LOG_ERROR, cd.ALL_MESSAGE_TYPES, cd.MT_RTMA_LOG_INFO):
            s = G.Script(); s.accept(3)
            s.round([s.rd(2, cd.MT_CONNECT, G.p_connect(), src=11)])
            s.round([s.rd(3, cd.MT_SUBSCRIBE, G.p_i32(cd.MT_CLIENT_CLOSED))])
            s.round([s.rd(1, cd.MT_SUBSCRIBE, G.p_i32(lg))])
            bad = {"badid": lambda: s.rd(1, cd.MT_CONNECT, G.p_connect(), src=500),
                   "setname": lambda: s.rd(1, cd.MT_CLIENT_SET_NAME, G.p_name(b"\xff")),
                   "v2name": lambda: s.rd(1, cd.MT_CONNECT_V2, G.p_connect_v2(mod_id=5, name=b"\xff")),
                   "clash": lambda: s.rd(1, cd.MT_CONNECT, G.p_connect(), src=11)}[kind]()
            s.round([bad], fail={1: "hdr"})
            yield f"refused_listener_{kind}_{lg}", probe(s)
    # two (three) subscribers dead in one delivery, both orders, monitor subscribed to everything relevant
    for fm in ("hdr", "pay"):
        for watch in (cd.MT_CLIENT_CLOSED, cd.MT_FAILED_MESSAGE, cd.ALL_MESSAGE_TYPES):
            s = G.Script(); connect_n(s, 4)
            for u in (2, 3):
                s.round([s.rd(u, cd.MT_SUBSCRIBE, G.p_i32(5000))])
                s.round([s.rd(u, cd.MT_SUBSCRIBE, G.p_i32(cd.MT_CLIENT_CLOSED))])
                s.round([s.rd(u, cd.MT_SUBSCRIBE, G.p_i32(cd.MT_FAILED_MESSAGE))])
            s.round([s.rd(4, cd.MT_SUBSCRIBE, G.p_i32(watch))])
            s.round([s.rd(4, cd.MT_SUBSCRIBE, G.p_i32(5000))])
            s.round([s.rd(1, 5000, b"x" * 9, src=10)], fail={2: fm, 3: fm})
            yield f"two_dead_{fm}_{watch}", probe(s)
    # logger dies while acknowledgements are copied to it; one / two loggers
    for nlog in (1, 2):
        s = G.Script(); connect_n(s, 3, loggers=range(1, nlog + 1))
        s.round([s.rd(3, cd.MT_SUBSCRIBE, G.p_i32(5000))], fail={1: "hdr"})
        s.round([s.rd(3, cd.MT_SUBSCRIBE, G.p_i32(5001))], fail={2: "pay"} if nlog == 2 else None)
        yield f"logger_dies_on_ack_{nlog}", probe(s)
    # three loggers, two of them fail while an acknowledgement is copied to them: the FAILED_MESSAGE about the first reaches
    # (and kills) the second inside the first one's handling, so the outer walk over the logger snapshot meets a logger
    # that has already left and must go on to the third one (C19: the copy goes to every logger module)
    for fm in ("hdr", "pay"):
        for dead in ((1, 2), (2, 3), (1, 3)):
            for watch in (cd.MT_FAILED_MESSAGE, cd.ALL_MESSAGE_TYPES):
                s = G.Script(); connect_n(s, 5, loggers=[1, 2, 3])
                for u in (1, 2, 3):
                    s.round([s.rd(u, cd.MT_SUBSCRIBE, G.p_i32(watch))])
                s.round([s.rd(4, cd.MT_SUBSCRIBE, G.p_i32(5000))], fail={d: fm for d in dead})
                s.round([s.rd(5, cd.MT_SUBSCRIBE, G.p_i32(5001))])
                yield f"loggers_{dead[0]}{dead[1]}_of_three_fail_{fm}_{watch}", probe(s)
    # control frames whose header carries destination fields outside the legal ranges: the manager has no use for these
    # fields in a control frame; every one of them is acknowledged and applied like any other (C19)
    for dest, host in ((201, 0), (-1, 0), (0, 6), (0, -1), (32767, 32767), (10, 1)):
        s = G.Script(); s.accept(3)
        s.round([s.rd(1, cd.MT_CONNECT, G.p_connect(logger=1), src=10, dest=dest, dest_host=host)])
        s.round([s.rd(2, cd.MT_CONNECT_V2, G.p_connect_v2(mod_id=11, name=b"two"), dest=dest, dest_host=host)])
        s.round([s.rd(2, cd.MT_CONNECT, G.p_connect(), src=11, dest=dest, dest_host=host)])
        s.round([s.rd(3, cd.MT_CONNECT, G.p_connect(), src=12)])
        for op, arg in ((cd.MT_SUBSCRIBE, 5000), (cd.MT_PAUSE_SUBSCRIPTION, 5000), (cd.MT_RESUME_SUBSCRIPTION, 5000),
                        (cd.MT_SUBSCRIBE, 5001), (cd.MT_UNSUBSCRIBE, 5001)):
            s.round([s.rd(2, op, G.p_i32(arg), dest=dest, dest_host=host)])
        s.round([s.rd(2, cd.MT_CLIENT_SET_NAME, G.p_name(b"renamed"), dest=dest, dest_host=host)])
        s.round([s.rd(2, cd.MT_MODULE_READY, G.p_i32(77), dest=dest, dest_host=host)])
        s.round([s.rd(3, 5000, b"data")]); s.round([s.rd(3, 5001, b"none")])
        s.round([s.rd(2, cd.MT_DISCONNECT, dest=dest, dest_host=host)])
        yield f"control_with_dest_{dest}_{host}", probe(s)
    # sender of a control frame can not take its ACK
    s = G.Script(); connect_n(s, 3, loggers=[3])
    s.round([s.rd(2, cd.MT_SUBSCRIBE, G.p_i32(cd.MT_FAILED_MESSAGE))])
    s.round([s.rd(1, cd.MT_SUBSCRIBE, G.p_i32(5000))], fail={1: "hdr"})
    yield "ack_write_fails", probe(s)
    # ACTIVE_CLIENTS tick with a CLIENT_INFO subscriber that fails; > 256 connections
    s = G.Script(); connect_n(s, 3)
    s.round([s.rd(1, cd.MT_SUBSCRIBE, G.p_i32(cd.MT_CLIENT_INFO))])
    s.round([s.rd(2, cd.MT_SUBSCRIBE, G.p_i32(cd.MT_ACTIVE_CLIENTS))])
    s.round([s.rd(3, cd.MT_SUBSCRIBE, G.p_i32(5))], dt=6000, fail={1: "hdr"})
    yield "info_subscriber_dies_at_tick", probe(s)
    for n in (255, 256, 257, 300):
        s = G.Script(); s.accept(n)
        s.round([s.rd(1, cd.MT_CONNECT, G.p_connect(), src=10)])
        s.round([s.rd(1, cd.MT_SUBSCRIBE, G.p_i32(cd.MT_ACTIVE_CLIENTS))])
        s.round(dt=6000, writable=[1]); s.round([s.rd(2, cd.MT_CONNECT, G.p_connect(), src=11)], dt=6000)
        yield f"connections_{n}", probe(s)
    # dynamic ids: fill the whole dynamic range, one more, free one, wrap
    s = G.Script(); s.accept(103)
    for u in range(1, 102):
        s.round([s.rd(u, cd.MT_CONNECT, G.p_connect())], writable=[u])
    s.round([s.rd(5, cd.MT_DISCONNECT)])
    s.round([s.rd(102, cd.MT_CONNECT_V2, G.p_connect_v2(mod_id=0, name=b"late"))])
    s.round([s.rd(103, cd.MT_CONNECT, G.p_connect())])
    s.round(dt=1000); s.round(dt=6000)
    yield "dynamic_ids_exhausted_and_wrap", probe(s)
    # the only free dynamic id is the last one the probe loop reaches (id 199 with the cursor at 0), resp. the first one
    # after the cursor has wrapped (id 100): both must be found
    for free_uid, tag in ((100, "last"), (1, "first"), (50, "middle")):
        s = G.Script(); s.accept(102)
        for u in range(1, 101):
            s.round([s.rd(u, cd.MT_CONNECT, G.p_connect())], writable=[u])
        s.round([s.rd(free_uid, cd.MT_DISCONNECT)])
        s.round([s.rd(101, cd.MT_CONNECT_V2, G.p_connect_v2(mod_id=0, name=b"finder"))], writable=[101])
        s.round([s.rd(102, cd.MT_CONNECT, G.p_connect())], writable=[102])      # range full again: refused
        yield f"dynamic_only_free_is_{tag}", probe(s)
    s = G.Script()
    for keep in (3, 7):
        s = G.Script()
        for i in range(130):
            s.accept(1); u = s.nconn
            s.round([s.rd(u, cd.MT_CONNECT, G.p_connect())], writable=[u])
            if i % keep != 0 and i not in (99, 100, 101):
                s.round([s.rd(u, cd.MT_DISCONNECT)])
            if i % 10 == 9 or i in (100, 101):
                s.round(dt=1000)        # statistics tick while whoever holds the latest ids is still connected
        s.round(dt=6000)
        yield f"dynamic_id_churn_{keep}", probe(s)

    # --- the 16-bit counters of the statistics messages at their boundary: exactly 65535 / 65536 / 65537 messages of one
    # type in one interval, then an interval without that type
    for n in (65535, 65536, 65537):
        s = G.Script(); s.accept(2)
        s.round([s.rd(1, cd.MT_CONNECT, G.p_connect(), src=10)])
        s.round([s.rd(2, cd.MT_CONNECT, G.p_connect(), src=11)])
        s.round([s.rd(2, cd.MT_SUBSCRIBE, G.p_i32(cd.MT_MESSAGE_TRAFFIC))])
        s.round([s.rd(2, cd.MT_SUBSCRIBE, G.p_i32(cd.MT_TIMING_MESSAGE))])
        s.round(dt=1100)
        for _ in range(n):
            s.round([s.rd(1, 1234, b"", src=10)], writable=[2])
        s.round(dt=1100)
        s.round([s.rd(1, 1236, b"", src=10)], writable=[2])
        s.round([s.rd(1, 1236, b"", src=10)], writable=[2])
        s.round(dt=1100)
        s.round([s.rd(1, 1234, b"", src=10)], writable=[2])
        s.round(dt=1100)
        yield f"u16_boundary_{n}", s

    # --- DEBUG points: a listener of RTMA_LOG_DEBUG (or of everything) whose socket is broken / not writable is met by
    # the debug line of each operation: the requester itself (F13), or a bystander, or the module being removed
    for op in ("sub", "suball", "unsub", "pause", "resume", "setname", "ready", "data", "disc", "connect_named",
               "tick_traffic", "tick_active", "dies"):
        for who in ("self", "other"):
            for how in ("hdr", "pay", "notw"):
                s = G.Script(); s.accept(4)
                s.round([s.rd(2, cd.MT_CONNECT, G.p_connect(), src=11)])
                s.round([s.rd(3, cd.MT_CONNECT_V2, G.p_connect_v2(mod_id=12, name=b"watcher"))])
                s.round([s.rd(3, cd.MT_SUBSCRIBE, G.p_i32(cd.MT_CLIENT_CLOSED))])
                s.round([s.rd(3, cd.MT_SUBSCRIBE, G.p_i32(cd.MT_FAILED_MESSAGE))])
                s.round([s.rd(3, cd.MT_SUBSCRIBE, G.p_i32(cd.MT_CLIENT_INFO))])
                s.round([s.rd(2, cd.MT_SUBSCRIBE, G.p_i32(5000))])
                lis = 1 if who == "self" else 4
                if op != "connect_named" or who == "other":
                    s.round([s.rd(1, cd.MT_CONNECT, G.p_connect(), src=10)])
                s.round([s.rd(lis, cd.MT_SUBSCRIBE, G.p_i32(cd.MT_RTMA_LOG_DEBUG if how != "pay" else cd.ALL_MESSAGE_TYPES))])
                if op in ("unsub", "pause", "resume"):
                    s.round([s.rd(1, cd.MT_SUBSCRIBE, G.p_i32(5001))])
                kw = dict(fail={lis: how}) if how != "notw" else dict(writable=[u for u in (1, 2, 3, 4) if u != lis])
                fr = {"sub": lambda: s.rd(1, cd.MT_SUBSCRIBE, G.p_i32(5002)),
                      "suball": lambda: s.rd(1, cd.MT_SUBSCRIBE, G.p_i32(cd.ALL_MESSAGE_TYPES)),
                      "unsub": lambda: s.rd(1, cd.MT_UNSUBSCRIBE, G.p_i32(5001)),
                      "pause": lambda: s.rd(1, cd.MT_PAUSE_SUBSCRIPTION, G.p_i32(5001)),
                      "resume": lambda: s.rd(1, cd.MT_RESUME_SUBSCRIPTION, G.p_i32(5001)),
                      "setname": lambda: s.rd(1, cd.MT_CLIENT_SET_NAME, G.p_name(b"renamed")),
                      "ready": lambda: s.rd(1, cd.MT_MODULE_READY, G.p_i32(777)),
                      "data": lambda: s.rd(1, 5000, b"payload", src=10),
                      "disc": lambda: s.rd(1, cd.MT_DISCONNECT),
                      "connect_named": lambda: s.rd(1 if who == "self" else 4, cd.MT_CONNECT_V2,
                                                    G.p_connect_v2(mod_id=20, name=b"newcomer")),
                      "dies": lambda: s.rd(2, 5000, b"", nbytes=-5)}
                if op == "tick_traffic":
                    s.round([s.rd(2, 5000, b"z", src=11)], dt=1100, **kw)
                elif op == "tick_active":
                    s.round([s.rd(2, 5000, b"z", src=11)], dt=6000, **kw)
                else:
                    s.round([fr[op]()], **kw)
                s.round([s.rd(2, 5000, b"after", src=11)])
                yield f"debug_{op}_{who}_{how}", probe(s)

    # --- the accept branch of run() (its INFO log line and whatever that delivery triggers) runs BEFORE the round's poll for
    # writable sockets: it is routed by the writable set the previous poll left.  Connection 1 hears INFO log lines and its
    # socket is broken when the line of `accept` is written; connection 2 (CLIENT_CLOSED) was not writable at the previous
    # poll and is writable now: it is not handed the notice.  (Observed behaviour; the Spec judges that stretch by the
    # previous poll.  Seen at log level INFO and below.)
    s = G.Script(); s.accept(3)
    s.round([s.rd(1, cd.MT_SUBSCRIBE, G.p_i32(cd.MT_RTMA_LOG_INFO))], writable=[1, 2, 3])
    s.round([s.rd(2, cd.MT_SUBSCRIBE, G.p_i32(cd.MT_CLIENT_CLOSED))], writable=[1, 2, 3])
    s.round([s.rd(3, 5000, b"")], writable=[1, 3])
    s.round([s.rd(3, 5000, b"")], writable=[1, 2, 3, 4], fail={1: "hdr"}, accept=True)
    yield "stale_wlist_at_accept", probe(s)
    # ... and the periodic section AFTER it: a round that accepts and reads nothing does not poll at all (nobody is writable);
    # the TIMING report kills a logger, only loggers can be handed the notice although connection 2 was writable before
    s = G.Script(); connect_n(s, 3, loggers=[1])
    s.round([s.rd(1, cd.MT_SUBSCRIBE, G.p_i32(cd.MT_TIMING_MESSAGE))])
    s.round([s.rd(2, cd.MT_SUBSCRIBE, G.p_i32(cd.MT_CLIENT_CLOSED))])
    s.round([], dt=2000, fail={1: "hdr"}, accept=True)
    yield "stale_wlist_tick_after_accept", probe(s)
    # ... and who is owed a notice there: the accept INFO line kills connection 1 (routed by the PREVIOUS poll); connection 2
    # (CLIENT_CLOSED) was writable then and is handed the CLIENT_CLOSED frame, so no FAILED_MESSAGE is due although the round
    # reads nothing and nobody is writable by its own (absent) poll: a subscriber is surely not ready only if NEITHER poll
    # reported it (Spec: `checkDeparturesAny`); logger 3 hears FAILED_MESSAGE and would be the observer
    s = G.Script(); connect_n(s, 3, loggers=[3])
    s.round([s.rd(1, cd.MT_SUBSCRIBE, G.p_i32(cd.MT_RTMA_LOG_INFO))])
    s.round([s.rd(2, cd.MT_SUBSCRIBE, G.p_i32(cd.MT_CLIENT_CLOSED))])
    s.round([s.rd(3, cd.MT_SUBSCRIBE, G.p_i32(cd.MT_FAILED_MESSAGE))])
    s.round([], fail={1: "hdr"}, accept=True)
    yield "stale_wlist_owed_after_accept", probe(s)

    # --- re-entrancy: while a manager-originated message is being delivered, the failure handling publishes further
    # manager messages which are themselves undeliverable somewhere
    for order_first in ("failing", "healthy"):
        for zkind in ("closed", "all", "sameA", "logger"):
            for fm in ("hdr", "pay"):
                s = G.Script(); connect_n(s, 7, ids=[10, 11, 12, 13, 14, 15, 16], loggers=[7] if zkind == "logger" else [])
                A, Y1, Y2, Z, Y3 = 2, 3, 4, 5, 6
                s.round([s.rd(A, cd.MT_SUBSCRIBE, G.p_i32(5000))])
                ys = (Y1, Y2, Y3) if order_first == "failing" else (Y2, Y1, Y3)
                for y in ys:
                    s.round([s.rd(y, cd.MT_SUBSCRIBE, G.p_i32(cd.MT_FAILED_MESSAGE))])
                if zkind == "closed":
                    s.round([s.rd(Z, cd.MT_SUBSCRIBE, G.p_i32(cd.MT_CLIENT_CLOSED))])
                elif zkind == "all":
                    s.round([s.rd(Z, cd.MT_SUBSCRIBE, G.p_i32(cd.ALL_MESSAGE_TYPES))])
                elif zkind == "sameA":
                    s.round([s.rd(A, cd.MT_SUBSCRIBE, G.p_i32(cd.MT_CLIENT_CLOSED))])
                else:
                    s.round([s.rd(7, cd.MT_SUBSCRIBE, G.p_i32(cd.MT_CLIENT_CLOSED))])
                nonw = {A, Z} if zkind != "logger" else {A}
                w = [u for u in range(1, 8) if u not in nonw]
                s.round([s.rd(1, 5000, b"undeliverable-to-A", src=10)], writable=w, fail={Y1: fm})
                s.round([s.rd(1, 5000, b"again", src=10)], writable=w)
                yield f"nested_notice_{order_first}_{zkind}_{fm}", probe(s)
    # the same while a periodic message (TIMING / ACTIVE_CLIENTS / CLIENT_INFO) is going out
    for watch in (cd.MT_TIMING_MESSAGE, cd.MT_CLIENT_INFO, cd.MT_ACTIVE_CLIENTS, cd.MT_MESSAGE_TRAFFIC):
        for fm in ("hdr", "pay"):
            s = G.Script(); connect_n(s, 5)
            for u in (2, 3, 4):
                s.round([s.rd(u, cd.MT_SUBSCRIBE, G.p_i32(watch))])
            s.round([s.rd(5, cd.MT_SUBSCRIBE, G.p_i32(cd.MT_CLIENT_CLOSED))])
            s.round([s.rd(4, cd.MT_SUBSCRIBE, G.p_i32(cd.MT_FAILED_MESSAGE))])
            s.round([s.rd(1, 5000, b"x")])
            s.round([s.rd(1, 5001, b"y")], dt=6000, writable=[1, 2, 3, 4], fail={2: fm})
            s.round([s.rd(1, 5001, b"z")], dt=1500)
            yield f"nested_periodic_{watch}_{fm}", probe(s)

    # --- C06: identity matrix
    combos = [(a, am1, n1, b, am2, n2) for a in (12, 100) for am1 in (0, 1) for n1 in (b"", b"nm")
              for b in (12, 13) for am2 in (0, 1) for n2 in (b"", b"nm", b"other")]
    for (a, am1, n1, b, am2, n2) in combos:
        s = G.Script(); s.accept(3)
        s.round([s.rd(3, cd.MT_CONNECT, G.p_connect(), src=30)])
        s.round([s.rd(3, cd.MT_SUBSCRIBE, G.p_i32(cd.MT_CLIENT_INFO))])
        s.round([s.rd(3, cd.MT_SUBSCRIBE, G.p_i32(cd.MT_CLIENT_CLOSED))])
        s.round([s.rd(1, cd.MT_CONNECT_V2, G.p_connect_v2(allow_multiple=am1, mod_id=a, pid=5, name=n1))])
        s.round([s.rd(2, cd.MT_CONNECT_V2, G.p_connect_v2(allow_multiple=am2, mod_id=b, pid=6, name=n2, logger=am2))])
        s.round([s.rd(1, cd.MT_CONNECT, G.p_connect(), src=a)])     # the v1 CONNECT that follows v2
        s.round([s.rd(3, 5000, b"to-a", src=30, dest=a)])
        yield f"ident_{a}_{am1}_{n1.decode()}_{b}_{am2}_{n2.decode()}", s
    # three parties: a multi-instance incumbent, a unique module with a name, a newcomer that shares the id of the first
    # and the name of the second (any order of the incumbents, any uniqueness of the newcomer)
    for first in ("multi", "unique"):
        for am_new in (0, 1):
            for nm_new in (b"cam", b"other", b""):
                for id_new in (12, 13, 0):
                    s = G.Script(); s.accept(4)
                    s.round([s.rd(4, cd.MT_CONNECT, G.p_connect(), src=30)])
                    s.round([s.rd(4, cd.MT_SUBSCRIBE, G.p_i32(cd.MT_CLIENT_INFO))])
                    inc = [(1, G.p_connect_v2(allow_multiple=1, mod_id=12, pid=5, name=b"worker")),
                           (2, G.p_connect_v2(allow_multiple=0, mod_id=13, pid=6, name=b"cam"))]
                    if first == "unique":
                        inc.reverse()
                    for u, pay in inc:
                        s.round([s.rd(u, cd.MT_CONNECT_V2, pay)])
                    s.round([s.rd(3, cd.MT_CONNECT_V2, G.p_connect_v2(allow_multiple=am_new, mod_id=id_new, pid=7, name=nm_new))])
                    s.round([s.rd(4, 5000, b"x", src=30, dest=12)])
                    yield f"ident3_{first}_{am_new}_{nm_new.decode()}_{id_new}", s
    for rid in (0, 1, 99, 100, 101, 199, 200, -1, 32767, -32768):
        s = G.Script(); s.accept(3)
        s.round([s.rd(3, cd.MT_CONNECT, G.p_connect(), src=30)])
        s.round([s.rd(3, cd.MT_SUBSCRIBE, G.p_i32(cd.MT_CLIENT_CLOSED))])
        s.round([s.rd(1, cd.MT_CONNECT, G.p_connect(), src=rid)])
        s.round([s.rd(2, cd.MT_CONNECT_V2, G.p_connect_v2(mod_id=rid, name=b"n"))])
        s.round([s.rd(1, cd.MT_DISCONNECT)])
        s.accept(1)
        s.round([s.rd(4, cd.MT_CONNECT_V2, G.p_connect_v2(mod_id=rid, name=b"n"))])   # id and name reusable at once
        yield f"id_{rid}", s

    # --- C07: each way of leaving after each protocol stage, alone or paired with a publish, both service orders
    ways = ["disc", "fin0", "finmid", "rsth", "rstp", "shortpay", "wfail_hdr", "wfail_pay"]
    stages = ["accepted", "connected", "sub", "suball", "paused", "logger"]

    def stage_script(stage: str) -> G.Script:
        s = G.Script(); s.accept(3)
        s.round([s.rd(3, cd.MT_CONNECT, G.p_connect(), src=30)])
        for t in (cd.MT_CLIENT_CLOSED, cd.MT_FAILED_MESSAGE, 5000):
            s.round([s.rd(3, cd.MT_SUBSCRIBE, G.p_i32(t))])
        if stage != "accepted":
            s.round([s.rd(1, cd.MT_CONNECT, G.p_connect(logger=1 if stage == "logger" else 0), src=12)])
        if stage in ("sub", "paused", "logger"):
            s.round([s.rd(1, cd.MT_SUBSCRIBE, G.p_i32(5000))])
        if stage == "paused":
            s.round([s.rd(1, cd.MT_PAUSE_SUBSCRIPTION, G.p_i32(5000))])
        if stage == "suball":
            s.round([s.rd(1, cd.MT_SUBSCRIBE, G.p_i32(cd.ALL_MESSAGE_TYPES))])
        s.round([s.rd(2, cd.MT_CONNECT, G.p_connect(), src=13)])
        return s

    def leaving(s: G.Script, way: str):
        return {"disc": lambda: s.rd(1, cd.MT_DISCONNECT), "fin0": lambda: s.rd(1, 5000, b"", cut=0),
                "finmid": lambda: s.rd(1, 5000, b"abcdefgh", cut=20), "rsth": lambda: s.rd(1, 5000, b"ab", err="hdr"),
                "rstp": lambda: s.rd(1, 5000, b"abcdefgh", err="pay"),
                "shortpay": lambda: s.rd(1, 5000, b"abcdefgh", cut=52)}[way]()

    for way in ways:
        for stage in stages:
            if way.startswith("wfail"):
                s = stage_script(stage)
                s.round([s.rd(2, 5000, b"kills-1", src=13)], fail={1: way.split("_")[1]})
                s.round([s.rd(2, 5000, b"after", src=13)])
                s.accept(1); s.round([s.rd(4, cd.MT_CONNECT, G.p_connect(), src=12)])
                yield f"leave_{way}_{stage}", probe(s)
            else:
                for first in (True, False):
                    s = stage_script(stage)
                    if first:
                        a = leaving(s, way); pub = s.rd(2, 5000, b"while-leaving", src=13); s.round([a, pub])
                    else:
                        pub = s.rd(2, 5000, b"while-leaving", src=13); a = leaving(s, way); s.round([pub, a])
                    s.accept(1); s.round([s.rd(4, cd.MT_CONNECT, G.p_connect(), src=12)])
                    yield f"leave_{way}_{stage}_{int(first)}", probe(s)

    # --- cut at every byte offset (FIN) and reset, for four protocol frames
    for (nm, mt, pay) in (("connect", cd.MT_CONNECT, G.p_connect()), ("connect_v2", cd.MT_CONNECT_V2, G.p_connect_v2(mod_id=14, name=b"cut")),
                          ("subscribe", cd.MT_SUBSCRIBE, G.p_i32(5000)), ("data", 5000, b"0123456789")):
        for cut in range(0, 48 + len(pay)):
            s = G.Script(); connect_n(s, 1); s.accept(1)
            s.round([s.rd(1, cd.MT_SUBSCRIBE, G.p_i32(cd.MT_CLIENT_CLOSED))])
            s.round([s.rd(2, mt, pay, cut=cut, src=14)])
            yield f"cut_{nm}_{cut}", probe(s)
        for e in ("hdr", "pay"):
            s = G.Script(); connect_n(s, 1); s.accept(1)
            s.round([s.rd(2, mt, pay, err=e, src=14)])
            yield f"rst_{nm}_{e}", probe(s)

    # --- C18: statistics with 0, 1, 63, 64, 65, 128, 129, 300 distinct types; big counts
    for nt in (0, 1, 2, 63, 64, 65, 127, 128, 129, 300):
        s = G.Script(); connect_n(s, 3)
        s.round([s.rd(2, cd.MT_SUBSCRIBE, G.p_i32(cd.MT_MESSAGE_TRAFFIC))])
        s.round([s.rd(3, cd.MT_SUBSCRIBE, G.p_i32(cd.MT_TIMING_MESSAGE))])
        s.round(dt=1500)
        for i in range(nt):
            s.round([s.rd(1, 6000 + 7 * i, b"")])
            if i % 5 == 0:
                s.round([s.rd(1, 6000 + 7 * i, b"")])
        s.round(dt=1250); s.round(dt=1250)
        s.round([s.rd(1, 6000, b"")]); s.round(dt=1250)
        yield f"traffic_{nt}_types", s
    # --- C02-F1 / C01: repeated subscribe-all
    for op2 in (cd.MT_SUBSCRIBE, cd.MT_RESUME_SUBSCRIPTION):
        s = G.Script(); connect_n(s, 2)
        s.round([s.rd(2, cd.MT_SUBSCRIBE, G.p_i32(5001))])
        s.round([s.rd(2, cd.MT_SUBSCRIBE, G.p_i32(cd.ALL_MESSAGE_TYPES))])
        s.round([s.rd(2, op2, G.p_i32(cd.ALL_MESSAGE_TYPES))])
        s.round([s.rd(1, 5000, b"after-second-all")])
        s.round([s.rd(2, cd.MT_UNSUBSCRIBE, G.p_i32(5000))])      # ignored while subscribed to all
        s.round([s.rd(1, 5000, b"still")])
        s.round([s.rd(2, cd.MT_UNSUBSCRIBE, G.p_i32(cd.ALL_MESSAGE_TYPES))])
        s.round([s.rd(1, 5001, b"none")])
        yield f"suball_twice_{op2}", s


def heavy_scenarios() -> Iterator[Tuple[str, G.Script]]:
    """counter wrap at 2^16 (65k rounds each: thorough tier only)"""
    cd = cdm()
    for cnt in (65535, 65536, 65537):
        s = G.Script(); connect_n(s, 2)
        s.round([s.rd(2, cd.MT_SUBSCRIBE, G.p_i32(cd.ALL_MESSAGE_TYPES))], writable=[])
        for _ in range(cnt):
            s.round([s.rd(1, 6001, b"")], writable=[])
        s.round(dt=1500, writable=[1, 2]); s.round([s.rd(1, 6002, b"")], dt=1500)
        yield f"count_{cnt}", s



def subsets_scenarios() -> Iterator[Tuple[str, G.Script]]:
    """C01/C14: every writable subset x every failing subset of 4 recipients (one of them a logger, one sub-all,
    one addressed) for a broadcast and for an addressed message, with a FAILED_MESSAGE monitor in or out of the set"""
    cd = cdm()
    for dest in (0, 12, 13):
        for wmask in range(32):
            for fmask in (0, 1, 2, 4, 8, 3, 6, 12, 10, 15, 16, 17):
                s = G.Script(); connect_n(s, 6, ids=[10, 11, 12, 13, 14, 15], loggers=[4])
                for u in (2, 3, 4):
                    s.round([s.rd(u, cd.MT_SUBSCRIBE, G.p_i32(5000))])
                s.round([s.rd(5, cd.MT_SUBSCRIBE, G.p_i32(cd.ALL_MESSAGE_TYPES))])
                s.round([s.rd(6, cd.MT_SUBSCRIBE, G.p_i32(cd.MT_FAILED_MESSAGE))])
                s.round([s.rd(1, cd.MT_SUBSCRIBE, G.p_i32(5000))])          # the publisher subscribes to its own type
                w = [1] + [u for i, u in enumerate((2, 3, 4, 5, 6)) if wmask >> i & 1]
                fail = {u: ("hdr" if (u % 2) else "pay") for i, u in enumerate((2, 3, 4, 5, 6)) if fmask >> i & 1}
                s.round([s.rd(1, 5000, b"payload-bytes", src=10, dest=dest)], writable=w, fail=fail or None)
                s.round([s.rd(1, 5000, b"second", src=10)])
                yield f"subsets_{dest}_{wmask}_{fmask}", s


def configs(rng, deep: bool) -> Dict[str, Any]:
    return dict(timecode=rng.random() < 0.3, log_level=rng.choice([100, 100, 100, 40, 30, 20, 10, 10]),
                timing=rng.random() < 0.85, order=rng.choice(["fwd", "fwd", "rev"]), debug=rng.random() < 0.2)
