"""C06, last clause: the options a caller passes when connecting (logger, daemon, allow-multiple, name, id) reach the
wire exactly as named, through every public way of connecting (`Client.connect`, `client_context`).

The real `Client` is driven over a fake socket (module attributes `pyrtma.client.{socket,select,time}` rebound): every
frame it writes is recorded, and the ACKNOWLEDGE it waits for is served from a prepared byte string.  The captured
CONNECT_V2 / CONNECT frames are decoded and compared with the options that were passed *by name*
(`check_entry_points`, implementation side only).

Model side (`entry_model_cases`, Model/ClientEntry.lean through `drv_cliententry`): for seven call shapes (positional,
keywords in another order, mixed, defaults omitted; `client_context` by keyword, all positional, defaults omitted) x
every combination of option values, the *actuals as written* go to the model, which binds them the way Python does
along `Client(...)` / `connect(...)` / `client_context(...)` -> `_connect_helper(...)` -> payload fields; CORR compares the
model's fields with the decoded frames, PROP evaluates `Spec/ClientEntry.lean honoured` on the decoded frames.
    ECASE <id> <direct|context>
    MID <name hex> <id>                                        one per module name the context registers (`get_context().MID`)
    CALL <ctor|connect|ctx> P <val>.. K <name> <val> ..        val: b0 | b1 | i<int> | s<hex> | n
    OPT <logger> <daemon> <allow> <mod_id> <name hex|->        the options as the caller names them (no name given: -)
    IMPL <v2.logger> <v2.daemon> <v2.allow> <v2.mod_id> <v2.name hex|-> <v1.logger> <v1.daemon> | IMPL none <why>
    END"""
from __future__ import annotations

import ctypes
import itertools
import socket as _real_socket
from typing import Any, Dict, List

from . import priv as PV          # private state of Client objects, found on the object (not by name)


class Hang(Exception):
    """the code under test keeps polling the fake socket without coming back from one API call (an endless loop);
    raised by the fakes after `TICK_LIMIT` select / recv calls within one case and recorded as that case's failure"""


TICK_LIMIT = 200000


def _tick(world):
    world["ticks"] = world.get("ticks", 0) + 1
    if world["ticks"] > TICK_LIMIT:
        raise Hang("the call does not return: more than %d select/recv calls" % TICK_LIMIT)


class _Sock:
    def __init__(self, world):
        self.w = world
        self.closed = False

    def connect(self, addr): pass
    def setsockopt(self, *a): pass
    def fileno(self): return 5
    def close(self): self.closed = True

    def sendall(self, data):
        if self.w.get("sendfail"):
            raise ConnectionResetError("peer reset")
        self.w["sent"] += bytes(data)

    def send(self, data):
        if self.w.get("sendfail"):
            raise ConnectionResetError("peer reset")
        self.w["sent"] += bytes(data)
        return len(data)

    def recv_into(self, buf, nbytes=0, flags=0):
        _tick(self.w)
        if nbytes == 0:
            nbytes = len(buf)
        chunk = self.w["inbuf"][:nbytes]
        self.w["inbuf"] = self.w["inbuf"][len(chunk):]
        memoryview(buf).cast('B')[:len(chunk)] = chunk
        return len(chunk)


_REAL = ("socket", "select", "time")


def _save(CL):
    from .rebind import snapshot
    return snapshot(CL, _REAL)


def _install(CL, shims):
    """socket / select / time stand-ins of `_shims`, under any import style of client.py"""
    from .rebind import rebind
    rebind(CL, dict(zip(_REAL, shims)))


def _restore(CL, saved):
    from .rebind import reinstate
    reinstate(CL, saved)


def _shims(world):
    class SockMod:
        pass
    sm = SockMod()
    for k in dir(_real_socket):
        if k.isupper():
            setattr(sm, k, getattr(_real_socket, k))
    sm.socket = lambda *a, **k: _Sock(world)
    sm.getprotobyname = lambda n: 6

    class Sel:
        @staticmethod
        def select(r, w, x, timeout=None):
            _tick(world)
            return (list(r) if (world["inbuf"] or world.get("eof")) else []), list(w), []

    class Tm:
        t = 50.0

        @classmethod
        def perf_counter(cls):
            cls.t += 0.01
            return cls.t

        @staticmethod
        def time():
            return 1.7e9

        @staticmethod
        def sleep(s):
            pass
    return sm, Sel, Tm


def _decode(sent: bytes, timecode: bool) -> List[Dict[str, Any]]:
    import pyrtma.core_defs as cd
    from pyrtma.header import get_header_cls
    H = get_header_cls(timecode)
    hs = ctypes.sizeof(H)
    out = []
    pos = 0
    while pos + hs <= len(sent):
        h = H.from_buffer_copy(sent[pos:pos + hs])
        pay = sent[pos + hs: pos + hs + h.num_data_bytes]
        pos += hs + h.num_data_bytes
        d: Dict[str, Any] = {"type": h.msg_type, "src": h.src_mod_id}
        if h.msg_type == cd.MT_CONNECT_V2:
            m = cd.MDF_CONNECT_V2.from_buffer_copy(pay)
            d.update(logger=m.logger_status, daemon=m.daemon_status, allow_multiple=m.allow_multiple, mod_id=m.mod_id,
                     name=bytes(pay[12:44]).split(b"\0", 1)[0].decode("latin1"))
        elif h.msg_type == cd.MT_CONNECT:
            m = cd.MDF_CONNECT.from_buffer_copy(pay)
            d.update(logger=m.logger_status, daemon=m.daemon_status)
        out.append(d)
    return out


def _ack_bytes(timecode: bool, dest: int) -> bytes:
    import pyrtma.core_defs as cd
    from pyrtma.header import get_header_cls
    h = get_header_cls(timecode)()
    h.msg_type = cd.MT_ACKNOWLEDGE
    h.dest_mod_id = dest
    return bytes(h)


def registered_mids() -> List[Any]:
    """the module names the message-definition context registers, in dict order: [(name, id)]"""
    from pyrtma.context import get_context
    return [(str(k), int(v)) for k, v in get_context().MID.items()]


def registered_static_id() -> int:
    """a static module id the context registers a name for (core defs: DATA_LOGGER = 4, QUICK_LOGGER = 5); 12 if none"""
    import pyrtma.core_defs as cd
    ids = [i for _, i in registered_mids() if 0 < i < cd.DYN_MOD_ID_START]
    return ids[-1] if ids else 12


def names_allowed(name: str, mid: int) -> List[str]:
    """the names that may arrive when the caller asked for `name` ('' = none given) on module id `mid`: the name itself;
    without one, a name the context registers for a static id, else the empty name"""
    if name:
        return [name]
    reg = [k for k, i in registered_mids() if i == mid and mid != 0]
    return reg or [""]


def _arm():
    """CPU budget for one case of this module (an endless loop that never touches the socket): after 2 s of CPU time
    `Hang` is raised inside the case and recorded like any other exception of the code under test"""
    from .read_corr import cpu_guard
    cpu_guard(2.0, Hang).__enter__()


def _disarm():
    import signal
    signal.setitimer(signal.ITIMER_VIRTUAL, 0)


def check_entry_points() -> Dict[str, Any]:
    """returns {"cases": n, "failures": [ {entry, options, frames, what} ]}"""
    import pyrtma.client as CL
    import pyrtma.core_defs as cd
    failures: List[Dict[str, Any]] = []
    n = 0
    saved = _save(CL)
    try:
        for entry, logger, daemon, allow, name, mid, timecode in itertools.product(
                ("connect", "connect_kw", "client_context"), (False, True), (False, True), (False, True), ("", "nm"),
                (0, 12, registered_static_id()), (False, True)):
            if entry == "client_context" and daemon:
                continue        # client_context has no daemon option
            world = {"sent": b"", "inbuf": _ack_bytes(timecode, mid or 117) * 4}
            _install(CL, _shims(world))
            n += 1
            if sum(1 for f in failures if 'Hang' in str(f.get('what'))) >= 4:
                break       # the call hangs every time: the hangs recorded so far are the verdict
            _arm()
            try:
                if entry == "client_context":
                    with CL.client_context(module_id=mid, server_name="h:1", timecode=timecode, logger_status=logger,
                                           allow_multiple=allow, name=name) as c:
                        got_id = c.module_id
                else:
                    c = CL.Client(module_id=mid, timecode=timecode, name=name)
                    try:
                        c.logger.enable_console = False
                    except Exception:
                        pass
                    if entry == "connect":
                        c.connect("h:1", logger, daemon, allow)
                    else:
                        c.connect(server_name="h:1", allow_multiple=allow, daemon_status=daemon, logger_status=logger)
                    got_id = c.module_id
            except Exception as e:  # noqa: BLE001
                failures.append({"entry": entry, "options": dict(logger=logger, daemon=daemon, allow_multiple=allow, name=name, id=mid),
                                 "what": f"raised {type(e).__name__}: {e}"})
                continue
            frames = _decode(world["sent"], timecode)
            v2 = [f for f in frames if f["type"] == cd.MT_CONNECT_V2]
            v1 = [f for f in frames if f["type"] == cd.MT_CONNECT]
            want = dict(logger=int(logger), daemon=int(daemon), allow_multiple=int(allow), mod_id=mid)
            bad = []
            if len(v2) != 1 or len(v1) != 1 or frames.index(v2[0]) > frames.index(v1[0]):
                bad.append("handshake is not CONNECT_V2 followed by CONNECT")
            else:
                for k, v in want.items():
                    if v2[0].get(k) != v:
                        bad.append(f"CONNECT_V2.{k} = {v2[0].get(k)!r}, the caller asked for {v!r}")
                if v2[0].get("name") not in names_allowed(name, mid):
                    bad.append(f"CONNECT_V2.name = {v2[0].get('name')!r}, the caller " +
                               (f"asked for {name!r}" if name else f"gave none (default for id {mid}: {names_allowed(name, mid)})"))
                for k in ("logger", "daemon"):
                    if v1[0].get(k) != want[k]:
                        bad.append(f"CONNECT.{k} = {v1[0].get(k)!r}, the caller asked for {want[k]!r}")
                if got_id != (mid or 117):
                    bad.append(f"client reports module id {got_id}, the acknowledgement assigned {mid or 117}")
            for b in bad:
                failures.append({"entry": entry, "options": dict(logger=logger, daemon=daemon, allow_multiple=allow, name=name, id=mid, timecode=timecode),
                                 "frames": frames[:3], "what": b})
        # --- the same options through a *second* connect of the same Client object, however the first session ended
        for how, mid, allow, logger, timecode in itertools.product(
                ("disconnect", "eof_on_read", "reset_on_send", "still_connected"), (0, 12, registered_static_id()), (False, True),
                (False, True), (False, True)):
            world = {"sent": b"", "inbuf": _ack_bytes(timecode, mid or 117) * 2}
            _install(CL, _shims(world))
            n += 1
            if sum(1 for f in failures if 'Hang' in str(f.get('what'))) >= 4:
                break       # the call hangs every time: the hangs recorded so far are the verdict
            _arm()
            opts = dict(reconnect_after=how, logger=logger, allow_multiple=allow, name="rc", id=mid, timecode=timecode)
            try:
                c = CL.Client(module_id=mid, timecode=timecode, name="rc")
                try:
                    c.logger.enable_console = False
                except Exception:
                    pass
                c.connect("h:1", logger, False, allow)
                first_id = c.module_id
                if how == "disconnect":
                    c.disconnect()
                elif how == "eof_on_read":
                    world["eof"] = True
                    try:
                        c.read_message(timeout=0.05)
                    except Exception:  # noqa: BLE001  ConnectionLost is what we want to provoke
                        pass
                    world["eof"] = False
                elif how == "reset_on_send":
                    world["sendfail"] = True
                    try:
                        c.send_signal(cd.MT_EXIT) if hasattr(cd, "MT_EXIT") else c.subscribe([cd.MT_ACKNOWLEDGE])
                    except Exception:  # noqa: BLE001
                        pass
                    world["sendfail"] = False
                world["sent"] = b""
                world["inbuf"] = _ack_bytes(timecode, mid or 118) * 2
                c.connect("h:1", logger, False, allow)
                got_id = c.module_id
            except Exception as e:  # noqa: BLE001
                failures.append({"entry": "reconnect", "options": opts, "what": f"raised {type(e).__name__}: {e}"})
                continue
            frames = _decode(world["sent"], timecode)
            v2 = [f for f in frames if f["type"] == cd.MT_CONNECT_V2]
            bad = []
            if len(v2) != 1:
                bad.append(f"second handshake has {len(v2)} CONNECT_V2 frames")
            else:
                want = dict(logger=int(logger), allow_multiple=int(allow), mod_id=mid, name="rc")
                for k, v in want.items():
                    if v2[0].get(k) != v:
                        bad.append(f"second connect (first session ended by {how}, it had id {first_id}): CONNECT_V2.{k} = "
                                   f"{v2[0].get(k)!r}, the client was created / called with {v!r}")
                if got_id != (mid or 118):
                    bad.append(f"after the second connect the client reports module id {got_id}, the acknowledgement assigned {mid or 118}")
            for b in bad:
                failures.append({"entry": "reconnect", "options": opts, "frames": frames[:3], "what": b})
    finally:
        _disarm()
        _restore(CL, saved)
    return {"cases": n, "failures": failures}


def check_reconnect_state() -> Dict[str, Any]:
    """C02 / C08 on a *second* session of the same Client object: however the first session ended (disconnect(), the peer
    closing while the client reads, a reset while it sends, connect() while still connected), the new connection starts
    with no subscription at the manager, so the client must report none and `read_message` must not hand out frames of the
    types the old session had subscribed to (nor everything, after an old subscribe-to-all).
    Returns {"cases": n, "failures": [{property, how, what, ...}]}."""
    import pyrtma.client as CL
    import pyrtma.core_defs as cd
    from pyrtma.header import get_header_cls
    failures: List[Dict[str, Any]] = []
    n = 0
    saved = _save(CL)
    T1 = cd.MT_EXIT if hasattr(cd, "MT_EXIT") else cd.MT_CLIENT_INFO
    try:
        for how, sub_all, timecode in itertools.product(("disconnect", "eof_on_read", "reset_on_send", "still_connected"),
                                                        (False, True), (False, True)):
            n += 1
            if sum(1 for f in failures if 'Hang' in str(f.get('what'))) >= 4:
                break       # the call hangs every time: the hangs recorded so far are the verdict
            _arm()
            world = {"sent": b"", "inbuf": _ack_bytes(timecode, 12) * 3}     # handshake (2) + subscribe (1)
            _install(CL, _shims(world))
            tag = dict(first_session_ended_by=how, subscribed_to_all=sub_all, timecode=timecode)
            try:
                c = CL.Client(module_id=12, timecode=timecode, name="rc")
                try:
                    c.logger.enable_console = False
                except Exception:
                    pass
                c.connect("h:1")
                if sub_all:
                    c.subscribe([cd.ALL_MESSAGE_TYPES])
                else:
                    c.subscribe([T1])
                if how == "disconnect":
                    c.disconnect()
                elif how == "eof_on_read":
                    world["inbuf"] = b""
                    world["eof"] = True
                    try:
                        c.read_message(timeout=0.05)
                    except Exception:  # noqa: BLE001
                        pass
                    world["eof"] = False
                elif how == "reset_on_send":
                    world["sendfail"] = True
                    try:
                        c.send_signal(T1)
                    except Exception:  # noqa: BLE001
                        pass
                    world["sendfail"] = False
                # second session: handshake acks, then one signal frame of the old type is already queued
                H = get_header_cls(timecode)
                h = H()
                h.msg_type = T1
                h.src_mod_id = 33
                world["sent"] = b""
                world["inbuf"] = _ack_bytes(timecode, 12) * 2 + bytes(h)
                c.connect("h:1")
                reported = sorted(int(t) for t in c.subscribed_types)
                if reported or PV.get_sub_all(c):
                    failures.append(dict(tag, property="C02", what=f"after reconnecting, the client reports subscriptions "
                                         f"{reported}{' and subscribe-to-all' if PV.get_sub_all(c) else ''}; the manager "
                                         f"has none for the new connection"))
                got = None
                try:
                    m = c.read_message(timeout=0.05, ack=False)
                    got = None if m is None else int(m.header.msg_type)
                except Exception as e:  # noqa: BLE001
                    got = f"raised {type(e).__name__}"
                if got is not None:
                    failures.append(dict(tag, property="C08", what=f"after reconnecting (no subscription made on the new "
                                         f"connection) read_message returned {got!r} for a queued frame of type {T1}"))
                PV.set_connected(c, False)
            except Exception as e:  # noqa: BLE001
                failures.append(dict(tag, property="C02", what=f"raised {type(e).__name__}: {e}"))
                failures.append(dict(tag, property="C08", what=f"raised {type(e).__name__}: {e}"))
    finally:
        _disarm()
        _restore(CL, saved)
    return {"cases": n, "failures": failures}


# ------------------------------------------------------------------------------------------------
# the model side of the option plumbing (Model/ClientEntry.lean, driver drv_cliententry)
# ------------------------------------------------------------------------------------------------
def _enc(v: Any) -> str:
    if isinstance(v, bool):
        return "b1" if v else "b0"
    if isinstance(v, int):
        return f"i{v}"
    if isinstance(v, str):
        return "s" + v.encode("latin1").hex()
    if v is None:
        return "n"
    raise ValueError(f"cannot encode {v!r}")


def _call_line(which: str, pos: List[Any], kw: Dict[str, Any]) -> str:
    return f"CALL {which} P " + " ".join(_enc(v) for v in pos) + " K " + " ".join(f"{k} {_enc(v)}" for k, v in kw.items())


def _hexs(s: str) -> str:
    return s.encode("latin1").hex() or "-"


def entry_shapes(logger: bool, daemon: bool, allow: bool, name: str, mid: int, tc: bool):
    """every way of calling the public entry points the check exercises: (label, kind, calls); `calls` is
    {"ctor": (pos, kw), "connect": (pos, kw)} or {"ctx": (pos, kw)}; keyword order is the order written here"""
    ctor_kw = ([], {"module_id": mid, "timecode": tc, "name": name})
    ctor_pos = ([mid, 0, tc, name], {})
    only = lambda **k: {n: v for n, v in k.items() if v}  # noqa: E731  options left at their default are omitted
    yield "positional", "direct", {"ctor": ctor_kw, "connect": (["h:1", logger, daemon, allow], {})}
    yield "keyword_shuffled", "direct", {"ctor": ctor_kw, "connect": ([], {"server_name": "h:1", "allow_multiple": allow,
                                                                            "daemon_status": daemon, "logger_status": logger})}
    yield "mixed", "direct", {"ctor": ctor_pos, "connect": (["h:1", logger], {"allow_multiple": allow, "daemon_status": daemon})}
    yield "defaults_omitted", "direct", {"ctor": ([], only(module_id=mid, timecode=tc, name=name)),
                                         "connect": (["h:1"], only(daemon_status=daemon, logger_status=logger, allow_multiple=allow))}
    if not daemon:      # client_context has no daemon option
        yield "context_keyword", "context", {"ctx": ([], {"module_id": mid, "server_name": "h:1", "timecode": tc,
                                                          "logger_status": logger, "allow_multiple": allow, "name": name})}
        yield "context_positional", "context", {"ctx": ([mid, "h:1", None, 0, tc, logger, allow, name], {})}
        yield "context_defaults_omitted", "context", {"ctx": ([], dict(only(module_id=mid, timecode=tc, logger_status=logger,
                                                                           allow_multiple=allow, name=name), server_name="h:1"))}


def entry_model_cases() -> List[Dict[str, Any]]:
    """run the real Client through every shape x every combination of option values on the fake socket; returns
    [{"id", "label", "options", "protocol": [lines]}] for drv_cliententry"""
    import pyrtma.client as CL
    import pyrtma.core_defs as cd
    out: List[Dict[str, Any]] = []
    saved = _save(CL)
    n = 0
    mids = registered_mids()
    mid_lines = [f"MID {_hexs(k)} {i}" for k, i in mids]
    try:
        for logger, daemon, allow, name, mid, tc in itertools.product((False, True), (False, True), (False, True),
                                                                      ("", "nm", "a name with spaces"),
                                                                      (0, 12, 99, registered_static_id()), (False, True)):
            for label, kind, calls in entry_shapes(logger, daemon, allow, name, mid, tc):
                world = {"sent": b"", "inbuf": _ack_bytes(tc, mid or 117) * 4}
                _install(CL, _shims(world))
                cid = f"e{n}"
                n += 1
                if sum(1 for c0 in out if any("raised_Hang" in l for l in c0["protocol"])) >= 4:
                    break       # the call hangs every time: the hangs recorded so far are the verdict
                _arm()
                lines = [f"ECASE {cid} {kind}"] + mid_lines + [_call_line(w, p, k) for w, (p, k) in calls.items()]
                lines.append(f"OPT {int(logger)} {int(daemon)} {int(allow)} {mid} {_hexs(name)}")
                err = None
                try:
                    if kind == "context":
                        p, k = calls["ctx"]
                        with CL.client_context(*p, **k):
                            pass
                    else:
                        p, k = calls["ctor"]
                        c = CL.Client(*p, **k)
                        try:
                            c.logger.enable_console = False
                        except Exception:  # noqa: BLE001
                            pass
                        p, k = calls["connect"]
                        c.connect(*p, **k)
                        PV.set_connected(c, False)
                except Exception as e:  # noqa: BLE001
                    err = f"raised_{type(e).__name__}"
                frames = _decode(world["sent"], tc)
                v2 = [f for f in frames if f["type"] == cd.MT_CONNECT_V2]
                v1 = [f for f in frames if f["type"] == cd.MT_CONNECT]
                if err is None and (len(v2) != 1 or len(v1) != 1 or frames.index(v2[0]) > frames.index(v1[0])):
                    err = "handshake_is_not_CONNECT_V2_then_CONNECT"
                if err is not None:
                    lines.append(f"IMPL none {err}")
                else:
                    a, b = v2[0], v1[0]
                    lines.append(f"IMPL {int(a['logger'] == 1)} {int(a['daemon'] == 1)} {int(a['allow_multiple'] == 1)} "
                                 f"{a['mod_id']} {_hexs(a['name'])} {int(b['logger'] == 1)} {int(b['daemon'] == 1)}")
                    # a field that is neither 0 nor 1 is no boolean at all: show it to the Spec as a mismatch of both
                    if any(x not in (0, 1) for x in (a["logger"], a["daemon"], a["allow_multiple"], b["logger"], b["daemon"])):
                        lines[-1] = "IMPL none non_boolean_flag_in_payload"
                lines.append("END")
                out.append({"id": cid, "label": label, "kind": kind, "timecode": tc,
                            "options": dict(logger=logger, daemon=daemon, allow_multiple=allow, name=name, id=mid),
                            "calls": {w: [list(p), dict(k)] for w, (p, k) in calls.items()}, "protocol": lines})
    finally:
        _disarm()
        _restore(CL, saved)
    return out
