"""Shared machinery for every ./check Cnn run.

  * locating /repo (env PYRTMA_REPO overrides, default /repo) and putting <repo>/src first on sys.path
  * tie A: regenerating lean/Pyrtma/Gen/*.lean from the source tree (harness/gen_*.py plug-ins)
  * building the Lean project under a file lock, auditing axioms of the property theorems
  * talking to the Lean model driver (compiled exe, or `lake env lean --run Driver.lean` as fallback)
  * verdict rules (DESIGN.md section 3), known findings, replay files, evidence files

Nothing in here is specific to one property.
"""
from __future__ import annotations

import fcntl
import hashlib
import importlib
import json
import os
import random
import re
import shutil
import subprocess
import sys
import time
from dataclasses import dataclass, field
from pathlib import Path
from typing import Any, Callable, Dict, Iterable, List, Optional, Sequence, Tuple

VERIF = Path(__file__).resolve().parent.parent
LEAN = VERIF / "lean"
REPO = Path(os.environ.get("PYRTMA_REPO", "/repo")).resolve()
# the two output directories can be redirected (tools/mutate_check.py: sweeps over mutants of a scratch worktree must not
# overwrite the evidence and replays of the real tree)
EVIDENCE = Path(os.environ.get("VERIF_EVIDENCE_DIR") or VERIF / "evidence")
REPLAYS = Path(os.environ.get("VERIF_REPLAYS_DIR") or VERIF / "replays")
CORPUS = VERIF / "corpus"
ALLOWED_AXIOMS = {"propext", "Classical.choice", "Quot.sound"}
FORBIDDEN_RE = re.compile(
    r"\b(sorry|admit|native_decide|bv_decide|implemented_by|unsafe)\b|^\s*axiom\s|maxHeartbeats\s+0\b"
)


class MachineryError(Exception):
    """Exit code 2: the framework itself could not run (never a VIOLATION)."""


class HangError(Exception):
    """The code under test did not return within the time limit of `time_limit` (an observation, like any exception)."""


_hangs = 0          # per process: how often a time limit expired


def hangs_seen() -> int:
    return _hangs


class time_limit:
    """`with time_limit(10): real_code()` — raises HangError inside the block when it runs longer (SIGALRM, so main thread
    of the process only: elsewhere it is a no-op).  A harness calls the real code under a limit wherever a changed tree
    could loop for ever; the expiry is an observation about the code (`err internal`), never a crash of the harness.
    After a few expiries in one process the callers may stop feeding it cases (`hangs_seen()`): one failing input is enough."""

    def __init__(self, seconds: float):
        self.seconds = seconds
        self.armed = False

    def _fire(self, signum, frame):
        global _hangs
        _hangs += 1
        raise HangError(f"no result within {self.seconds} s")

    def __enter__(self):
        import signal
        import threading
        if threading.current_thread() is threading.main_thread():
            self.old = signal.signal(signal.SIGALRM, self._fire)
            signal.setitimer(signal.ITIMER_REAL, self.seconds)
            self.armed = True
        return self

    def __exit__(self, *a):
        if self.armed:
            import signal
            signal.setitimer(signal.ITIMER_REAL, 0)
            signal.signal(signal.SIGALRM, self.old)
        return False


def use_repo():
    """Make `import pyrtma` resolve to the working tree under test, not to an installed copy."""
    src = str(REPO / "src")
    if src in sys.path:
        sys.path.remove(src)
    sys.path.insert(0, src)
    for k in [k for k in sys.modules if k == "pyrtma" or k.startswith("pyrtma.")]:
        f = getattr(sys.modules[k], "__file__", None) or ""
        if not f.startswith(src):
            del sys.modules[k]


def find_node() -> Optional[str]:
    p = shutil.which("node")
    if p:
        return p
    cands = sorted(Path.home().glob(".nvm/versions/node/*/bin/node"))
    return str(cands[-1]) if cands else None


# --------------------------------------------------------------------------------------
# tie A: generated Lean sources
# --------------------------------------------------------------------------------------

def regenerate() -> Dict[str, Any]:
    """Run every harness/gen_*.py plug-in: generate(repo: Path) -> {relative lean path: text}.
    Files are rewritten only when their text changed (keeps lake's rebuild minimal).
    Returns {"files": [...], "changed": [...], "errors": {plugin: message}}."""
    out: Dict[str, Any] = {"files": [], "changed": [], "errors": {}}
    gdir = LEAN / "Pyrtma" / "Gen"
    gdir.mkdir(parents=True, exist_ok=True)
    hdir = Path(__file__).resolve().parent
    for plug in sorted(hdir.glob("gen_*.py")):
        name = plug.stem
        try:
            mod = importlib.import_module(f"harness.{name}")
            files = mod.generate(REPO)
        except Exception as e:  # a tree the translator cannot read: the tie is broken (rule 2)
            out["errors"][name] = f"{type(e).__name__}: {e}"
            continue
        for rel, text in files.items():
            p = LEAN / rel
            p.parent.mkdir(parents=True, exist_ok=True)
            out["files"].append(rel)
            if not p.exists() or p.read_text() != text:
                tmp = p.with_suffix(".tmp%d" % os.getpid())
                tmp.write_text(text)
                os.replace(tmp, p)
                out["changed"].append(rel)
    return out


# --------------------------------------------------------------------------------------
# Lean build / audit
# --------------------------------------------------------------------------------------

class BuildLock:
    def __enter__(self):
        (LEAN / ".lake").mkdir(exist_ok=True)
        self.f = open(LEAN / ".lake" / "verif.lock", "w")
        fcntl.flock(self.f, fcntl.LOCK_EX)
        return self

    def __exit__(self, *a):
        fcntl.flock(self.f, fcntl.LOCK_UN)
        self.f.close()


def _run(cmd: Sequence[str], cwd: Path, timeout: int = 3600, inp: Optional[str] = None) -> Tuple[int, str]:
    env = dict(os.environ)
    env.setdefault("LEAN_NUM_THREADS", "16")
    p = subprocess.run(cmd, cwd=str(cwd), input=inp, stdout=subprocess.PIPE, stderr=subprocess.STDOUT,
                       text=True, timeout=timeout, env=env)
    return p.returncode, p.stdout


def lake_build(targets: Sequence[str] = ()) -> Tuple[bool, str]:
    """Build the given lake targets (default: library + driver).  Returns (ok, log)."""
    if shutil.which("lake") is None:
        raise MachineryError("lake not on PATH")
    with BuildLock():
        rc, log = _run(["lake", "build", *targets], LEAN)
    return rc == 0, log


def failed_modules(log: str) -> List[str]:
    """Module names lake reports as failing (error lines look like `✖ [3/7] Building Pyrtma.Props.C11`)."""
    mods = re.findall(r"^[✖x]\s*\[\d+/\d+\]\s*(?:Building|Compiling|Linking)\s+(\S+)", log, flags=re.M)
    mods += re.findall(r"^- (Pyrtma\.\S+)$", log, flags=re.M)
    seen: List[str] = []
    for m in mods:
        if m not in seen:
            seen.append(m)
    return seen


def source_scan(paths: Iterable[Path]) -> List[str]:
    """Forbidden tokens outside comments/strings (cheap lexer: strips `--` line comments and /- -/ blocks)."""
    hits = []
    for p in paths:
        txt = p.read_text()
        txt = re.sub(r"/-.*?-/", lambda m: "\n" * m.group(0).count("\n"), txt, flags=re.S)
        for i, line in enumerate(txt.splitlines(), 1):
            code = line.split("--", 1)[0]
            code = re.sub(r'"(?:[^"\\]|\\.)*"', '""', code)
            if FORBIDDEN_RE.search(code):
                hits.append(f"{p.relative_to(LEAN)}:{i}: {line.strip()}")
    return hits


def prop_theorems(prop: str) -> List[str]:
    """Fully qualified names of the theorems declared in Props/<prop>.lean (namespace Pyrtma.<prop>)."""
    p = LEAN / "Pyrtma" / "Props" / f"{prop}.lean"
    if not p.exists():
        return []
    txt = re.sub(r"/-.*?-/", "", p.read_text(), flags=re.S)
    names = []
    ns: List[str] = []
    for line in txt.splitlines():
        line = line.split("--", 1)[0]
        m = re.match(r"\s*namespace\s+(\S+)", line)
        if m:
            ns.append(m.group(1))
            continue
        m = re.match(r"\s*end\s+(\S+)", line)
        if m and ns and ns[-1] == m.group(1):
            ns.pop()
            continue
        m = re.match(r"\s*(?:@\[[^\]]*\]\s*)?(?:private\s+|protected\s+)?theorem\s+(\S+)", line)
        if m:
            names.append(".".join(ns + [m.group(1)]))
    return names


def audit(prop: str) -> Dict[str, Any]:
    """`#print axioms` for every theorem of Props/<prop>.lean; forbidden-token scan of the whole library.
    Returns {"theorems": {name: [axioms]}, "bad": [...], "scan": [...], "ok": bool, "log": str}."""
    thms = prop_theorems(prop)
    res: Dict[str, Any] = {"theorems": {}, "bad": [], "scan": [], "ok": False, "log": ""}
    res["scan"] = source_scan(sorted((LEAN / "Pyrtma").rglob("*.lean")))
    if not thms:
        res["log"] = "no theorems found"
        return res
    adir = LEAN / ".lake" / "audit"
    adir.mkdir(parents=True, exist_ok=True)
    f = adir / f"Audit_{prop}_{os.getpid()}.lean"
    f.write_text(f"import Pyrtma.Props.{prop}\n" + "".join(f"#print axioms {t}\n" for t in thms))
    try:
        rc, log = _run(["lake", "env", "lean", str(f)], LEAN, timeout=1800)
    finally:
        f.unlink(missing_ok=True)
    res["log"] = log
    # output: "'Name' depends on axioms: [a, b]" or "'Name' does not depend on any axioms"
    for m in re.finditer(r"'([^']+)' depends on axioms: \[([^\]]*)\]", log.replace("\n ", " ")):
        res["theorems"][m.group(1)] = [a.strip() for a in m.group(2).split(",") if a.strip()]
    for m in re.finditer(r"'([^']+)' does not depend on any axioms", log):
        res["theorems"][m.group(1)] = []
    for t in thms:
        if t not in res["theorems"]:
            res["bad"].append(f"{t}: not checked")
        else:
            extra = [a for a in res["theorems"][t] if a not in ALLOWED_AXIOMS]
            if extra:
                res["bad"].append(f"{t}: axioms {extra}")
    res["ok"] = rc == 0 and not res["bad"] and not res["scan"]
    return res


def leanchecker(mods: Sequence[str]) -> Tuple[bool, str]:
    if shutil.which("leanchecker") is None:
        return True, "leanchecker not present (skipped)"
    rc, log = _run(["lake", "env", "leanchecker", *mods], LEAN, timeout=3600)
    return rc == 0, log[-2000:]


# --------------------------------------------------------------------------------------
# model driver
# --------------------------------------------------------------------------------------

def driver_cmd(model: str) -> List[str]:
    """One executable per model (lean_exe `drv_<model>`, root `Drv<Model>.lean`); interpreter as fallback."""
    exe = LEAN / ".lake" / "build" / "bin" / f"drv_{model}"
    if exe.exists() and os.environ.get("VERIF_DRIVER") != "interp":
        return [str(exe)]
    return ["lake", "env", "lean", "--run", f"Drv{model[0].upper()}{model[1:]}.lean"]


def run_driver(model: str, lines: Iterable[str], timeout: int = 3600) -> List[str]:
    """Pipe protocol lines to the Lean driver for `model`, return its output lines."""
    inp = "\n".join(lines) + "\n"
    cmd = driver_cmd(model)
    p = subprocess.run(cmd, cwd=str(LEAN), input=inp, stdout=subprocess.PIPE, stderr=subprocess.PIPE,
                       text=True, timeout=timeout)
    if p.returncode != 0:
        raise MachineryError(f"driver {model} exited {p.returncode}: {p.stderr[-2000:]}")
    return p.stdout.splitlines()


# --------------------------------------------------------------------------------------
# known findings
# --------------------------------------------------------------------------------------

def known_findings(prop: str) -> List[Dict[str, Any]]:
    p = VERIF / "known_findings.json"
    if not p.exists():
        return []
    return [e for e in json.loads(p.read_text()).get("findings", []) if e.get("property") == prop]


# --------------------------------------------------------------------------------------
# results, verdicts, evidence
# --------------------------------------------------------------------------------------

@dataclass
class Failure:
    """One implementation-level property failure: a concrete input on which the Spec predicate is false."""
    clause: str                 # which clause of the Spec failed
    case: Any                   # the replayable input
    detail: str = ""
    finding: Optional[str] = None   # id of the open known finding it matches (then not a violation)


@dataclass
class Result:
    prop: str
    tier: str
    seed: int
    t0: float = field(default_factory=time.time)
    evaluations: int = 0
    distinct: set = field(default_factory=set)
    rule: str = ""
    samples: List[Any] = field(default_factory=list)
    failures: List[Failure] = field(default_factory=list)       # PROP fail on the implementation
    corr_diffs: List[Dict[str, Any]] = field(default_factory=list)  # model != implementation
    broken: List[str] = field(default_factory=list)             # theorems / modules / ties that no longer check
    extra: Dict[str, Any] = field(default_factory=dict)
    assumptions: List[str] = field(default_factory=list)
    traces_validated: int = 0
    search_done: bool = False

    def note_case(self, key: Any, nontrivial: bool = True):
        self.evaluations += 1
        if nontrivial:
            self.distinct.add(hashlib.sha1(repr(key).encode()).digest()[:10])

    def sample(self, s: Any, cap: int = 6):
        if len(self.samples) < cap:
            self.samples.append(s)


def rng_for(seed: int, tag: str) -> random.Random:
    return random.Random(f"{seed}:{tag}")


def write_replay(prop: str, seed: int, body: Dict[str, Any]) -> str:
    REPLAYS.mkdir(exist_ok=True)
    n = 0
    while True:
        p = REPLAYS / f"{prop}-{seed}-{n}.json"
        if not p.exists():
            break
        n += 1
    body = dict(body)
    body.setdefault("property", prop)
    rel = p.relative_to(VERIF) if p.is_relative_to(VERIF) else p
    body.setdefault("rerun", f"./check {prop} --replay {rel}")
    p.write_text(json.dumps(body, indent=1, default=repr))
    return str(rel)


class _LineAware:
    """stdout wrapper that remembers whether the last thing written ended a line: the code under test prints progress
    characters without newline (`print("x", end="")` in the manager), and a verdict line must start at column 0"""

    def __init__(self, raw):
        self._raw = raw
        self.midline = False

    def write(self, s):
        if s:
            self.midline = not s.endswith("\n")
        return self._raw.write(s)

    def __getattr__(self, name):
        return getattr(self._raw, name)


if not isinstance(sys.stdout, _LineAware):
    sys.stdout = _LineAware(sys.stdout)


def _verdict_line(text: str):
    if getattr(sys.stdout, "midline", False):
        print()
    print(text, flush=True)


def finish(res: Result, build_ok: bool, build_log: str, aud: Dict[str, Any], level: str = "proof",
           checker_cmd: str = "lake build && lake env lean <audit of Props theorems>",
           trusted: Optional[List[str]] = None) -> int:
    """Apply the verdict rules, print VIOLATION / KNOWN-FINDING lines, write evidence, return exit code."""
    prop = res.prop
    thms = prop_theorems(prop)
    discharged = sum(1 for t in thms if t in aud.get("theorems", {})
                     and all(a in ALLOWED_AXIOMS for a in aud["theorems"][t])) if build_ok else 0
    if not build_ok:
        res.broken.append("lean-build: " + ", ".join(failed_modules(build_log)[:6] or ["(see log)"]))
    if build_ok and aud.get("bad"):
        res.broken.extend("audit: " + b for b in aud["bad"])
    if aud.get("scan"):
        res.broken.extend("forbidden-token: " + s for s in aud["scan"])

    exit_code = 0
    seen_findings: Dict[str, str] = {}
    real = []
    for f in res.failures:
        if f.finding:
            seen_findings.setdefault(f.finding, f.detail or f.clause)
        else:
            real.append(f)
    for fid, what in seen_findings.items():
        kf = next((e for e in known_findings(prop) if e["id"] == fid), None)
        _verdict_line(f"KNOWN-FINDING: property={prop} {fid} {kf['what'] if kf else what}")
    viol = 0
    if real:
        f = real[0]
        path = write_replay(prop, res.seed, {"kind": "failing-input", "clause": f.clause, "detail": f.detail,
                                             "case": f.case, "others": len(real) - 1})
        _verdict_line(f"VIOLATION property={prop} replay={path}")
        viol = len(real)
        exit_code = 1
    elif res.corr_diffs or res.broken:
        body = {"kind": "no-failing-input-found",
                "no_longer_checks": res.broken + [d.get("name", "corr") for d in res.corr_diffs[:5]],
                "first_corr_diff": res.corr_diffs[0] if res.corr_diffs else None,
                "build_log_tail": build_log[-3000:] if not build_ok else ""}
        path = write_replay(prop, res.seed, body)
        _verdict_line(f"VIOLATION property={prop} replay={path} no-failing-input-found")
        viol = 1
        exit_code = 1

    cov: Dict[str, Any] = {
        "obligations": max(len(thms), 1),
        "discharged": discharged,
        "checker_cmd": checker_cmd,
        "trusted_base": trusted or [
            "Lean 4.33.0 kernel", "axioms: propext, Classical.choice, Quot.sound only (audited by #print axioms)",
            "harness/ correspondence check (differential testing of model vs /repo code)",
            "harness/gen_*.py translators for Gen/*.lean"],
        "theorems": {t: aud.get("theorems", {}).get(t) for t in thms},
        "evaluations": res.evaluations,
        "distinct_nontrivial": len(res.distinct),
        "rule": res.rule,
        "samples": res.samples or ["(none)"],
        "traces_validated_against_impl": res.traces_validated,
        "corr_diffs": len(res.corr_diffs),
        "impl_prop_failures": len(real),
        "known_findings_seen": sorted(seen_findings),
        "broken": res.broken,
    }
    cov.update(res.extra)
    ev = {"property_id": prop, "tier": res.tier, "seed": res.seed, "level": level, "coverage": cov,
          "assumptions": res.assumptions, "wall_s": round(time.time() - res.t0, 2), "violations": viol}
    EVIDENCE.mkdir(exist_ok=True)
    (EVIDENCE / f"{prop}.json").write_text(json.dumps(ev, indent=1, default=repr))
    return exit_code


# --------------------------------------------------------------------------------------
# running the real code in a child process (an interpreter killed by the code under test still ends in a verdict)
# --------------------------------------------------------------------------------------

_CRUMB = None          # anonymous shared mapping: the child writes the case it is about to run, the parent reads it


def crumb(obj: Any):
    """announce the case that is run next (cheap: one write into shared memory; a no-op outside `run_isolated`)"""
    if _CRUMB is None:
        return
    try:
        b = json.dumps(obj, default=repr).encode()[:len(_CRUMB) - 8]
    except Exception:  # noqa: BLE001
        return
    _CRUMB[4:4 + len(b)] = b
    _CRUMB[0:4] = len(b).to_bytes(4, "little")


def run_isolated(decide: Callable[[], int], res: Result) -> int:
    import mmap
    import signal
    import tempfile
    global _CRUMB
    _CRUMB = mmap.mmap(-1, 1 << 20)
    fh = tempfile.TemporaryFile(mode="w+")
    sys.stdout.flush()
    sys.stderr.flush()
    pid = os.fork()
    if pid == 0:
        code = 2
        try:
            import faulthandler
            faulthandler.enable(file=fh, all_threads=False)
            code = decide()
        except BaseException:  # noqa: BLE001
            import traceback
            traceback.print_exc()
        finally:
            sys.stdout.flush()
            sys.stderr.flush()
            os._exit(code)
    _, status = os.waitpid(pid, 0)
    if not os.WIFSIGNALED(status):
        return os.WEXITSTATUS(status)
    sig = os.WTERMSIG(status)
    if sig not in (signal.SIGSEGV, signal.SIGABRT, signal.SIGBUS, signal.SIGILL, signal.SIGFPE):
        print(f"machinery failure: the run was killed by signal {sig}")      # (killed from outside, out of memory, ...)
        return 2
    n = int.from_bytes(_CRUMB[0:4], "little")
    try:
        last = json.loads(bytes(_CRUMB[4:4 + n]).decode()) if n else None
    except Exception:  # noqa: BLE001
        last = None
    fh.seek(0)
    where = fh.read()[-3000:]
    name = signal.Signals(sig).name
    what = (f"tie: the code under test killed the interpreter ({name}) while the harness ran it - the model never "
            f"crashes; memory was written outside the message (the case announced last may not be the one that did it)")
    body = {"kind": "no-failing-input-found", "no_longer_checks": [what],
            "first_corr_diff": {"name": "corr:interpreter-crash", "diff": name, "case": last}, "python_stack": where}
    path = write_replay(res.prop, res.seed, body)
    _verdict_line(f"VIOLATION property={res.prop} replay={path} no-failing-input-found")
    ev = {"property_id": res.prop, "tier": res.tier, "seed": res.seed, "level": "proof",
          "coverage": {"broken": [what], "evaluations": 0, "obligations": max(len(prop_theorems(res.prop)), 1), "discharged": 0},
          "assumptions": [], "wall_s": round(time.time() - res.t0, 2), "violations": 1}
    EVIDENCE.mkdir(exist_ok=True)
    (EVIDENCE / f"{res.prop}.json").write_text(json.dumps(ev, indent=1, default=repr))
    return 1


# --------------------------------------------------------------------------------------
# driver output handling shared by the property modules
# --------------------------------------------------------------------------------------

def parse_driver(lines: Iterable[str]) -> Dict[str, Dict[str, Any]]:
    """`<id> CORR ok|diff ...` and `<id> PROP <Cnn> ok|skip|fail <clause...>` -> {id: {"corr": [...], "props": {Cnn: str}}}"""
    out: Dict[str, Dict[str, Any]] = {}
    for ln in lines:
        t = ln.split(" ", 3)
        if len(t) < 3:
            continue
        d = out.setdefault(t[0], {"corr": [], "props": {}})
        if t[1] == "CORR":
            if t[2] != "ok":
                d["corr"].append(" ".join(t[2:]))
        elif t[1] == "PROP":
            d["props"].setdefault(t[2], []).append(t[3] if len(t) > 3 else "")
    return out


def match_finding(prop: str, clause: str, case: Any, matchers: Dict[str, Callable[[str, Any], bool]]) -> Optional[str]:
    """Open known findings only; `matchers[id](clause, case)` is the committed signature predicate."""
    for e in known_findings(prop):
        if e.get("status") == "open" and e["id"] in matchers and matchers[e["id"]](clause, case):
            return e["id"]
    return None
