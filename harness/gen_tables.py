"""Tie A for C04/C15: the native-type tables of the parser and of every back end, read from the working tree
by `ast` (the package is NOT imported) and written as Lean data `Pyrtma/Gen/TypeTables.lean`.

Tables extracted (each a dict literal in the source):
    parser.supported_types                      key -> NativeType(name=, size=, format=)
    parser.Parser.get_ctype_cls.type_map        key -> ctypes.<attr>
    compilers/python.type_map, .desctype_map    key -> "ctypes.c_x" / "Int16"
    compilers/c99.type_map                      key -> "int32_t"
    compilers/javascript.type_map               key -> '""' | 0
    compilers/matlab.type_map                   key -> "int32"

If a table is no longer a literal the module is imported as a fallback and the object read; if the name is gone
the translator raises (the tie is then reported broken by `check`, verdict rule 2).
"""
from __future__ import annotations

import ast
import importlib.util
import sys
from pathlib import Path
from typing import Any, Dict, List, Optional, Tuple


def _find_assign(tree: ast.AST, name: str) -> Optional[ast.AST]:
    for node in ast.walk(tree):
        if isinstance(node, ast.Assign) and len(node.targets) == 1 and isinstance(node.targets[0], ast.Name) \
                and node.targets[0].id == name:
            return node.value
        if isinstance(node, ast.AnnAssign) and isinstance(node.target, ast.Name) and node.target.id == name \
                and node.value is not None:
            return node.value
    return None


def _find_func(tree: ast.AST, qual: str) -> Optional[ast.AST]:
    cur: Any = tree
    for part in qual.split("."):
        nxt = None
        for node in ast.iter_child_nodes(cur):
            if isinstance(node, (ast.ClassDef, ast.FunctionDef)) and node.name == part:
                nxt = node
                break
        if nxt is None:
            return None
        cur = nxt
    return cur


def _str_dict(node: ast.AST) -> Optional[List[Tuple[str, str]]]:
    """dict literal with str keys; values rendered: str constant -> itself, int -> repr, ctypes.x -> 'x'."""
    if not isinstance(node, ast.Dict):
        return None
    out = []
    for k, v in zip(node.keys, node.values):
        if not (isinstance(k, ast.Constant) and isinstance(k.value, str)):
            return None
        if isinstance(v, ast.Constant):
            out.append((k.value, v.value if isinstance(v.value, str) else repr(v.value)))
        elif isinstance(v, ast.Attribute):
            out.append((k.value, v.attr))
        else:
            return None
    return out


def _supported(node: ast.AST) -> Optional[List[Tuple[str, str, int, str]]]:
    if not isinstance(node, ast.Dict):
        return None
    out = []
    for k, v in zip(node.keys, node.values):
        if not (isinstance(k, ast.Constant) and isinstance(v, ast.Call)):
            return None
        kw = {a.arg: a.value for a in v.keywords}
        pos = list(v.args)
        for i, nm in enumerate(("name", "size", "format")):
            if nm not in kw and i < len(pos):
                kw[nm] = pos[i]
        try:
            out.append((k.value, kw["name"].value, int(kw["size"].value), kw["format"].value))
        except Exception:
            return None
    return out


def _dicts_keyed_by(tree: ast.AST, keys: List[str], values_ok=None) -> List[Tuple[str, List[Tuple[str, str]]]]:
    """[(name, rows)] of every dict literal assigned to a name anywhere in `tree` whose string keys cover `keys` (the
    native type names) and whose values `_str_dict` can render — whatever the table is called and wherever it stands
    (module level, class level, inside a function)"""
    out = []
    want = set(keys)
    for node in ast.walk(tree):
        if isinstance(node, ast.Assign) and len(node.targets) == 1:
            tgt, val = node.targets[0], node.value
        elif isinstance(node, ast.AnnAssign) and node.value is not None:
            tgt, val = node.target, node.value
        else:
            continue
        rows = _str_dict(val)
        if rows is None or not want <= {k for k, _ in rows}:
            continue
        if values_ok is not None and not all(values_ok(val.values[i]) for i in range(len(rows))):
            continue
        name = tgt.id if isinstance(tgt, ast.Name) else getattr(tgt, "attr", "?")
        out.append((name, rows))
    return out


def _is_ctypes_attr(v: ast.AST) -> bool:
    return isinstance(v, ast.Attribute) and isinstance(v.value, ast.Name) and v.value.id == "ctypes"


def _import_fallback(repo: Path, modname: str):
    src = str(repo / "src")
    sys.path.insert(0, src)
    try:
        for k in [k for k in sys.modules if k == "pyrtma" or k.startswith("pyrtma.")]:
            del sys.modules[k]
        return importlib.import_module(modname)
    finally:
        sys.path.remove(src)


def _measure_parser_ctypes(repo: Path, supported) -> Optional[List[Tuple[str, str]]]:
    """last resort for the parser's ctypes table: ask `Parser.get_ctype_cls` itself — a one-field struct per native
    type, and the name of a sized ctypes type that IS the class it chose"""
    import ctypes
    sized = ["c_char", "c_byte", "c_ubyte", "c_int8", "c_uint8", "c_int16", "c_uint16", "c_int32", "c_uint32", "c_int64",
             "c_uint64", "c_float", "c_double"]
    try:
        P = _import_fallback(repo, "pyrtma.parser")
        out = []
        for name in sorted({n for _, n, _, _ in supported}):
            nt = next(v for v in P.supported_types.values() if v.name == name)
            s = P.SDF("", "", "Probe", src=Path("probe.yaml"))
            s.fields.append(P.Field(name="f", type_name=name, type_obj=nt))
            ct = P.Parser().get_ctype_cls(s)._fields_[0][1]
            nm = next((a for a in sized if getattr(ctypes, a) is ct), None)
            if nm is None:
                return None
            out.append((name, nm))
        return out
    except Exception:  # noqa: BLE001
        return None


def read_tables(repo: Path) -> Dict[str, Any]:
    src = repo / "src" / "pyrtma"
    t: Dict[str, Any] = {}
    ptree = ast.parse((src / "parser.py").read_text())
    sup = _find_assign(ptree, "supported_types")
    t["supported"] = _supported(sup) if sup is not None else None
    fn = _find_func(ptree, "Parser.get_ctype_cls")
    tm = _find_assign(fn, "type_map") if fn is not None else None
    t["parserCtypes"] = _str_dict(tm) if tm is not None else None
    for key, file, var in (("pyCtypes", "python.py", "type_map"), ("pyDesc", "python.py", "desctype_map"),
                           ("c99", "c99.py", "type_map"), ("js", "javascript.py", "type_map"),
                           ("matlab", "matlab.py", "type_map")):
        tree = ast.parse((src / "compilers" / file).read_text())
        node = _find_assign(tree, var)
        t[key] = _str_dict(node) if node is not None else None
    # `from .core_defs import MAX_MESSAGE_TYPES` (parser.py): the bound of `validate_msg_id`
    mx = None
    try:
        node = _find_assign(ast.parse((src / "core_defs.py").read_text()), "MAX_MESSAGE_TYPES")
        if isinstance(node, ast.Constant) and isinstance(node.value, int):
            mx = node.value
    except OSError:
        pass
    # A table that is not where / called what it used to be is looked for by its *shape*: the dict literal keyed by the
    # native type names (`NativeType.name` for the parser's ctypes table, the keys of `supported_types` for the back ends).
    # python.py has two such tables: the one whose values are "ctypes.*" strings and the one with descriptor class names.
    if t["supported"] is not None:
        keys = [k for k, _, _, _ in t["supported"]]
        names = sorted({n for _, n, _, _ in t["supported"]})
        if t["parserCtypes"] is None:
            c = _dicts_keyed_by(ptree, names, _is_ctypes_attr)
            if len(c) == 1:
                t["parserCtypes"] = c[0][1]
        for key, file in (("pyCtypes", "python.py"), ("pyDesc", "python.py"), ("c99", "c99.py"), ("js", "javascript.py"),
                          ("matlab", "matlab.py")):
            if t[key] is not None:
                continue
            c = _dicts_keyed_by(ast.parse((src / "compilers" / file).read_text()), keys)
            if file == "python.py":
                is_ct = lambda rows: all(v.startswith("ctypes.") for _, v in rows)  # noqa: E731
                c = [x for x in c if is_ct(x[1]) == (key == "pyCtypes")]
            if len(c) == 1:
                t[key] = c[0][1]
    missing = [k for k, v in t.items() if v is None]
    t["maxMessageTypes"] = mx if mx is not None else sys.maxsize   # the parser's own fallback
    if missing:
        # fallback: import and read the objects (parserCtypes lives inside a method: no fallback)
        if "supported" in missing:
            m = _import_fallback(repo, "pyrtma.parser")
            t["supported"] = [(k, v.name, v.size, v.format) for k, v in m.supported_types.items()]
        for key, mod, var in (("pyCtypes", "python", "type_map"), ("pyDesc", "python", "desctype_map"),
                              ("c99", "c99", "type_map"), ("js", "javascript", "type_map"),
                              ("matlab", "matlab", "type_map")):
            if key in missing:
                m = _import_fallback(repo, f"pyrtma.compilers.{mod}")
                d = getattr(m, var)
                t[key] = [(k, v if isinstance(v, str) else repr(v)) for k, v in d.items()]
        if t.get("parserCtypes") is None:
            t["parserCtypes"] = _measure_parser_ctypes(repo, t["supported"])
        if t.get("parserCtypes") is None:
            raise RuntimeError("the ctypes table of Parser.get_ctype_cls was not found (no dict literal keyed by the "
                               "native type names with ctypes.* values) and could not be measured")
    return t


def _ls(s: str) -> str:
    return '"' + s.replace("\\", "\\\\").replace('"', '\\"') + '"'


def generate(repo: Path) -> Dict[str, str]:
    t = read_tables(repo)
    L = ["/-! GENERATED by harness/gen_tables.py from the working tree of the code under test — do not edit. -/",
         "namespace Pyrtma.Gen.TypeTables", ""]
    L.append("/-- `parser.supported_types`: (key, NativeType.name, size, struct format letter) -/")
    L.append("def supported : List (String × String × Nat × String) := [")
    L.append(",\n".join(f"  ({_ls(k)}, {_ls(n)}, {s}, {_ls(f)})" for k, n, s, f in t["supported"]))
    L.append("]\n")
    for key, doc in (("parserCtypes", "`Parser.get_ctype_cls.type_map` (ctypes attribute names)"),
                     ("pyCtypes", "`compilers/python.type_map`"), ("pyDesc", "`compilers/python.desctype_map`"),
                     ("c99", "`compilers/c99.type_map`"), ("js", "`compilers/javascript.type_map` (default value text)"),
                     ("matlab", "`compilers/matlab.type_map`")):
        L.append(f"/-- {doc} -/")
        L.append(f"def {key} : List (String × String) := [")
        L.append(",\n".join(f"  ({_ls(k)}, {_ls(v)})" for k, v in t[key]))
        L.append("]\n")
    L.append("/-- `core_defs.MAX_MESSAGE_TYPES` (upper bound of `Parser.validate_msg_id`) -/")
    L.append(f"def maxMessageTypes : Nat := {t['maxMessageTypes']}\n")
    L.append("end Pyrtma.Gen.TypeTables\n")
    return {"Pyrtma/Gen/TypeTables.lean": "\n".join(L)}


if __name__ == "__main__":
    import json
    print(json.dumps(read_tables(Path(sys.argv[1] if len(sys.argv) > 1 else "/repo")), indent=1))
