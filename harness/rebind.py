"""Pointing a module of the code under test at the harness's stand-ins, however that module spells its imports.

The hook-free drivers replace the operating-system facing modules a source file uses (`socket`, `select`, `time`,
`random`, `threading`, `os.getpid`, ...) by deterministic fakes.  Writing `M.time = clock` only works while the file says
`import time` and calls `time.perf_counter()`.  A maintainer may just as well write `from time import perf_counter`,
`import time as _time` or `from select import select as wait`: nothing a property speaks about changes, so the drivers
must keep working.  `rebind(M, {"time": clock, ...})` therefore looks at what the module-level names of `M` are *bound to*:

  * a name bound to the real module `time` (under any alias)            -> the fake module object;
  * a name bound to a public callable / class of the real module
    (`perf_counter`, `select`, `shuffle`, `Event`, under any alias)      -> the attribute of the same name of the fake;
  * the conventional name itself (`M.time`), bound or not                -> the fake (what the drivers always did).

What was found is remembered on the module (`__verif_rebound__`), so that the next call — the names now hold the previous
fakes, not the real objects — replaces the same names again.  `snapshot` / `reinstate` save and put back exactly what the
touched names held.  Drivers must NOT also assign `M.select = fake` themselves: with `from select import select` that
would overwrite the function the code calls with a module-like object.  A name whose counterpart the fake does not offer is left alone
(the real function keeps being used: no worse than before).  Only module-level bindings are considered; plain data
(`from socket import MSG_WAITALL`: an int) needs no replacement and is never touched.
"""
from __future__ import annotations

import importlib
from typing import Any, Dict, Tuple

_KEY = "__verif_rebound__"


def _discover(mod, real_name: str) -> Dict[str, Tuple[str, Any]]:
    """global name of `mod` -> (real module name, attribute name | None) for everything bound to the real module"""
    found: Dict[str, Tuple[str, Any]] = {}
    try:
        real = importlib.import_module(real_name)
    except Exception:
        return found
    members = {}
    for a in dir(real):
        if a.startswith("__"):
            continue
        try:
            v = getattr(real, a)
        except Exception:
            continue
        if callable(v):
            members.setdefault(id(v), (a, v))
    for g, val in list(vars(mod).items()):
        if g.startswith("__"):
            continue
        if val is real:
            found[g] = (real_name, None)
        elif callable(val) and id(val) in members and members[id(val)][1] is val:
            found[g] = (real_name, members[id(val)][0])
    return found


def rebind(mod, fakes: Dict[str, Any]) -> Dict[str, Tuple[str, Any]]:
    """see the module docstring; returns the table global name -> (real module, attribute | None) used.
    A fake given as a `dict` {attribute: stand-in} replaces only the names bound to those attributes (`from os import
    getpid`); the caller patches the attribute on the real module itself for the `os.getpid()` spelling."""
    table: Dict[str, Tuple[str, Any]] = mod.__dict__.setdefault(_KEY, {})
    done = mod.__dict__.setdefault(_KEY + "done", set())
    for real_name in fakes:
        if real_name not in done:
            # first time: the names still hold the real objects
            table.update(_discover(mod, real_name))
            done.add(real_name)
    for g, (real_name, attr) in table.items():
        if real_name not in fakes:
            continue
        fake = fakes[real_name]
        if isinstance(fake, dict):
            if attr is not None and attr in fake:
                setattr(mod, g, fake[attr])
        elif attr is None:
            setattr(mod, g, fake)
        elif hasattr(fake, attr):
            setattr(mod, g, getattr(fake, attr))
    for real_name, fake in fakes.items():
        if isinstance(fake, dict):
            continue
        # the conventional spelling, also when the file has no such global (any more): harmless
        leaf = real_name.rsplit(".", 1)[-1]
        if (leaf not in table) or table[leaf] == (real_name, None):
            setattr(mod, leaf, fake)
    return table


_ABSENT = object()


def snapshot(mod, real_names) -> Dict[str, Any]:
    """what every name `rebind(mod, {name: ...})` would touch holds now (to be handed to `reinstate` afterwards)"""
    table: Dict[str, Tuple[str, Any]] = mod.__dict__.setdefault(_KEY, {})
    done = mod.__dict__.setdefault(_KEY + "done", set())
    for real_name in real_names:
        if real_name not in done:
            table.update(_discover(mod, real_name))
            done.add(real_name)
    names = [g for g, (rn, _) in table.items() if rn in real_names] + [rn.rsplit(".", 1)[-1] for rn in real_names]
    return {g: mod.__dict__.get(g, _ABSENT) for g in names}


def reinstate(mod, snap: Dict[str, Any]) -> None:
    """undo rebind(): every name gets back exactly what `snapshot` saw (names that did not exist are removed)"""
    for g, v in snap.items():
        if v is _ABSENT:
            mod.__dict__.pop(g, None)
        else:
            setattr(mod, g, v)
