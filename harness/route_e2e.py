"""C01 end to end: real `Client` objects on both sides of the real `MessageManager.run()`.

The manager half of C01 is decided on the manager's byte streams (mgr_props).  The property is anchored in client.py and
header.py as well: what counts for a user is what `Client.read_message` hands to the subscribing program.  Here several real
Client objects (ordinary modules, a logger with individual subscriptions, a logger subscribed to everything, a module
subscribed to everything, a publisher subscribed to its own type, paused types) connect through in-memory sockets
(client_corr.World) to the real manager; a real publisher sends data messages and signals with destination 0 / a subscriber /
a third module / out-of-range; every client then drains `read_message`.  Expected, from the property text alone:
client c receives message m exactly once, in publishing order, with type, source, destination ids and payload bytes unchanged,
iff c is subscribed to m's type and the type is not paused (or c is subscribed to everything), and m's destination module is
0, c's own id, or c is a logger; nothing else is returned.  Implementation-side (PROP) check: there is no model leg."""
from __future__ import annotations

import random
from typing import Any, Dict, List, Tuple

from . import common as C

TYPES = {6100: 8, 6101: 0, 6102: 24, 6103: 2}     # type id -> payload size (6101 is a signal)
_DEFS: Dict[int, Any] = {}


def _defs(PM):
    if _DEFS:
        PM._msg_defs.update(_DEFS)
        return
    from pyrtma.message_data import MessageData
    from pyrtma.message_base import MessageMeta
    from pyrtma.validators import ByteArray
    for tid, size in TYPES.items():
        ns: Dict[str, Any] = {"type_id": tid, "type_name": f"E{tid}", "type_hash": 0x1000 + tid, "type_size": size,
                              "type_source": "", "type_def": "", "__annotations__": {}}
        if size:
            ns["b"] = ByteArray(size)
            ns["__annotations__"]["b"] = ByteArray
        _DEFS[tid] = MessageMeta(f"MDF_E{tid}", (MessageData,), ns)
    PM._msg_defs.update(_DEFS)


def gen_case(rng: random.Random) -> Dict[str, Any]:
    ALL = "ALL"
    n = rng.choice([2, 3, 4, 5])
    ids = rng.sample(range(10, 60), n + 1)
    clients = []
    for i in range(n):
        kind = rng.choice(["plain", "plain", "logger", "logger", "all", "logger_all"])
        subs: Any = ALL if kind in ("all", "logger_all") else sorted(rng.sample(list(TYPES), rng.choice([1, 2, 3])))
        paused = [] if subs == ALL else [t for t in subs if rng.random() < 0.2]
        clients.append({"id": ids[i], "logger": kind.startswith("logger"), "subs": subs, "paused": paused})
    pub = {"id": ids[n], "subs": sorted(rng.sample(list(TYPES), rng.choice([0, 0, 1])))}
    msgs = []
    for k in range(rng.choice([3, 6, 12])):
        t = rng.choice(list(TYPES))
        dest = rng.choice([0, 0, 0, rng.choice(ids), rng.choice(ids), 199, 7])
        msgs.append({"type": t, "dest": dest, "host": rng.choice([0, 0, 0, 1, 5]),
                     "fill": rng.randrange(256), "step": rng.choice([1, 7, 255])})
    return {"clients": clients, "pub": pub, "msgs": msgs}


def directed() -> List[Dict[str, Any]]:
    out = []
    # a logger with individual subscriptions hears messages addressed to somebody else; an ordinary module does not
    for lg_subs in ([6100], [6100, 6101], "ALL"):
        out.append({"clients": [{"id": 30, "logger": True, "subs": lg_subs, "paused": []},
                                {"id": 20, "logger": False, "subs": [6100, 6101], "paused": []},
                                {"id": 21, "logger": False, "subs": [6100], "paused": []}],
                    "pub": {"id": 40, "subs": [6100]},
                    "msgs": [{"type": 6100, "dest": 0, "host": 0, "fill": 1, "step": 1},
                             {"type": 6100, "dest": 20, "host": 0, "fill": 2, "step": 1},
                             {"type": 6101, "dest": 20, "host": 0, "fill": 0, "step": 1},
                             {"type": 6100, "dest": 40, "host": 0, "fill": 3, "step": 7},
                             {"type": 6100, "dest": 30, "host": 1, "fill": 4, "step": 1},
                             {"type": 6100, "dest": 99, "host": 0, "fill": 5, "step": 1}]})
    return out


def run_case(case: Dict[str, Any]) -> List[str]:
    """returns the list of clause failures (empty = the property held on this case)"""
    import contextlib, io
    with contextlib.redirect_stdout(io.StringIO()):      # the manager prints an "x" per dropped delivery
        return _run_case(case)


def _run_case(case: Dict[str, Any]) -> List[str]:
    C.use_repo()
    from . import client_corr as CC
    w = CC.World()
    _defs(__import__("pyrtma.message", fromlist=["x"]))
    cd = w.cd
    fails: List[str] = []
    objs: List[Tuple[Dict[str, Any], Any]] = []
    try:
        for spec in case["clients"]:
            c = w.PC.Client(module_id=spec["id"])
            c.connect("127.0.0.1:7111", logger_status=spec["logger"])
            c.subscribe([cd.ALL_MESSAGE_TYPES] if spec["subs"] == "ALL" else list(spec["subs"]))
            if spec["paused"]:
                c.pause_subscription(list(spec["paused"]))
            objs.append((spec, c))
        pspec = case["pub"]
        pub = w.PC.Client(module_id=pspec["id"])
        pub.connect("127.0.0.1:7111")
        if pspec["subs"]:
            pub.subscribe(list(pspec["subs"]))
        objs.append(({"id": pspec["id"], "logger": False, "subs": pspec["subs"], "paused": []}, pub))
        sent = []
        for m in case["msgs"]:
            size = TYPES[m["type"]]
            if size == 0:
                pub.send_signal(m["type"], dest_mod_id=m["dest"], dest_host_id=m["host"])
                pay = b""
            else:
                d = _DEFS[m["type"]]()
                pay = bytes((m["fill"] + m["step"] * i) % 256 for i in range(size))
                d.b[:] = list(pay)
                pub.send_message(d, dest_mod_id=m["dest"], dest_host_id=m["host"])
            sent.append((m["type"], pspec["id"], m["dest"], m["host"], pay))
        w.pump()
        in_range = lambda m: 0 <= m[2] <= cd.MAX_MODULES and 0 <= m[3] <= cd.MAX_HOSTS
        for spec, c in objs:
            got = []
            # the ACKNOWLEDGE frames of the subscription calls are still queued (the client API does not wait for them) and
            # `read_message(timeout=0)` gives up after discarding one frame: read with a (fake-clock) timeout instead
            for _ in range(len(sent) + 40 * (len(objs) + 2)):
                msg = c.read_message(timeout=0.05)
                if msg is None:
                    break
                got.append((msg.header.msg_type, msg.header.src_mod_id, msg.header.dest_mod_id, msg.header.dest_host_id,
                            bytes(msg.data)))
            if spec["subs"] == "ALL":      # also hears the manager's own messages (ACKNOWLEDGE copies, CLIENT_INFO …)
                got = [g for g in got if g[0] in TYPES]
            want = [m for m in sent if in_range(m)
                    and (spec["subs"] == "ALL" or (m[0] in spec["subs"] and m[0] not in spec["paused"]))
                    and (m[2] == 0 or m[2] == spec["id"] or spec["logger"])]
            if got != want:
                missing = [m[:4] for m in want if m not in got]
                extra = [g[:4] for g in got if g not in want]
                what = (f"did not get {missing[:3]}" if missing else f"got {extra[:3]} it is no recipient of" if extra
                        else "got the right messages in another order, more than once, or with other bytes")
                fails.append(f"e2e_real_clients: client id {spec['id']} (logger={spec['logger']}, subscribed to {spec['subs']}, "
                             f"paused {spec['paused']}) {what}; read_message returned {len(got)} messages, {len(want)} were due")
    except BaseException as e:  # noqa: BLE001 -- an exception out of the client API on a legal call sequence is a failure
        if isinstance(e, (KeyboardInterrupt, SystemExit)):
            raise
        fails.append(f"e2e_real_clients: {type(e).__name__}: {e}")
    return fails


def run(seed: int, deep: bool) -> Dict[str, Any]:
    rng = C.rng_for(seed, "C01e2e" + ("deep" if deep else ""))
    cases = directed() + [gen_case(rng) for _ in range(1500 if deep else 150)]
    failures = []
    for i, case in enumerate(cases):
        for f in run_case(case):
            failures.append({"case": {"kind": "e2e", "n": i, "case": case}, "clause": f.split(":")[0], "detail": f})
    return {"cases": len(cases), "failures": failures,
            "messages": sum(len(c["msgs"]) for c in cases), "clients": sum(len(c["clients"]) + 1 for c in cases)}
