"""Tie B for M9 (Model/Emit.lean): the real `pyrtma.compile.compile` on generated definition closures
against the Lean model, plus the Specs of C04 / C15 / C16 evaluated on what the real compiler produced.

A *closure* is a dict
    {"files": {fname: FileSpec}, "root": fname, "auto_pad": bool, "coredefs": bool, "documented": bool, "tags": [...]}
    FileSpec = {"imports": [fname], "constants": [[name, expr, value]], "strings": [[name, text]],
                "aliases": [[name, target]], "hosts": [[name, int]], "mods": [[name, int]],
                "structs": [[name, fields]], "messages": [[name, id, fields|None]], "reserved": [ids|"a-b"]}
    fields = [[fname, type, lenexpr|None, lenvalue|None], ...]  or  "OTHER" (field-list reuse)
(JSON-able, so a failing closure is its own replay).

Protocol sent to `drv_emit` (identifiers are interned to numbers, `padding_<k>_` is 1000000+k):
    T <table> ...                      the native tables, once
    CASE <id> <autoPad> <documented> <skipHdr>
    FILE <core> <abs path comps>       start of the next file of the closure (parse order, imports first), its resolved path
    PKG <core_defs> <abs path comps>   the package directory (what `core_defs/*.yaml` are relative to)
    ENV <n> <cwd comps> <abs> <segs>   the environment of one real compile run: working directory, root path as spelled
    SRC <name> <segs>                  `type_source` of one class of the real Python output
    ITEM <core> <kind> ...             the closure flattened in parse order, lengths evaluated
    YAML sec <k> <n> | <item>          the real combined YAML, section by section in file order (canonical lines)
    OUTCOME ok | err <alignment|tooLarge|syntax|internal>
    REG a|s|m ...                      aliases / structs / messages of the real Parser object
    REG2 ...                           the same after re-parsing the combined YAML
    PY|C|JS|M <statement>              the four real outputs parsed into abstract statements
    MEAS <name> <gcc offsets> <gcc size> <ctypes offsets> <ctypes size> <type_size>
    LOAD py|c|js|m 0|1                 did the real tool load it (CPython import / gcc / node / .m interpreter)
    END
"""
from __future__ import annotations

import ast
import contextlib
import hashlib
import io
import json
import os
import re
import shutil
import struct
import subprocess
import sys
import tempfile
from pathlib import Path
from typing import Any, Dict, List, Optional, Tuple

from . import common as C
from . import gen_tables

PAD_BASE = 1000000
PY = "/venv/bin/python" if os.path.exists("/venv/bin/python") else sys.executable

# ------------------------------------------------------------------------------------------------
# denotations of target-language type names (mirror of lean/Pyrtma/Spec/Denote.lean; trusted, 40-odd rows)
# ------------------------------------------------------------------------------------------------
FMT = {"c": (1, "c"), "b": (1, "s"), "B": (1, "u"), "h": (2, "s"), "H": (2, "u"), "i": (4, "s"), "I": (4, "u"),
       "q": (8, "s"), "Q": (8, "u"), "f": (4, "f"), "d": (8, "f")}
CTYPES = {"c_char": (1, "c"), "c_byte": (1, "s"), "c_ubyte": (1, "u"), "c_int8": (1, "s"), "c_uint8": (1, "u"),
          "c_int16": (2, "s"), "c_uint16": (2, "u"), "c_int32": (4, "s"), "c_uint32": (4, "u"),
          "c_int64": (8, "s"), "c_uint64": (8, "u"), "c_float": (4, "f"), "c_double": (8, "f"),
          "c_short": (2, "s"), "c_ushort": (2, "u"), "c_int": (4, "s"), "c_uint": (4, "u"),
          "c_longlong": (8, "s"), "c_ulonglong": (8, "u")}
PYDESC = {"Char": (1, "c"), "Byte": (1, "u"), "Int8": (1, "s"), "Uint8": (1, "u"), "Int16": (2, "s"),
          "Uint16": (2, "u"), "Int32": (4, "s"), "Uint32": (4, "u"), "Int64": (8, "s"), "Uint64": (8, "u"),
          "Float": (4, "f"), "Double": (8, "f")}
CTYPE = {"char": (1, "c"), "signed char": (1, "s"), "unsigned char": (1, "u"), "int8_t": (1, "s"), "uint8_t": (1, "u"),
         "int16_t": (2, "s"), "uint16_t": (2, "u"), "int32_t": (4, "s"), "uint32_t": (4, "u"),
         "int64_t": (8, "s"), "uint64_t": (8, "u"), "float": (4, "f"), "double": (8, "f"),
         "short": (2, "s"), "unsigned short": (2, "u"), "int": (4, "s"), "unsigned int": (4, "u"),
         "long long": (8, "s"), "unsigned long long": (8, "u")}
MATLAB = {"int8": (1, "s"), "uint8": (1, "u"), "int16": (2, "s"), "uint16": (2, "u"), "int32": (4, "s"),
          "uint32": (4, "u"), "int64": (8, "s"), "uint64": (8, "u"), "single": (4, "f"), "double": (8, "f"),
          "char": (2, "c")}


class Interner:
    def __init__(self):
        self.ids: Dict[str, int] = {}
        self.names: List[str] = []

    def __call__(self, s: str) -> int:
        m = re.fullmatch(r"padding_(\d+)_", s)
        if m:
            return PAD_BASE + int(m.group(1))
        if s not in self.ids:
            self.ids[s] = len(self.names) + 1
            self.names.append(s)
        return self.ids[s]


def den_tok(d: Optional[Tuple[int, str]]) -> str:
    return "0.f" if d is None else f"{d[0]}.{d[1]}"


# ------------------------------------------------------------------------------------------------
# tables for the driver, read from the working tree (same reader as tie A)
# ------------------------------------------------------------------------------------------------
_TABLES: Optional[Dict[str, Any]] = None


def tables() -> Dict[str, Any]:
    global _TABLES
    if _TABLES is None:
        _TABLES = gen_tables.read_tables(C.REPO)
    return _TABLES


def table_lines(I: Interner) -> List[str]:
    t = tables()

    def dl(rows, table):
        out = []
        for k, v in rows:
            d = table.get(v[7:] if v.startswith("ctypes.") else v)
            out.append(f"{I(k)}:{d[0] if d else 0}:{d[1] if d else 'f'}")
        return " ".join(out)

    L = ["T natives " + " ".join(f"{I(k)}:{I(n)}:{s}" for k, n, s, f in t["supported"]),
         "T fmt " + " ".join(f"{I(k)}:{FMT.get(f, (0, 'f'))[0]}:{FMT.get(f, (0, 'f'))[1]}" for k, n, s, f in t["supported"]),
         "T parserCt " + " ".join(str(I(k)) for k, _ in t["parserCtypes"]),
         "T pyCt " + dl(t["pyCtypes"], CTYPES), "T pyDesc " + dl(t["pyDesc"], PYDESC),
         "T c " + dl(t["c99"], CTYPE), "T m " + dl(t["matlab"], MATLAB),
         "T js " + " ".join(f"{I(k)}:{1 if v == '\"\"' else 0}" for k, v in t["js"] if k != "string"),
         f"T names {I('char')} {I('RTMA_MSG_HEADER')}", f"T maxid {t['maxMessageTypes']}"]
    return L


# ------------------------------------------------------------------------------------------------
# closure -> YAML text, and -> flattened items in the parser's order
# ------------------------------------------------------------------------------------------------
def _field_yaml(f) -> str:
    name, ty, lexpr, _ = f
    return f"      {name}: {ty}" + (f"[{lexpr}]" if lexpr is not None else "")


def file_yaml(fs: Dict[str, Any]) -> str:
    L: List[str] = []
    if fs.get("imports"):
        L.append("imports:")
        L += [f"  - {i}" for i in fs["imports"]]
    if fs.get("constants"):
        L.append("constants:")
        L += [f"  {n}: {e}" for n, e, _ in fs["constants"]]
    if fs.get("strings"):
        L.append("string_constants:")
        L += [f"  {n}: \"{s}\"" for n, s in fs["strings"]]
    if fs.get("aliases"):
        L.append("aliases:")
        L += [f"  {n}: {t}" for n, t in fs["aliases"]]
    if fs.get("hosts"):
        L.append("host_ids:")
        L += [f"  {n}: {v}" for n, v in fs["hosts"]]
    if fs.get("mods"):
        L.append("module_ids:")
        L += [f"  {n}: {v}" for n, v in fs["mods"]]
    if fs.get("structs"):
        L.append("struct_defs:")
        for n, fields in fs["structs"]:
            L.append(f"  {n}:")
            if isinstance(fields, str):
                L.append(f"    fields: {fields}")
            elif not fields:
                L.append("    fields: {}")
            else:
                L.append("    fields:")
                L += [_field_yaml(f) for f in fields]
    if fs.get("messages") or fs.get("reserved"):
        L.append("message_defs:")
        for n, mid, fields in fs.get("messages", []):
            L.append(f"  {n}:")
            L.append(f"    id: {mid}")
            if fields is None:
                L.append("    fields: null")
            elif isinstance(fields, str):
                L.append(f"    fields: {fields}")
            elif not fields:
                L.append("    fields: {}")
            else:
                L.append("    fields:")
                L += [_field_yaml(f) for f in fields]
        if fs.get("reserved"):
            L.append("  _RESERVED_:")
            L.append("    id: [" + ", ".join(str(x) for x in fs["reserved"]) + "]")
    if not L:
        L.append("constants: null")      # an empty YAML document is not a definition file (the parser needs a mapping)
    return "\n".join(L) + "\n"


def reserved_ids(res: List[Any]) -> List[int]:
    out: List[int] = []
    for e in res:
        if isinstance(e, int):
            out.append(e)
        else:
            m = re.search(r"(\d+)\s*(\-|to)\s*(\d+)", e)
            out += list(range(int(m.group(1)), int(m.group(3)) + 1))
    return out


def flatten(cl: Dict[str, Any]) -> List[Tuple[str, Dict[str, Any]]]:
    """files in the parser's order: depth-first, imports before the importer's own sections, each file once"""
    order: List[Tuple[str, Dict[str, Any]]] = []
    seen: List[str] = []

    def walk(fn: str):
        if fn in seen:
            return
        seen.append(fn)
        fs = cl["files"][fn]
        for i in fs.get("imports", []):
            # an import is spelled relative to the importing file's directory (the parser chdir's there)
            walk(os.path.normpath(os.path.join(os.path.dirname(fn), i)))
        order.append((fn, fs))

    walk(cl["root"])
    return order


CORE_CACHE: Dict[str, Any] = {}


def core_closure() -> Dict[str, Any]:
    """The shipped core definitions as closure files (read with the parser-independent YAML-subset reader)."""
    if "cl" not in CORE_CACHE:
        from . import gen_core
        CORE_CACHE["cl"] = gen_core.core_files(C.REPO)
    return CORE_CACHE["cl"]


def path_toks(p, I: Interner) -> List[str]:
    """components of a resolved absolute path, interned"""
    return [str(I(c)) for c in Path(p).parts[1:]]


def spelled_toks(p, I: Interner) -> List[str]:
    """a path as spelled (what `pathlib.Path(p)` keeps of it): abs flag, then `^` for `..`, `.` or interned names"""
    pp = Path(p)
    parts = [c for c in pp.parts if c != "/"]
    return ["1" if pp.is_absolute() else "0"] + ["^" if c == ".." else "." if c == "." else str(I(c)) for c in parts]


def item_lines(cl: Dict[str, Any], I: Interner, hashes: Dict[str, str], with_files: bool = False,
               src_dir: Optional[Path] = None) -> List[str]:
    """ITEM lines in parse order; with_files: a `FILE <core>` line before the items of each file (the driver rebuilds the
    file-by-file closure `Model/Combined.lean` works on from them)"""
    L: List[str] = []
    groups: List[Tuple[int, List[Tuple[str, Dict[str, Any]]]]] = []
    if cl.get("coredefs"):
        cc = core_closure()
        groups.append((1, flatten(cc)))
    groups.append((0, flatten(cl)))
    for core, files in groups:
        for fn, fs in files:
            if with_files:
                where: List[str] = []
                if src_dir is not None:
                    base = (C.REPO / "src" / "pyrtma" / "core_defs") if core else src_dir
                    where = path_toks(os.path.realpath(base / fn), I)
                L.append(" ".join(["FILE", str(core)] + where))
            for n, e, v in fs.get("constants", []):
                if isinstance(v, float):
                    L.append(f"ITEM {core} const {I(n)} f {struct.unpack('<Q', struct.pack('<d', v))[0]}")
                else:
                    L.append(f"ITEM {core} const {I(n)} i {v}")
            for n, s in fs.get("strings", []):
                L.append(f"ITEM {core} str {I(n)} {I('\"' + s + '\"')}")
            for n, t in fs.get("aliases", []):
                L.append(f"ITEM {core} alias {I(n)} {I(t)}")
            for n, v in fs.get("hosts", []):
                L.append(f"ITEM {core} host {I(n)} {v}")
            for n, v in fs.get("mods", []):
                L.append(f"ITEM {core} mod {I(n)} {v}")

            def spec(fields):
                if isinstance(fields, str):
                    return f"R {I(fields)}"
                return "L " + " ".join(f"{I(f[0])}:{I(f[1])}:{'-' if f[2] is None else f[3]}" for f in fields)

            for n, fields in fs.get("structs", []):
                L.append(f"ITEM {core} struct {I(n)} {int(hashes.get('s:' + n, '0'), 16)} {spec(fields)}")
            for n, mid, fields in fs.get("messages", []):
                h = int(hashes.get('m:' + n, '0'), 16)
                if fields is None:
                    L.append(f"ITEM {core} signal {I(n)} {mid} {h}")
                else:
                    L.append(f"ITEM {core} message {I(n)} {mid} {h} {spec(fields)}")
            for rid in reserved_ids(fs.get("reserved", [])):
                n = f"_RESERVED_{rid:06d}"
                L.append(f"ITEM {core} reserved {I(n)} {rid} {int(hashes.get('m:' + n, '0'), 16)}")
    return L


# ------------------------------------------------------------------------------------------------
# the real combined YAML -> canonical lines (what `Drv/Emit.lean: yamlLines` prints for the model)
# ------------------------------------------------------------------------------------------------
SECTION_NO = {"constants": 0, "string_constants": 1, "aliases": 2, "host_ids": 3, "module_ids": 4, "struct_defs": 5,
              "message_defs": 6}


def combined_lines(text: str, I: Interner) -> Tuple[List[str], Dict[str, Any]]:
    """Read `<name>_combined.yaml` with ruamel's safe loader (not with pyrtma's parser), keep the key order of the file,
    evaluate constant and array-length expressions with gen_core's arithmetic evaluator (constants in file order), expand
    the `_RESERVED_` id list in place.  Returns (lines, notes); notes = what is outside the model (metadata, options)."""
    from ruamel.yaml import YAML
    from . import gen_core
    data = YAML(typ="safe").load(text)
    notes: Dict[str, Any] = {"keys": list(data.keys()), "imports": data.get("imports"),
                             "compiler_options": dict(data.get("compiler_options") or {})}
    env: Dict[str, Any] = {}
    # constants may be used by any length expression whatever the key order of the file is
    for n, e in (data.get("constants") or {}).items():
        env[n] = gen_core.eval_expr(e, env)
    L: List[str] = [f"opt IMPORT_COREDEFS {1 if notes['compiler_options'].get('IMPORT_COREDEFS', True) else 0}",
                    f"imports {len(notes['imports'] or [])}"]

    def spec(fd) -> str:
        if isinstance(fd, str):
            return f"R {I(fd)}"
        out = []
        for fn, sp in (fd or {}).items():
            m = re.fullmatch(r"\s*([\s\w]*?)\s*(?:\[(.*)\])?", sp)
            ty, ln = m.group(1).strip(), m.group(2)
            out.append(f"{I(fn)}:{I(ty)}:{'-' if ln is None else int(gen_core.eval_expr(ln.strip(), env))}")
        return " ".join(["L"] + out)

    for key, val in data.items():
        if key not in SECTION_NO:
            continue
        k = SECTION_NO[key]
        rows: List[str] = []
        for n, v in (val or {}).items():
            if k == 0:
                x = env[n]
                rows.append(f"const {I(n)} " + (f"f {struct.unpack('<Q', struct.pack('<d', x))[0]}" if isinstance(x, float)
                                                else f"i {x}"))
            elif k == 1:
                rows.append(f"str {I(n)} {I(chr(34) + v + chr(34))}")
            elif k == 2:
                rows.append(f"alias {I(n)} {I(v)}")
            elif k == 3:
                rows.append(f"host {I(n)} {v}")
            elif k == 4:
                rows.append(f"mod {I(n)} {v}")
            elif k == 5:
                rows.append(f"struct {I(n)} {spec(v['fields'])}")
            elif n == "_RESERVED_":
                for rid in reserved_ids(list(v["id"])):
                    rows.append(f"reserved {I(f'_RESERVED_{rid:06d}')} {rid}")
            elif v["fields"] is None:
                rows.append(f"signal {I(n)} {v['id']}")
            else:
                rows.append(f"message {I(n)} {v['id']} {spec(v['fields'])}")
        L.append(f"sec {k} {len(rows)}")
        L += rows
    return L, notes


# ------------------------------------------------------------------------------------------------
# running the real compiler
# ------------------------------------------------------------------------------------------------
def _quiet():
    return contextlib.redirect_stdout(io.StringIO()), contextlib.redirect_stderr(io.StringIO())


def classify(P, e: BaseException) -> str:
    if isinstance(e, P.AlignmentError):
        return "alignment"
    if isinstance(e, P.InvalidMessageSize):
        return "tooLarge"
    if isinstance(e, P.ParserError):
        return "syntax"
    return "internal"


def write_closure(cl: Dict[str, Any], d: Path):
    d.mkdir(parents=True, exist_ok=True)
    for fn, fs in cl["files"].items():
        (d / fn).parent.mkdir(parents=True, exist_ok=True)
        (d / fn).write_text(file_yaml(fs))


def _names_of(cl: Dict[str, Any]) -> Tuple[List[str], List[Tuple[str, int]], List[str]]:
    """(struct names, (message name, id), alias names) of the closure's own files"""
    st, ms, al = [], [], []
    for _fn, fs in cl["files"].items():
        st += [n for n, _f in fs.get("structs", [])]
        ms += [(n, i) for n, i, _f in fs.get("messages", []) if isinstance(i, int)]
        al += [n for n, _t in fs.get("aliases", [])]
    return st, ms, al


def poison_yaml(cl: Dict[str, Any]) -> str:
    """a file that defines the closure's struct / message names with other layouts and then fails (duplicate message id):
    `Parser.parse` raises and calls `clear()`; the same Parser object is then given the real file"""
    st, ms, _al = _names_of(cl)
    used = {i for _n, i in ms}
    dup = next(i for i in range(4000, 9000) if i not in used)
    # plus one definition of its own in every section (whatever the failed parse leaves behind in any table — or in the
    # dictionary the combined YAML is written from — shows up in the next compile)
    fs = {"constants": [["ZZ_POISON_K", "7", 7]], "strings": [["ZZ_POISON_STR", "left over"]],
          "aliases": [["ZZ_POISON_AL", "int16"]], "hosts": [["ZZ_POISON_H", 31999]], "mods": [["ZZ_POISON_M", 31999]],
          "structs": [[n, [["zz0", "int8", None, None]]] for n in dict.fromkeys(st)] + [["ZZ_POISON_S", [["zz0", "int8", None, None]]]],
          "messages": [[n, i, [["zz0", "int8", None, None]]] for n, i in dict(ms).items()] +
                      [["ZZ_DUP_A", dup, None], ["ZZ_DUP_B", dup, None]]}
    return file_yaml(fs)


def prime_yaml(cl: Dict[str, Any]) -> str:
    """a *valid* file in which every struct / message name of the closure is an alias of a native type and every alias name
    is a struct: compiled first in the same process, it exposes state that survives from one compile to the next"""
    st, ms, al = _names_of(cl)
    names = list(dict.fromkeys(st + [n for n, _i in ms]))
    fs = {"aliases": [[n, "int16"] for n in names if n not in al],
          "structs": [[n, [["zz0", "double", None, None]]] for n in dict.fromkeys(al) if n not in names]}
    return file_yaml(fs)


def prime_process(cl: Dict[str, Any], work: Path):
    d = work / "prime"
    d.mkdir(parents=True, exist_ok=True)
    (d / "prime.yaml").write_text(prime_yaml(cl))
    real_compile({"auto_pad": True, "coredefs": False}, d / "prime.yaml", d / "out", python=True, javascript=True,
                 matlab=True, c_lang=True, combined=True)


def real_parse(cl: Dict[str, Any], path: Path, coredefs: Optional[bool] = None, poison: Optional[Path] = None):
    """(outcome tokens, parser or None, exception text); with `poison`, the Parser object first fails on that file"""
    from pyrtma import parser as P
    a, b = _quiet()
    with a, b:
        p = P.Parser(validate_alignment=True, auto_pad=cl.get("auto_pad", True),
                     import_coredefs=cl.get("coredefs", False) if coredefs is None else coredefs)
        if poison is not None:
            try:
                p.parse(poison)
            except BaseException as e:  # noqa: BLE001  the failure is intended
                if isinstance(e, (KeyboardInterrupt, SystemExit)):
                    raise
        try:
            p.parse(path)
        except BaseException as e:  # noqa: BLE001
            if isinstance(e, (KeyboardInterrupt, SystemExit)):
                raise
            return ["err", classify(P, e)], None, f"{type(e).__name__}: {e}"[:300]
    return ["ok"], p, ""


def cli_coredefs(path: Path) -> bool:
    """IMPORT_COREDEFS as `python -m pyrtma.compile -i <path>` resolves it: default True, replaced by the file's own
    `compiler_options` entry when there is one (compile.py main())."""
    from pyrtma import parser as P
    val = True
    a, b = _quiet()
    try:
        with a, b:
            opts = P.Parser().parse_compiler_options(Path(path))
        if "IMPORT_COREDEFS" in opts:
            val = bool(opts["IMPORT_COREDEFS"].value)
    except BaseException as e:  # noqa: BLE001
        if isinstance(e, (KeyboardInterrupt, SystemExit)):
            raise
    return val


def real_compile(cl: Dict[str, Any], src: Path, out: Path, cwd: Optional[Path] = None,
                 coredefs: Optional[bool] = None, out_name: str = "defs", **langs) -> Tuple[List[str], str]:
    import pyrtma.compile as pc
    from pyrtma import parser as P
    out.mkdir(parents=True, exist_ok=True)
    old = os.getcwd()
    a, b = _quiet()
    try:
        if cwd is not None:
            os.chdir(cwd)
        with a, b:
            pc.compile([str(src)], out_dir=str(out), out_name=out_name, debug=False, validate_alignment=True,
                       auto_pad=cl.get("auto_pad", True),
                       import_coredefs=cl.get("coredefs", False) if coredefs is None else coredefs, **langs)
    except BaseException as e:  # noqa: BLE001
        if isinstance(e, (KeyboardInterrupt, SystemExit)):
            raise
        return ["err", classify(P, e)], f"{type(e).__name__}: {e}"[:300]
    finally:
        os.chdir(old)
    return ["ok"], ""


_COMPILE_CHILD = r"""
import sys, io, contextlib
sys.path.insert(0, sys.argv[1])
import pyrtma.compile as pc
buf = io.StringIO()
with contextlib.redirect_stdout(buf):
    pc.compile([sys.argv[2]], out_dir=sys.argv[3], out_name="defs", debug=False, validate_alignment=True,
               auto_pad=sys.argv[4] == "1", import_coredefs=sys.argv[5] == "1", python=sys.argv[6] == "1",
               javascript=True, matlab=True, c_lang=True, combined=True)
"""


def env_toks(cwd, root_spelled, I: Interner) -> List[str]:
    c = path_toks(os.path.realpath(cwd), I)
    return [str(len(c))] + c + spelled_toks(root_spelled, I)


def src_lines(py_text: str, I: Interner) -> List[str]:
    """`type_source` of every class of the generated Python module: `SRC <name> <path components>`"""
    L = []
    for node in ast.parse(py_text).body:
        if not isinstance(node, ast.ClassDef):
            continue
        for b in node.body:
            if isinstance(b, ast.AnnAssign) and isinstance(b.target, ast.Name) and b.target.id == "type_source" \
                    and isinstance(b.value, ast.Constant) and isinstance(b.value.value, str):
                n = node.name[4:] if node.name.startswith("MDF_") else node.name
                segs = ["^" if c == ".." else "." if c == "." else str(I(c)) for c in b.value.value.split("/") if c != ""]
                L.append(" ".join(["SRC", str(I(n))] + segs))
    return L


def reg_lines(p, I: Interner, tag: str = "REG") -> List[str]:
    from pyrtma import parser as P
    L = []
    for c in p.constants.values():
        L.append(f"{tag} k {I(c.name)} {_val_tok(repr(c.value))}")
    for c in p.string_constants.values():
        L.append(f"{tag} q {I(c.name)} {I(c.value)}")
    for h in p.host_ids.values():
        L.append(f"{tag} h {I(h.name)} {h.value}")
    for m in p.module_ids.values():
        L.append(f"{tag} i {I(m.name)} {m.value}")
    for d in p.message_defs.values():
        L.append(f"{tag} t {I(d.name)} {d.type_id} {int(d.hash[:8], 16)}")
    for a in p.aliases.values():
        L.append(f"{tag} a {I(a.name)} {I(a.type_name)} {0 if isinstance(a.type_obj, P.NativeType) else 1} "
                 f"{a.size} {a.alignment}")
    for kind, defs in (("s", p.struct_defs), ("m", p.message_defs)):
        for d in defs.values():
            fl = " ".join(f"{I(f.name)}:{I(f.type_name)}:{'-' if f.length is None else f.length}" for f in d.fields)
            al = d.alignment if d.fields else 8
            L.append(f"{tag} {kind} {I(d.name)} {d.size} {al}" + (" " + fl if fl else ""))
    return L


def hashes_of(p) -> Dict[str, str]:
    h = {"s:" + d.name: d.hash[:8] for d in p.struct_defs.values()}
    h.update({"m:" + d.name: d.hash[:8] for d in p.message_defs.values()})
    return h


# ------------------------------------------------------------------------------------------------
# parsing the four outputs into abstract statements
# ------------------------------------------------------------------------------------------------
def _val_tok(text: str) -> str:
    text = text.strip()
    try:
        v = int(text, 0)
        return f"i {v}"
    except ValueError:
        v = float(text)
        return f"f {struct.unpack('<Q', struct.pack('<d', v))[0]}"


def _sections(text: str, marks: List[Tuple[str, str]]) -> Dict[str, str]:
    """split `text` at the first occurrence of each marker line (in order); returns {key: chunk}"""
    pos = []
    for key, mark in marks:
        i = text.find(mark)
        if i >= 0:
            pos.append((i, key, len(mark)))
    pos.sort()
    out: Dict[str, str] = {}
    for n, (i, key, ln) in enumerate(pos):
        j = pos[n + 1][0] if n + 1 < len(pos) else len(text)
        out[key] = text[i + ln:j]
    return out


def parse_py(text: str, I: Interner, resolve=None) -> List[str]:
    S = _sections(text, [("const", "\n# Constants\n"), ("str", "\n# String Constants\n"), ("alias", "\n# Type Aliases\n"),
                         ("host", "\n# Host IDs\n"), ("mod", "\n# Module IDs\n"), ("mt", "\n# Message Type IDs\n"),
                         ("sdf", "\n# Struct Definitions\n"), ("mdf", "\n# Message Definitions\n"),
                         ("end", "\n# User Context\n")])
    L: List[str] = []
    for node in ast.parse(S.get("const", "")).body:
        if isinstance(node, ast.AnnAssign):
            L.append(f"const {I(node.target.id)} {_val_tok(ast.unparse(node.value))}")
    for node in ast.parse(S.get("str", "")).body:
        if isinstance(node, ast.AnnAssign):
            L.append(f"str {I(node.target.id)} {I(json.dumps(ast.literal_eval(node.value)))}")
    for node in ast.parse(S.get("alias", "")).body:
        if isinstance(node, ast.Assign):
            n = node.targets[0].id
            v = node.value
            if isinstance(v, ast.Attribute):
                d = CTYPES.get(v.attr)
                L.append(f"aliasN {I(n)} {d[0] if d else 0} {d[1] if d else 'f'}")
            elif isinstance(v, ast.Name):
                sp, t = ("m", v.id[4:]) if v.id.startswith("MDF_") else ("s", v.id)
                L.append(f"aliasR {I(n)} {sp} {I(t)}")
            else:
                L.append("bad")
    for key, pre in (("host", ""), ("mod", "MID_"), ("mt", "MT_")):
        for node in ast.parse(S.get(key, "")).body:
            if isinstance(node, ast.AnnAssign):
                n = node.target.id
                n = n[len(pre):] if n.startswith(pre) else n
                L.append(f"{key} {I(n)} {ast.literal_eval(node.value)}")

    def fld(node: ast.AnnAssign) -> Optional[str]:
        if not isinstance(node.value, ast.Call) or not isinstance(node.value.func, ast.Name):
            return None
        fn = node.value.func.id
        args = node.value.args
        name = I(node.target.id)

        def ref(a):
            return f"r.m.{I(a.id[4:])}" if a.id.startswith("MDF_") else f"r.s.{I(a.id)}"

        def num(a):
            """an array length: a literal, or a name whose value is what the *loaded module* binds it to"""
            if isinstance(a, ast.Constant):
                return a.value
            if isinstance(a, ast.Name) and resolve is not None:
                v = resolve(a.id)
                if isinstance(v, int):
                    return v
            return "?" + ast.unparse(a).replace(" ", "")

        if fn in PYDESC:
            return f"{name}:n.{den_tok(PYDESC[fn])}:-:1"
        if fn == "String":
            return f"{name}:n.1.c:{num(args[0])}:1"
        if fn == "ByteArray":
            return f"{name}:n.1.u:{num(args[0])}:1"
        if fn in ("IntArray", "FloatArray"):
            d = PYDESC.get(args[0].id)
            okk = d is not None and ((fn == "IntArray") == (d[1] in "su"))
            return f"{name}:{'n.' + den_tok(d) if okk else 'bad'}:{num(args[1])}:1"
        if fn == "Struct":
            return f"{name}:{ref(args[0])}:-:1"
        if fn == "StructArray":
            return f"{name}:{ref(args[0])}:{num(args[1])}:1"
        return f"{name}:bad:-:1"

    for key, sp in (("sdf", "s"), ("mdf", "m")):
        for node in ast.parse(S.get(key, "")).body:
            if not isinstance(node, ast.ClassDef):
                continue
            cv: Dict[str, Any] = {}
            fields = []
            for b in node.body:
                if isinstance(b, ast.AnnAssign) and isinstance(b.target, ast.Name):
                    if b.target.id in ("type_id", "type_hash", "type_size"):
                        cv[b.target.id] = ast.literal_eval(b.value)
                    elif b.target.id in ("type_name", "type_source", "type_def"):
                        pass
                    else:
                        f = fld(b)
                        if f is not None:
                            fields.append(f)
            n = node.name[4:] if sp == "m" and node.name.startswith("MDF_") else node.name
            L.append(" ".join(["def", sp, str(I(n)), str(cv.get("type_id", "-")), str(cv.get("type_hash", "-")),
                               str(cv.get("type_size", "-"))] + fields))
    return L


def parse_c(text: str, I: Interner) -> List[str]:
    L: List[str] = []
    sec = ""
    cur: Optional[List[str]] = None
    for line in text.splitlines():
        s = line.strip()
        if s.startswith("// "):
            for key, mark in (("const", "// Constants"), ("str", "// String Constants"), ("alias", "// Type Aliases"),
                              ("host", "// Host IDs"), ("mod", "// Module IDs"), ("mt", "// Message Type IDs"),
                              ("sdf", "// Struct Definitions"), ("mdf", "// Message Definitions"),
                              ("hash", "// Message Definition Hashes")):
                if s == mark:
                    sec = key
            continue
        if cur is not None:
            m = re.fullmatch(r"\}\s*(\w+);", s)
            if m:
                n = m.group(1)
                sp, n = ("m", n[4:]) if n.startswith("MDF_") else ("s", n)
                L.append(" ".join(["def", sp, str(I(n)), "-", "-", "-"] + cur))
                cur = None
                continue
            m = re.fullmatch(r"(.+?)\s+(\w+)(?:\[(-?\d+)\])?;", s)
            if m:
                t, fn, ln = m.group(1).strip(), m.group(2), m.group(3)
                if t in CTYPE:
                    ty = "n." + den_tok(CTYPE[t])
                elif t.startswith("MDF_"):
                    ty = f"r.m.{I(t[4:])}"
                else:
                    ty = f"r.?.{I(t)}"     # struct or alias: decided below against what the header defined
                cur.append(f"{I(fn)}:{ty}:{ln if ln is not None else '-'}:1")
            continue
        if s == "typedef struct {":
            cur = []
            continue
        m = re.fullmatch(r"typedef\s+(.+?)\s+(\w+);", s)
        if m and sec == "alias":
            t, n = m.group(1).strip(), m.group(2)
            if t in CTYPE:
                L.append(f"aliasN {I(n)} {CTYPE[t][0]} {CTYPE[t][1]}")
            elif t.startswith("MDF_"):
                L.append(f"aliasR {I(n[4:] if n.startswith('MDF_') else n)} m {I(t[4:])}")
            else:
                L.append(f"aliasR {I(n)} ? {I(t)}")
            continue
        m = re.fullmatch(r"#define\s+(\w+)\s+(.+)", s)
        if m and sec in ("const", "str", "host", "mod", "mt", "hash"):
            n, v = m.group(1), m.group(2).strip()
            if sec == "const":
                L.append(f"const {I(n)} {_val_tok(v)}")
            elif sec == "str":
                L.append(f"str {I(n)} {I(v)}")
            elif sec == "hash":
                L.append(f"hash {I(n[5:] if n.startswith('HASH_') else n)} {int(v, 16)}")
            else:
                pre = {"host": "HID_", "mod": "MID_", "mt": "MT_"}[sec]
                L.append(f"{sec} {I(n[len(pre):] if n.startswith(pre) else n)} {int(v, 0)}")
    # `r.?.X`: X is an alias if a typedef line of this header (or of the core header) defines it as such
    aliases = set()
    for ln in L:
        t = ln.split()
        if t[0] in ("aliasN", "aliasR"):
            aliases.add(t[1])
    return L, aliases


def _fix_c_refs(L: List[str], alias_ids: set, struct_ids: set) -> List[str]:
    out = []
    for ln in L:
        def rep(m):
            x = m.group(1)
            return f"r.a.{x}" if (x in alias_ids and x not in struct_ids) else f"r.s.{x}"
        ln = re.sub(r"r\.\?\.(\d+)", rep, ln)
        t = ln.split()
        if t[0] == "aliasR" and t[2] == "?":
            t[2] = "a" if (t[3] in alias_ids and t[3] not in struct_ids) else "s"
            ln = " ".join(t)
        out.append(ln)
    return out


def _js_native(name: str) -> str:
    return name.replace("_", " ")


def parse_js(text: str, I: Interner, fresh_by_node: Optional[Dict[str, bool]] = None) -> List[str]:
    L: List[str] = []
    sec = ""
    cur: Optional[Tuple[str, str, List[str]]] = None

    def call_ty(f: str) -> str:
        m = re.fullmatch(r"type_map\.(\w+)", f)
        if m:
            return f"j.{I(_js_native(m.group(1)))}"
        m = re.fullmatch(r"RTMA\.(MDF|SDF|aliases)\.(\w+)", f)
        if m:
            return f"r.{ {'MDF': 'm', 'SDF': 's', 'aliases': 'a'}[m.group(1)] }.{I(m.group(2))}"
        return "bad"

    for line in text.splitlines():
        s = line.strip()
        if s.startswith("//"):
            for key, mark in (("const", "// Constants"), ("str", "// String Constants"), ("alias", "// Type Aliases"),
                              ("host", "// Host IDs"), ("mod", "// Module IDs"), ("mt", "// Message Type IDs"),
                              ("sdf", "// Struct Definitions"), ("mdf", "// Message Definitions"),
                              ("hash", "// Message Definition Hashes"), ("tm", "// Type Map Default Values"),
                              ("top", "// Top-Level RTMA object")):
                if s == mark:
                    sec = key
            continue
        if cur is not None:
            if s in ("};", "}", "return {"):
                if s == "};":
                    L.append(" ".join(["def", cur[0], cur[1], "-", "-", "-"] + cur[2]))
                    cur = None
                continue
            m = re.fullmatch(r"(\w+):\s*(.+?),?", s)
            if m:
                fn, e = m.group(1), m.group(2).strip()
                key = f"{cur[0]}.{cur[1]}.{fn}"
                mm = re.fullmatch(r"type_map\.string\((\d+)\)", e)
                if mm:
                    cur[2].append(f"{I(fn)}:js:{mm.group(1)}:1")
                    continue
                mm = re.fullmatch(r"Array\((-?\d+)\)\.fill\((.+)\(\)\)", e)
                if mm:
                    cur[2].append(f"{I(fn)}:{call_ty(mm.group(2))}:{mm.group(1)}:0")
                    continue
                mm = re.fullmatch(r"Array\.from\(\{\s*length:\s*(-?\d+)\s*\},\s*\(\)\s*=>\s*(.+)\(\)\)", e)
                if mm:
                    cur[2].append(f"{I(fn)}:{call_ty(mm.group(2))}:{mm.group(1)}:1")
                    continue
                mm = re.fullmatch(r"([\w.]+)\(\)", e)
                if mm:
                    cur[2].append(f"{I(fn)}:{call_ty(mm.group(1))}:-:1")
                    continue
                # some other way of building the array: ask node whether the elements are distinct
                mm = re.search(r"(type_map\.\w+|RTMA\.(?:MDF|SDF|aliases)\.\w+)\(\)", e)
                ln = re.search(r"(\d+)", e)
                fr = (fresh_by_node or {}).get(key)
                if mm and ln and fr is not None:
                    cur[2].append(f"{I(fn)}:{call_ty(mm.group(1))}:{ln.group(1)}:{1 if fr else 0}")
                else:
                    cur[2].append(f"{I(fn)}:bad:-:1")
            continue
        m = re.fullmatch(r"RTMA\.(SDF|MDF)\.(\w+) = \(\) => \{ return \{\} \};", s)
        if m and sec in ("sdf", "mdf"):
            L.append(f"def {'s' if m.group(1) == 'SDF' else 'm'} {I(m.group(2))} - - -")
            continue
        m = re.fullmatch(r"RTMA\.(SDF|MDF)\.(\w+) = \(\) => \{", s)
        if m and sec in ("sdf", "mdf"):
            cur = ("s" if m.group(1) == "SDF" else "m", str(I(m.group(2))), [])
            continue
        m = re.fullmatch(r"RTMA\.(aliases|SDF|MDF)\s*=\s*\{\};", s)
        if m:
            L.append("init " + {"aliases": "a", "SDF": "s", "MDF": "m"}[m.group(1)])
            continue
        if sec == "alias":
            m = re.fullmatch(r"RTMA\.aliases\.(\w+) = type_map\.(\w+)(\(\))?;", s)
            if m:
                L.append(f"aliasJ {I(m.group(1))} {I(_js_native(m.group(2)))} {0 if m.group(3) else 1}")
                continue
            m = re.fullmatch(r"RTMA\.(aliases|SDF|MDF)\.(\w+) = RTMA\.(aliases|SDF|MDF)\.(\w+);", s)
            if m:
                L.append(f"aliasR {I(m.group(2))} { {'aliases': 'a', 'SDF': 's', 'MDF': 'm'}[m.group(3)] } {I(m.group(4))}")
                continue
            if s:
                L.append("bad")
            continue
        m = re.fullmatch(r"RTMA\.(constants|HID|MID|MT|HASH)\.(\w+) = (.+);", s)
        if m:
            grp, n, v = m.groups()
            if grp == "constants":
                L.append(f"str {I(n)} {I(v)}" if sec == "str" else f"const {I(n)} {_val_tok(v)}")
            elif grp == "HASH":
                L.append(f"hash {I(n)} {int(v.strip('\"'), 16)}")
            else:
                L.append(f"{ {'HID': 'host', 'MID': 'mod', 'MT': 'mt'}[grp] } {I(n)} {int(v, 0)}")
    return L


def _m_name(n: str, I: Interner) -> int:
    if re.fullmatch(r"RESERVED_\d{6}", n):
        return I("_" + n)
    return I(n)


def parse_m(text: str, I: Interner) -> List[str]:
    L: List[str] = []
    sec = ""
    cur: Optional[Tuple[str, str, List[str]]] = None
    pend_defines: List[Tuple[str, str]] = []

    def flush():
        nonlocal cur
        if cur is not None:
            L.append(" ".join(["def", cur[0], cur[1], "-", "-", "-"] + cur[2]))
            cur = None

    def ty(e: str) -> str:
        m = re.fullmatch(r"(\w+)\(0\)", e)
        if m:
            d = MATLAB.get(m.group(1))
            return "n." + den_tok(d) if d else "bad"
        m = re.fullmatch(r"RTMA\.(typedefs|MDF)\.(\w+)", e)
        if m:
            return ("r.m." if m.group(1) == "MDF" else "r.t.") + str(_m_name(m.group(2), I))
        return "bad"

    for line in text.splitlines():
        s = line.strip()
        if s.startswith("% "):
            for key, mark in (("const", "% Constants"), ("str", "% String Constants"), ("alias", "% Type Aliases"),
                              ("host", "% Host IDs"), ("mod", "% Module IDs"), ("mt", "% Message Type IDs"),
                              ("sdf", "% Struct Definitions"), ("mdf", "% Message Definitions"),
                              ("manual", "% Manual Definitions - obsolete core defs"),
                              ("hash", "% Message Definition Hashes"), ("top", "% Top-Level RTMA object"),
                              ("bymt", "% add _by_MT arrays")):
                if s == mark:
                    flush()
                    sec = key
            continue
        if sec in ("top", "manual", "bymt", ""):
            continue
        m = re.fullmatch(r"RTMA\.MESSAGE_HEADER = RTMA\.typedefs\.(\w+);", s)
        if m:
            flush()
            L.append(f"use s {I(m.group(1))}")
            sec = "tail"
            continue
        if sec == "tail":
            continue
        m = re.fullmatch(r"RTMA\.(\w+)\.(\w+) = (.+);", s)
        if m and sec in ("const", "str", "host", "mod", "mt", "hash", "alias"):
            grp, n, v = m.groups()
            if grp == "defines" and sec == "const":
                pend_defines.append((n, v))
            elif grp == "defines" and sec == "str":
                L.append(f"str {I(n)} {I(v)}")
            elif grp == "typedefs" and sec == "alias":
                t = ty(v)
                if t.startswith("n."):
                    w, c = t[2:].split(".")
                    L.append(f"aliasN {I(n)} {w} {c}")
                elif t.startswith("r.t."):
                    L.append(f"aliasR {I(n)} ? {t[4:]}")
                elif t.startswith("r.m."):
                    L.append(f"aliasR {I(n)} m {t[4:]}")
                else:
                    L.append("bad")
            elif grp in ("HID", "MID", "MT"):
                L.append(f"{ {'HID': 'host', 'MID': 'mod', 'MT': 'mt'}[grp] } {_m_name(n, I)} {int(v, 0)}")
            elif grp == "hash":
                L.append(f"hash {_m_name(n, I)} {int(v.strip('\"'), 16)}")
            continue
        if sec in ("sdf", "mdf"):
            m = re.fullmatch(r"RTMA\.(typedefs|MDF)\.(\w+) = struct\(\);", s)
            if m:
                flush()
                cur = ("s" if m.group(1) == "typedefs" else "m", str(_m_name(m.group(2), I)), [])
                continue
            m = re.fullmatch(r"RTMA\.(typedefs|MDF)\.(\w+)\.(\w+) = (.+);", s)
            if m and cur is not None:
                fn, e = m.group(3), m.group(4).strip()
                mm = re.fullmatch(r"repmat\((.+), 1, (-?\d+)\)", e)
                if mm:
                    cur[2].append(f"{I(fn)}:{ty(mm.group(1))}:{mm.group(2)}:1")
                else:
                    cur[2].append(f"{I(fn)}:{ty(e)}:-:1")
    flush()
    # the `defines` block repeats host/module/message ids with a prefix; whatever is not such a repeat is a constant
    rep = set()
    for ln in L:
        t = ln.split()
        if t[0] in ("host", "mod", "mt"):
            rep.add(({"host": "HID_", "mod": "MID_", "mt": "MT_"}[t[0]], t[1], t[2]))
    consts = []
    for n, v in pend_defines:
        is_rep = False
        for pre in ("HID_", "MID_", "MT_"):
            if n.startswith(pre):
                try:
                    if (pre, str(_m_name(n[len(pre):], I)), str(int(v, 0))) in rep:
                        is_rep = True
                except ValueError:
                    pass
        if not is_rep:
            consts.append(f"const {I(n)} {_val_tok(v)}")
    return consts + L


def _fix_m_refs(L: List[str]) -> List[str]:
    """`RTMA.typedefs.X` is an alias or a struct: decide by which statement of the same script defines X"""
    alias_ids, struct_ids = set(), set()
    for ln in L:
        t = ln.split()
        if t[0] in ("aliasN", "aliasR"):
            alias_ids.add(t[1])
        if t[0] == "def" and t[1] == "s":
            struct_ids.add(t[2])
    out = []
    for ln in L:
        def rep(m):
            x = m.group(1)
            return f"r.a.{x}" if (x in alias_ids and x not in struct_ids) else f"r.s.{x}"
        ln = re.sub(r"r\.t\.(\d+)", rep, ln)
        t = ln.split()
        if t[0] == "aliasR" and t[2] == "?":
            t[2] = "a" if (t[3] in alias_ids and t[3] not in struct_ids) else "s"
            ln = " ".join(t)
        out.append(ln)
    return out


# ------------------------------------------------------------------------------------------------
# loading the outputs with the real tools
# ------------------------------------------------------------------------------------------------
PY_PROBE = r"""
import sys, json, ctypes
sys.path.insert(0, sys.argv[1]); sys.path.insert(0, sys.argv[2])
out = {"ok": False}
try:
    import defs
    import pyrtma.message as M
    from pyrtma.message_base import MessageBase
    cls = {}
    for k, v in vars(defs).items():
        if isinstance(v, type) and issubclass(v, MessageBase) and getattr(v, "__module__", "") == "defs":
            if k != getattr(v, "__name__", k):
                continue
            fs = [(n[1:] if n.startswith("_") else n, getattr(v, n).offset, getattr(v, n).size) for n, *_ in v._fields_]
            cls[k] = {"sizeof": ctypes.sizeof(v), "type_size": getattr(v, "type_size", None),
                      "type_id": getattr(v, "type_id", None), "fields": fs,
                      "inst": ctypes.sizeof(v()) }
    out = {"ok": True, "classes": cls,
           "registered": sorted(k for k, c in M._msg_defs.items() if getattr(c, "__module__", "") == "defs")}
except BaseException as e:
    out = {"ok": False, "error": type(e).__name__ + ": " + str(e)[:200]}
print(json.dumps(out))
"""

JS_PROBE = r"""
const path = process.argv[2];
import(path).then(m => {
  const R = m.RTMA; const out = {ok: true, errors: [], fresh: {}, shape: {}};
  for (const grp of ['SDF', 'MDF']) {
    for (const name of Object.keys(R[grp] || {})) {
      try {
        if (typeof R[grp][name] !== 'function') { continue; }
        const a = R[grp][name](), b = R[grp][name]();
        if (a === b) { out.errors.push(grp + '.' + name + ': same object twice'); }
        const shape = [];
        for (const k of Object.keys(a)) {
          const v = a[k];
          if (Array.isArray(v)) {
            shape.push([k, 'array', v.length]);
            if (v.length > 0 && typeof v[0] === 'object' && v[0] !== null) {
              let fresh = true;
              for (let i = 0; i < v.length; i++) for (let j = i + 1; j < v.length; j++) if (v[i] === v[j]) fresh = false;
              for (let i = 0; i < v.length; i++) if (b[k].includes(v[i])) fresh = false;
              out.fresh[(grp === 'SDF' ? 's' : 'm') + '.' + name + '.' + k] = fresh;
            }
          } else { shape.push([k, typeof v, v === undefined ? 'undef' : 0]); if (v === undefined) out.errors.push(grp + '.' + name + '.' + k + ' undefined'); }
          if (typeof v === 'object' && v !== null && !Array.isArray(v) && v === b[k]) out.errors.push(grp + '.' + name + '.' + k + ' shared');
        }
        out.shape[(grp === 'SDF' ? 's' : 'm') + '.' + name] = shape;
      } catch (e) { out.errors.push(grp + '.' + name + ': ' + String(e).slice(0, 120)); }
    }
  }
  out.MT = R.MT; out.HASH = R.HASH; out.constants = R.constants; out.HID = R.HID; out.MID = R.MID;
  console.log(JSON.stringify(out));
}).catch(e => { console.log(JSON.stringify({ok: false, error: String(e).slice(0, 200)})); });
"""


def probe_python(out: Path) -> Dict[str, Any]:
    r = subprocess.run([PY, "-c", PY_PROBE, str(out), str(C.REPO / "src")], capture_output=True, text=True, timeout=120)
    try:
        return json.loads(r.stdout.strip().splitlines()[-1])
    except Exception:
        return {"ok": False, "error": (r.stderr or r.stdout)[-300:]}


def py_namespace(out: Path) -> Dict[str, Any]:
    """int-valued globals of the generated Python module as a fresh interpreter binds them after import"""
    code = ("import sys, json, importlib.util\n"
            "sys.path.insert(0, sys.argv[2])\n"
            "spec = importlib.util.spec_from_file_location('defs_ns', sys.argv[1] + '/defs.py')\n"
            "m = importlib.util.module_from_spec(spec); spec.loader.exec_module(m)\n"
            "print(json.dumps({k: v for k, v in vars(m).items() if isinstance(v, int) and not isinstance(v, bool)}))\n")
    r = subprocess.run([PY, "-c", code, str(out), str(C.REPO / "src")], capture_output=True, text=True, timeout=120)
    try:
        return json.loads(r.stdout.strip().splitlines()[-1])
    except Exception:
        return {}


def probe_node(out: Path) -> Optional[Dict[str, Any]]:
    node = C.find_node()
    if node is None:
        return None
    mjs = out / "defs_probe.mjs"
    shutil.copy(out / "defs.js", mjs)
    (out / "probe.mjs").write_text(JS_PROBE)
    r = subprocess.run([node, str(out / "probe.mjs"), str(mjs)], capture_output=True, text=True, timeout=120)
    try:
        return json.loads(r.stdout.strip().splitlines()[-1])
    except Exception:
        return {"ok": False, "error": (r.stderr or r.stdout)[-300:]}


def core_header(tmp: Path) -> Path:
    """C text of the core definitions (C clients get them from RTMA.h): the shipped YAML compiled from a copy that
    does not live in a directory called core_defs."""
    d = tmp / "corehdr"
    if not (d / "rtma_core.h").exists():
        d.mkdir(parents=True, exist_ok=True)
        for f in (C.REPO / "src" / "pyrtma" / "core_defs").glob("*.yaml"):
            shutil.copy(f, d / f.name)
        real_compile({"auto_pad": True, "coredefs": False}, d / "core_defs.yaml", d, out_name="rtma_core", c_lang=True)
    return d / "rtma_core.h"


def probe_gcc(out: Path, c_stmts: List[str], core_h: Optional[Path]) -> Dict[str, Any]:
    """compile the header; print offsetof/sizeof of every struct it declares"""
    if shutil.which("gcc") is None:
        return {"ok": None}
    src = ["#include <stdio.h>", "#include <stddef.h>"]
    if core_h is not None:
        src.append(f'#include "{core_h}"')
    src.append(f'#include "{out / "defs.h"}"')
    r = subprocess.run(["gcc", "-fsyntax-only", "-w", "-x", "c", "-"], input="\n".join(src) + "\n",
                       capture_output=True, text=True)
    if r.returncode != 0:
        return {"ok": False, "error": r.stderr[-300:]}
    # names come from the text of the header itself
    text = (out / "defs.h").read_text()
    structs = []
    for m in re.finditer(r"typedef struct \{\n(.*?)\n\} (\w+);", text, flags=re.S):
        fields = [re.fullmatch(r"\s*(.+?)\s+(\w+)(?:\[\d+\])?;", ln).group(2) for ln in m.group(1).splitlines()]
        structs.append((m.group(2), fields))
    src.append("int main(void){")
    for n, fields in structs:
        src.append(f'printf("{n}");')
        for f in fields:
            src.append(f'printf(" %zu", offsetof({n}, {f}));')
        src.append(f'printf(" %zu\\n", sizeof({n}));')
    src.append("return 0;}")
    exe = out / "probe_c"
    r = subprocess.run(["gcc", "-O0", "-w", "-x", "c", "-o", str(exe), "-"], input="\n".join(src) + "\n",
                       capture_output=True, text=True)
    if r.returncode != 0:
        return {"ok": False, "error": r.stderr[-300:]}
    res = {}
    for line in subprocess.run([str(exe)], capture_output=True, text=True).stdout.splitlines():
        t = line.split()
        res[t[0]] = (list(map(int, t[1:-1])), int(t[-1]))
    return {"ok": True, "layout": res}


def interpret_m(text: str) -> Tuple[bool, str]:
    """The assignment subset the MATLAB back end emits: `RTMA.a.b = expr;`.  Reading `RTMA.x.y` requires that path (or
    a prefix assigned a struct value copied from elsewhere) to have been assigned earlier.  The `_by_MT` loop at the
    end reads `RTMA.MDF.(name)` for every field name of `RTMA.MT`.  (No MATLAB/Octave is installed; this is the
    def-before-use discipline only.)"""
    defined: Dict[str, Any] = {}      # path -> set of sub-field names copied along (struct values)

    def has(path: str) -> bool:
        return path in defined

    def copy(dst: str, src: str):
        for k in list(defined):
            if k == src or k.startswith(src + "."):
                defined[dst + k[len(src):]] = True

    in_loop = False
    for raw in text.splitlines():
        s = raw.strip()
        if not s or s.startswith("%") or s.startswith("function") or s == "end":
            continue
        if s.startswith("for idx"):
            in_loop = True
            mts = sorted(k.split(".")[2] for k in defined if k.startswith("RTMA.MT.") and k.count(".") == 2)
            for n in mts:
                if not has(f"RTMA.MDF.{n}"):
                    return False, f"_by_MT loop reads RTMA.MDF.{n}, never assigned"
            continue
        if in_loop or s.startswith("mtns ="):
            continue
        m = re.fullmatch(r"(RTMA(?:\.\w+)*) = (.+);", s)
        if not m:
            return False, f"statement outside the emitted subset: {s[:80]}"
        lhs, rhs = m.group(1), m.group(2)
        refs = re.findall(r"RTMA(?:\.\w+)+", rhs) if not rhs.startswith(("'", '"')) else []
        for r in refs:
            if not has(r):
                return False, f"{lhs} reads {r} before it is assigned"
        # assigning RTMA.a.b.c requires RTMA.a (top-level containers are initialised with []), creates the path
        defined[lhs] = True
        parts = lhs.split(".")
        for i in range(1, len(parts)):
            defined[".".join(parts[:i])] = True
        if len(refs) == 1 and re.fullmatch(r"(repmat\()?RTMA(?:\.\w+)+(, 1, -?\d+\))?", rhs):
            copy(lhs, refs[0])
    return True, ""


# ------------------------------------------------------------------------------------------------
# one closure -> protocol block (+ harness-level observations that are not part of the Lean spec)
# ------------------------------------------------------------------------------------------------
def run_closure(cid: str, cl: Dict[str, Any], tmp_root: Path, want: Dict[str, bool]) -> Dict[str, Any]:
    """want: {"probes": bool, "determinism": bool, "roundtrip": bool}.  Returns {"block": [...], "names": [...], "obs": {...}}"""
    C.use_repo()
    I = Interner()
    tbl = table_lines(I)
    work = Path(tempfile.mkdtemp(prefix=f"c{cid}_", dir=str(tmp_root)))
    obs: Dict[str, Any] = {"id": cid, "tags": cl.get("tags", [])}
    try:
        src = work / "src"
        write_closure(cl, src)
        root = src / cl["root"]
        # every second case: the process has compiled another file with the same names in other roles before, and the
        # Parser object has failed on a file with the same names before (nothing of that may leak into this compile)
        reused = (sum(map(ord, cid)) % 2 == 0)
        obs["process_primed_and_parser_reused"] = reused
        poison = None
        if reused:
            _safe0 = None
            try:
                prime_process(cl, work)
                poison = work / "prime" / "poison.yaml"
                poison.write_text(poison_yaml(cl))
            except Exception as e:  # noqa: BLE001  the priming itself must never decide a case
                obs["prime_error"] = f"{type(e).__name__}: {e}"[:200]
                poison = None
        outcome, p, err = real_parse(cl, root, poison=poison)
        hashes = hashes_of(p) if p is not None else {}
        has_hdr = p is not None and "RTMA_MSG_HEADER" in p.struct_defs
        skip_hdr = (not cl.get("coredefs")) and not has_hdr
        blk = [f"CASE {cid} {1 if cl.get('auto_pad', True) else 0} {1 if cl.get('documented', True) else 0} "
               f"{1 if skip_hdr else 0}"]
        blk += item_lines(cl, I, hashes, with_files=True, src_dir=src)
        blk.append(" ".join(["PKG", str(I("core_defs"))] + path_toks(os.path.realpath(C.REPO / "src" / "pyrtma"), I)))
        # the environment of the first compile run: the harness's working directory, the root path spelled absolutely
        blk.append(" ".join(["ENV"] + env_toks(os.getcwd(), root, I)))
        out = work / "out"
        if outcome == ["ok"]:
            oc2, err2 = real_compile(cl, root, out, python=True, javascript=True, matlab=True, c_lang=True, combined=True)
            if oc2 != ["ok"]:
                outcome, err = oc2, err2
        obs["outcome"] = " ".join(outcome)
        obs["error"] = err
        blk.append("OUTCOME " + " ".join(outcome))
        if outcome == ["ok"]:
            blk += reg_lines(p, I)
            texts = {k: (out / f"defs.{k}").read_text() for k in ("py", "h", "js", "m")}
            node = probe_node(out) if want.get("probes") else None
            # an output that no longer has the shape the statement parsers expect is an observation ("unparsable"), not a
            # crash of the harness: the model's statements then differ (CORR), and the tool probes below still decide
            def _safe(fn, *a, default):
                try:
                    return fn(*a)
                except Exception as e:  # noqa: BLE001
                    obs.setdefault("unparsable", []).append(f"{fn.__name__}: {type(e).__name__}: {e}")
                    return default
            _ns: Dict[str, Any] = {}

            def _resolve(nm: str):
                if not _ns:
                    _ns.update(py_namespace(out) or {"__failed__": 1})
                return _ns.get(nm)
            pyS = _safe(lambda t, i: parse_py(t, i, resolve=_resolve), texts["py"], I, default=["bad unparsable-py"])
            cS, c_alias = _safe(parse_c, texts["h"], I, default=(["bad unparsable-c"], set()))
            core_alias = {str(I(a.name)) for a in p.aliases.values()}
            struct_ids = {str(I(s.name)) for s in p.struct_defs.values()}
            # a `T name;` member of a C struct names an alias iff a typedef-alias line (here or in RTMA.h) made it one
            cS = _fix_c_refs(cS, c_alias | core_alias, {t.split()[2] for t in cS if t.startswith("def s ")})
            jsS = _safe(parse_js, texts["js"], I, (node or {}).get("fresh"), default=["bad unparsable-js"])
            mS = _safe(lambda t, i: _fix_m_refs(parse_m(t, i)), texts["m"], I, default=["bad unparsable-m"])
            blk += ["PY " + s for s in pyS] + ["C " + s for s in cS] + ["JS " + s for s in jsS] + ["M " + s for s in mS]
            blk += _safe(src_lines, texts["py"], I, default=["SRC 0 unparsable"])
            if want.get("probes"):
                pr = probe_python(out)
                obs["py_probe_error"] = pr.get("error", "")
                want_ids = sorted(d.type_id for d in p.message_defs.values() if not (cl.get("coredefs") and
                                  d.src.parent.stem == "core_defs" and False))
                py_ok = bool(pr.get("ok")) and sorted(pr.get("registered", [])) == want_ids
                if pr.get("ok") and sorted(pr.get("registered", [])) != want_ids:
                    obs["py_probe_error"] = f"registered {pr.get('registered')} expected {want_ids}"
                blk.append(f"LOAD py {1 if py_ok else 0}")
                core_h = core_header(tmp_root) if cl.get("coredefs") else None
                g = probe_gcc(out, cS, core_h)
                obs["gcc_error"] = g.get("error", "")
                if g.get("ok") is not None:
                    blk.append(f"LOAD c {1 if g['ok'] else 0}")
                if node is not None:
                    js_ok = bool(node.get("ok")) and not node.get("errors") and all(node.get("fresh", {}).values())
                    obs["node_error"] = node.get("error", "") or "; ".join(node.get("errors", [])[:3]) or \
                        ("shared array elements: " + ", ".join(k for k, v in node.get("fresh", {}).items() if not v)[:200]
                         if not all(node.get("fresh", {}).values()) else "")
                    blk.append(f"LOAD js {1 if js_ok else 0}")
                    obs["node_shape"] = node.get("shape")
                    obs["node_ids"] = {k: node.get(k) for k in ("MT", "HASH", "HID", "MID", "constants")}
                mok, merr = interpret_m(texts["m"] if not skip_hdr else
                                        texts["m"].replace("RTMA.MESSAGE_HEADER = RTMA.typedefs.RTMA_MSG_HEADER;", ""))
                obs["m_error"] = merr
                blk.append(f"LOAD m {1 if mok else 0}")
                # layouts: gcc vs ctypes vs recorded, for every definition the header declares
                if g.get("ok") and pr.get("ok"):
                    for cname, (goffs, gsize) in g["layout"].items():
                        pc = pr["classes"].get(cname)
                        if pc is None:
                            continue
                        n = cname[4:] if cname.startswith("MDF_") else cname
                        blk.append(f"MEAS {I(n)} {','.join(map(str, goffs)) or '-'} {gsize} "
                                   f"{','.join(str(f[1]) for f in pc['fields']) or '-'} {pc['sizeof']} {pc['type_size']}")
                    obs["measured"] = len(g["layout"])
            pre_diffs: List[str] = []
            if want.get("roundtrip") and poison is not None and p is not None:
                # the combined YAML written from the Parser object that had failed on another file before must be the one
                # compile() wrote from a fresh Parser (same closure, same text)
                try:
                    from pyrtma.compilers.yaml import YAMLCompiler
                    y2 = work / "combined_from_reused_parser.yaml"
                    a_, b_ = _quiet()
                    with a_, b_:
                        YAMLCompiler(p, filename="defs").generate(y2)
                    if y2.read_bytes() != (out / "defs_combined.yaml").read_bytes():
                        pre_diffs.append("defs_combined.yaml@parser_reused_after_failed_parse")
                except Exception as e:  # noqa: BLE001
                    pre_diffs.append(f"defs_combined.yaml@parser_reused_after_failed_parse: {type(e).__name__}: {e}"[:200])
                if pre_diffs:
                    obs["nondeterministic"] = list(pre_diffs)
            if want.get("roundtrip"):
                try:
                    ylines, ynotes = combined_lines((out / "defs_combined.yaml").read_text(), I)
                except Exception as e:  # noqa: BLE001  (a combined file that is not even YAML any more: observation)
                    ylines, ynotes = [f"unreadable {type(e).__name__}"], {"error": str(e)[:200]}
                blk += ["YAML " + y for y in ylines]
                obs["combined_notes"] = ynotes
                # re-parse the way the command line does: the file's own compiler_options decide about the core import
                oc3, p3, err3 = real_parse(cl, out / "defs_combined.yaml", coredefs=cli_coredefs(out / "defs_combined.yaml"))
                obs["roundtrip"] = " ".join(oc3) + (" " + err3 if err3 else "")
                if p3 is not None:
                    blk += reg_lines(p3, I, "REG2")
                    if not reg_lines(p3, I, "REG2"):
                        blk.append("REG2NONE")
                else:
                    blk.append("REG2 parse-failed " + "_".join(oc3))
            if want.get("determinism"):
                # second compile: other working directory, other output directory, relative path to the root file
                out2 = work / "elsewhere" / "out2"
                (work / "elsewhere").mkdir()
                rel = os.path.relpath(root, work / "elsewhere")
                blk.append(" ".join(["ENV"] + env_toks(work / "elsewhere", rel, I)))
                oc4, err4 = real_compile(cl, Path(rel), out2, cwd=work / "elsewhere", python=True, javascript=True,
                                         matlab=True, c_lang=True, combined=True)
                diffs = list(pre_diffs)
                if oc4 != ["ok"]:
                    diffs.append("second compile: " + " ".join(oc4) + " " + err4)
                else:
                    for f in ("defs.py", "defs.h", "defs.js", "defs.m", "defs_combined.yaml"):
                        if (out / f).read_bytes() != (out2 / f).read_bytes():
                            diffs.append(f)
                # third compile: from the parent directory, root file spelled with a directory component
                out3 = work / "out3"
                rel3 = os.path.relpath(root, work)
                blk.append(" ".join(["ENV"] + env_toks(work, rel3, I)))
                oc5, err5 = real_compile(cl, Path(rel3), out3, cwd=work, python=True, javascript=True,
                                         matlab=True, c_lang=True, combined=True)
                if oc5 != ["ok"]:
                    diffs.append("third compile: " + " ".join(oc5) + " " + err5)
                else:
                    for f in ("defs.py", "defs.h", "defs.js", "defs.m", "defs_combined.yaml"):
                        if (out / f).read_bytes() != (out3 / f).read_bytes():
                            diffs.append(f + "@parent")
                # a copy of the source tree somewhere else (only where a location could show: the core definitions are
                # read from the package directory, or files sit in sub-directories): `type_source` is relative to the root
                # file's directory, so every output is the same text
                if cl.get("coredefs") or any("/" in fn for fn in cl["files"]):
                    src2 = work / "relocated" / "two" / "levels" / "src_copy"
                    shutil.copytree(src, src2)
                    out5 = work / "out5"
                    oc6, err6 = real_compile(cl, src2 / cl["root"], out5, python=True, javascript=True, matlab=True,
                                             c_lang=True, combined=True)
                    if oc6 != ["ok"]:
                        diffs.append("compile of a copy of the source tree: " + " ".join(oc6) + " " + err6)
                    else:
                        for f in ("defs.py", "defs.h", "defs.js", "defs.m", "defs_combined.yaml"):
                            if (out / f).read_bytes() != (out5 / f).read_bytes():
                                diffs.append(f + "@copy_of_the_source_tree_elsewhere")
                # fourth compile: another interpreter process with a fixed string-hash seed (the first three share the
                # harness's own): anything that follows set / hash order differs between processes only
                # (a replay runs all four seeds: the failing pair of processes must not depend on the harness's own seed)
                with_py = sum(map(ord, cid)) % 5 == 0
                for hs in (range(4) if want.get("all_hash_seeds") else [sum(map(ord, cid)) % 4]):
                    out4 = work / f"out4_{hs}"
                    out4.mkdir()
                    env = dict(os.environ, PYTHONHASHSEED=str(hs))
                    try:
                        r4 = subprocess.run([PY, "-c", _COMPILE_CHILD, str(C.REPO / "src"), str(root), str(out4),
                                             "1" if cl.get("auto_pad", True) else "0", "1" if cl.get("coredefs", False) else "0",
                                             "1" if with_py else "0"], env=env, cwd=str(work), capture_output=True, text=True, timeout=300)
                        if r4.returncode != 0:
                            diffs.append(f"compile in another process (PYTHONHASHSEED={hs}): " + r4.stderr.strip().splitlines()[-1][:200]
                                         if r4.stderr.strip() else f"compile in another process: exit {r4.returncode}")
                        else:
                            for f in (["defs.py"] if with_py else []) + ["defs.h", "defs.js", "defs.m", "defs_combined.yaml"]:
                                if not (out4 / f).exists() or (out / f).read_bytes() != (out4 / f).read_bytes():
                                    diffs.append(f + f"@process(PYTHONHASHSEED={hs})")
                    except subprocess.TimeoutExpired:
                        diffs.append("compile in another process: no result within 300 s")
                obs["nondeterministic"] = diffs
        blk.append("END")
        return {"block": tbl + blk, "names": I.names, "obs": obs}
    finally:
        shutil.rmtree(work, ignore_errors=True)
