"""Fine-grained tie B for M10f (Model/DataLogFine.lean): the real `DataCollection` / `DataSet` / formatters
driven at the granularity of *every access to an object both threads can reach*.

Nothing in /repo is changed; everything is done by rebinding module attributes and by constructing the data
sets from a dynamically created subclass:

  * `data_collection.threading` / `.time`: the gated `Event`, the `Thread` shim (its `is_alive()` is a gate
    too) and the scripted clock of `datalog_corr`;
  * the data sets are instances of `GDS(DataSet)` whose `__getattribute__` / `__setattr__` pass through a
    gate for the attributes that one thread writes and the other one reads or writes during a session
    (`wbuf`, `subdivide_flag`, `collection_stopped`, `formatter`, `fd`); every other instance attribute is
    *audited*: if the run shows an attribute outside that set being set by one of the two threads and
    touched by the other one, the case reports it (the model's locality claim would be wrong);
  * every list stored in `rbuf` / `wbuf` is turned into a `GList(list)` whose `append`, `clear` and
    iterator `__next__` are gates (the object keeps its identity: `self.wbuf = self.rbuf` aliases);
  * `data_set.open`, `formatters.quicklogger.tempfile` and `.shutil` are rebound so that every file
    object is a `GFile` proxy: `write`, each element of `writelines`, `seek`, `close`, `open`,
    `NamedTemporaryFile`, `copyfileobj` are gates, numbered globally; the case can name gate numbers at
    which the operation raises `OSError(ENOSPC)` instead of being performed (disk full).

A step of a thread = the gated access it is parked at plus the thread-local code up to its next gate.

Case grammar sent to `drv_datalog` (kind G):

    CASE <id> G <writePeriod> <tail> <aliveCheck 0|1>
    DS <A|-|t,t,..> <interval|0> <raw|json|csv|ql>
    (+ the HDR / ENC / FB lines of datalog_corr.bytes_lines when the session ended normally)
    OPS … (as kind S)
    SCHED <string over R W>
    FAULTS <n n …|->                         numbers of the gated file-system operations that raise
    OBS <done|hang|stuck|raise:X> warn=<n> wdead=<0|1> fired=<0|1>
    TR <label> …
    F <ds> <ids…>                            one per file of data set <ds> ('?' = undecodable)
    END
"""
from __future__ import annotations

import builtins
import errno
import inspect
import logging
import os
import shutil
import tempfile
import threading as _real_threading
from typing import Any, Dict, List, Optional, Tuple

from . import common as C
from . import datalog_corr as D

SHARED = {"wbuf": "w", "subdivide_flag": "f", "collection_stopped": "s", "formatter": "m", "fd": "d"}
KIND = {"raw": "raw", "json": "json", "msg_header": "csv", "quicklogger": "ql"}


class FineController(D.Controller):
    def __init__(self, faults: List[int]):
        super().__init__()
        self.faults = set(faults)
        self.io_count = 0
        self.fired = 0
        self.audit: Dict[Tuple[int, str], Dict[str, set]] = {}

    def me(self) -> Optional[str]:
        return self.tid_of.get(_real_threading.get_ident())

    def label(self, t: str) -> str:
        w = self.at[t]
        if isinstance(w, str):
            return w
        return super().label(t)

    def io(self, op: str):
        """gate of a file-system operation; decides whether it fails"""
        if self.me() is None or self.free:
            return
        self.gate("io." + op)
        k = self.io_count
        self.io_count += 1
        if k in self.faults:
            self.fired += 1
            raise OSError(errno.ENOSPC, "No space left on device (injected)")


class GFile:
    """proxy of a file object: every method the formatters use is a numbered gate"""

    def __init__(self, ctl: FineController, real, tag: str):
        self._ctl, self._real, self._tag = ctl, real, tag

    def write(self, b):
        self._ctl.io(self._tag + "write")
        return self._real.write(b)

    def writelines(self, lines):
        for x in lines:
            self._ctl.io(self._tag + "write")
            self._real.write(x)

    def seek(self, *a):
        self._ctl.io(self._tag + "seek")
        return self._real.seek(*a)

    def close(self):
        self._ctl.io(self._tag + "close")
        return self._real.close()

    def flush(self):
        self._ctl.io(self._tag + "flush")
        return self._real.flush()

    def read(self, *a):
        self._ctl.io(self._tag + "read")
        return self._real.read(*a)

    @property
    def closed(self):
        return self._real.closed

    @property
    def name(self):
        return self._real.name


def _mk_list_cls(ctl: FineController):
    class GIter:
        __slots__ = ("_it", "_i")

        def __init__(self, it, i):
            self._it, self._i = it, i

        def __iter__(self):
            return self

        def __next__(self):
            ctl.gate(f"l{self._i}.nxt")
            return next(self._it)

    class GList(list):
        def append(self, x):
            ctl.gate(f"l{self._i}.app")
            list.append(self, x)

        def clear(self):
            ctl.gate(f"l{self._i}.clr")
            list.clear(self)

        def __iter__(self):
            return GIter(list.__iter__(self), self._i)

    return GList


def _mk_gds(E, ctl: FineController):
    GList = _mk_list_cls(ctl)
    oget, oset = object.__getattribute__, object.__setattr__

    class GDS(E["DataSet"]):
        def __getattribute__(self, name):
            if name in SHARED:
                ctl.gate(f"g{oget(self, '_vi')}.{SHARED[name]}")
            elif not name.startswith("_"):
                t = ctl.me()
                if t is not None and not ctl.free:
                    ctl.audit.setdefault((oget(self, "_vi"), name), {"get": set(), "set": set()})["get"].add(t)
            return oget(self, name)

        def __setattr__(self, name, value):
            if name in ("rbuf", "wbuf") and type(value) is list:
                value = GList(value)
                value._i = oget(self, "_vi")
            if name in SHARED:
                ctl.gate(f"s{oget(self, '_vi')}.{SHARED[name]}")
            elif not name.startswith("_"):
                t = ctl.me()
                if t is not None and not ctl.free:
                    ctl.audit.setdefault((oget(self, "_vi"), name), {"get": set(), "set": set()})["set"].add(t)
            oset(self, name, value)

    return GDS


class _ShimTempfile:
    def __init__(self, ctl):
        self._ctl = ctl

    def NamedTemporaryFile(self, *a, **k):
        self._ctl.io("topen")
        return GFile(self._ctl, tempfile.NamedTemporaryFile(*a, **k), "t")

    def __getattr__(self, name):
        return getattr(tempfile, name)


class _ShimShutil:
    def __init__(self, ctl):
        self._ctl = ctl

    def copyfileobj(self, src, dst, *a):
        self._ctl.io("copy")
        return shutil.copyfileobj(getattr(src, "_real", src), getattr(dst, "_real", dst), *a)

    def __getattr__(self, name):
        return getattr(shutil, name)


def alive_check() -> int:
    """does `DataCollection.stop` look at the writer thread while it waits? (selects the model variant)"""
    E = D.env()
    if "alive_check" not in E:
        src = inspect.getsource(E["dcm"].DataCollection.stop)
        E["alive_check"] = 1 if "is_alive" in src else 0
    return E["alive_check"]


def tail_len(case: Dict[str, Any]) -> int:
    n = len(case["ds"])
    return 2 * (len(case["ops"]) + 2) * (8 * n + 8) + 200


def run_fine_case(case: Dict[str, Any]) -> Dict[str, Any]:
    """case = {"ds": [...], "ops": [...], "sched": "RW..", "faults": [n..]} (same shapes as datalog_corr)"""
    E = D.env()
    dcm = E["dcm"]
    import pyrtma.data_logger.data_set as dsm
    import pyrtma.data_logger.formatters.quicklogger as qlm
    ctl = FineController(case.get("faults") or [])
    shim_thr, shim_time = D.ShimThreading(ctl), D.ShimTime()
    _alive = shim_thr.Thread.is_alive

    def is_alive(self):
        ctl.gate("alive")
        return _alive(self)

    shim_thr.Thread.is_alive = is_alive
    old = (dcm.threading, dcm.time, dsm.__dict__.get("open"), qlm.tempfile, qlm.shutil)
    dcm.threading, dcm.time = shim_thr, shim_time

    def gopen(path, mode="r", *a, **k):
        ctl.io("open")
        return GFile(ctl, builtins.open(path, mode, *a, **k), "")

    dsm.open = gopen
    qlm.tempfile, qlm.shutil = _ShimTempfile(ctl), _ShimShutil(ctl)
    base = tempfile.mkdtemp(prefix="pyrtma_verif_dlfine_")
    wc = D.WarnCounter()
    root_logger = logging.getLogger("data_logger")
    root_logger.addHandler(wc)
    dc = None
    obs: Dict[str, Any] = {"status": "stuck", "warn": 0, "wdead": 0, "trace": [], "files": [], "rexc": None,
                           "wexc": None, "fired": 0, "audit": []}
    tmps: List[Any] = []
    try:
        dsets = []
        try:      # set-up: an exception of the code under test is an observation, never a crash of the harness
            md = E["LoggingMetadata"]()
            dc = dcm.DataCollection("c", base, "run", md)
            ctl.names[id(dc.write_to_disk)] = "td"
            ctl.names[id(dc.write_finished)] = "fin"
            if ctl.started:
                ctl.wait_arrival()
            GDS = _mk_gds(E, ctl)
            for i, d in enumerate(case["ds"]):
                ds = GDS.__new__(GDS)
                object.__setattr__(ds, "_vi", i)
                ds.__init__("c", f"ds{i}", f"ds{i}", "f", E["get_formatter"](d["fmt"]), d["interval"],
                            D.real_types(d["types"]), md)
                tmps.append(getattr(ds.formatter, "data_tmp", None))      # placeholder formatter of __init__
                dc.add_data_set(ds)
                dsets.append(ds)
            D.pre_ops(case, dc, shim_time)
            dc.start()
        except C.MachineryError:
            raise
        except Exception as e:  # noqa: BLE001
            obs["status"] = "raise:" + type(e).__name__
            obs["rexc"] = "during set-up (constructors / add_data_set / start): " + repr(e)
            obs["wdead"] = 1 if ctl.at.get("W") == "finished" else 0
            return obs
        msgs: Dict[int, Any] = {}
        keys: Dict[Tuple[bytes, bytes], int] = {}
        hkeys: Dict[bytes, int] = {}
        for op in D.all_updates(case):
            m = D.mk_msg(op[2], op[3])
            msgs[op[3]] = m
            keys[D.key_of(m)] = op[3]
            hkeys[bytes(m.header)] = op[3]

        def r_main():
            ctl.tid_of[_real_threading.get_ident()] = "R"
            try:
                for op in case["ops"]:
                    ctl.gate("begin")
                    shim_time.now += float(op[1])
                    k = op[0]
                    if k == "u":
                        dc.update(msgs[op[3]])
                    elif k == "t":
                        dc.update(None)
                    elif k == "p":
                        dc.pause()
                    elif k == "r":
                        dc.resume()
                    elif k == "s":
                        dc.stop()
                obs["status"] = "done"
            except D.Abort:
                pass
            except BaseException as e:  # noqa: BLE001
                obs["status"] = "raise:" + ("IO" if isinstance(e, (OSError, ValueError)) else type(e).__name__)
                obs["rexc"] = repr(e)
            finally:
                ctl.finish("R")

        rt = _real_threading.Thread(target=r_main, daemon=True)
        rt.start()
        ctl.wait_arrival()
        sched = list(case["sched"]) + ["R", "W"] * (tail_len(case) // 2)
        ac = alive_check()

        def stop() -> bool:
            if ctl.at.get("R") == "finished":
                return True
            if (ctl.at.get("W") == "finished" and ctl.at.get("R") == (dc.write_finished, "wait")
                    and not dc.write_finished._flag and not ac):
                obs["status"] = "hang"     # only the (dead) writer could ever set write_finished
                return True
            return False

        ctl.run(sched, stop, obs["trace"])
        obs["warn"] = wc.n
        obs["wdead"] = 1 if ctl.at.get("W") == "finished" else 0
        obs["fired"] = 1 if ctl.fired else 0
        if "W" in ctl.exc:
            obs["wexc"] = repr(ctl.exc["W"])
        for (i, name), who in sorted(ctl.audit.items()):
            for t in who["set"]:
                other = (who["get"] | who["set"]) - {t}
                if other:
                    obs["audit"].append(f"ds{i}.{name} set by {t}, touched by {sorted(other)}")
        for i, d in enumerate(case["ds"]):
            ddir = os.path.join(base, "run", f"ds{i}")
            names = sorted(os.listdir(ddir)) if os.path.isdir(ddir) else []
            ext = E["get_formatter"](d["fmt"]).ext
            ordered = [n for n in names if n == "f" + ext] + sorted(n for n in names if n != "f" + ext)
            flist = []
            blist = []
            for n in ordered:
                if obs["status"] != "done":
                    flist.append(["?"])
                    continue
                blist.append(open(os.path.join(ddir, n), "rb").read())
                dec = D.decode_file(d["fmt"], os.path.join(ddir, n))
                ids: List[Any] = []
                for hk, dk in dec:
                    if hk is None:
                        ids.append("?")
                    elif d["fmt"] == "msg_header":
                        ids.append(hkeys.get(hk, "?"))
                    else:
                        ids.append(keys.get((hk, dk), "?"))
                flist.append(ids)
            obs["files"].append(flist)
            obs.setdefault("fbytes", []).append(blist)
    finally:
        ctl.abort = "R" in ctl.at and ctl.at["R"] != "finished"      # R was started and is parked inside an operation
        if ctl.abort:
            ctl.go["R"].release()
            ctl.wait_arrival()
            ctl.abort = False
        ctl.free = True
        if dc is not None:
            dc._close = True
            if ctl.started and ctl.at.get("W") != "finished":
                ctl.go["W"].release()
            try:
                if getattr(dc, "write_thread", None) is not None and ctl.started:
                    dc.write_thread.join(10)
                for ds in dc.datasets:
                    for obj in (ds, getattr(ds.formatter, "data_tmp", None)):
                        try:
                            if obj is not None:
                                obj.close()
                        except Exception:  # noqa: BLE001
                            pass
                for t in tmps:
                    try:
                        if t is not None:
                            t.close()
                    except Exception:  # noqa: BLE001
                        pass
            finally:
                dc._dead = True
        root_logger.removeHandler(wc)
        dcm.threading, dcm.time = old[0], old[1]
        if old[2] is None:
            dsm.__dict__.pop("open", None)
        else:
            dsm.open = old[2]
        qlm.tempfile, qlm.shutil = old[3], old[4]
        shutil.rmtree(base, ignore_errors=True)
    return obs


def fine_block(cid: str, case: Dict[str, Any], obs: Dict[str, Any]) -> List[str]:
    E = D.env()
    wp = E["dcm"].DataCollection.WRITE_PERIOD
    lines = [f"CASE {cid} G {int(wp) if float(wp).is_integer() else wp} {tail_len(case)} {alive_check()}"]
    for d in case["ds"]:
        lines.append(f"DS {D.sel_tok(d['types'])} {D.eff_interval(d['interval'])} {D.FMT_TOK[d['fmt']]}")
    lines.append("OPS " + D.ops_toks(case["ops"]))
    lines += D.pre_lines(case)
    lines.append("SCHED " + (case["sched"] or "-"))
    fl = case.get("faults") or []
    lines.append("FAULTS " + (" ".join(map(str, fl)) if fl else "-"))
    lines.append(f"OBS {obs['status']} warn={obs['warn']} wdead={obs['wdead']} fired={obs['fired']}")
    lines.append("TR " + " ".join(obs["trace"]))
    for i, fls in enumerate(obs["files"]):
        for ids in fls:
            lines.append(f"F {i} " + " ".join(str(x) for x in ids))
    for a in obs["audit"]:
        lines.append("AUDIT " + a.replace(" ", "_"))
    lines += D.bytes_lines(case, obs)
    lines.append("END")
    return lines
