"""Tie B for M8 (Model/HashText.lean) and the oracle of C13.

A *tree* is a JSON-able dict:
    {"root": idx, "files": [{"path": "d/a.yaml", "imports": [idx..], "comments": 0|1|2, "consts": [[name, int]..],
                             "aliases": [[name, native type]..] (optional), "defs": [DEF..]}],
     "validate_alignment": bool (optional, default true: the Parser option)}
    DEF = {"kind": "m"|"s", "name": str, "id": int, "fields": None | "OTHER" | [[fname, type text]..],
           "hexid": bool, "fields_first": bool, "quote": bool}
Structs and messages of one file are written to `struct_defs` / `message_defs` in list order.

For a target message T the *identity* (what C13 says the hash may depend on) is computed here, independently of
pyrtma: signal?, name, id, ordered (field name, type text) list — for `fields: OTHER` that is OTHER's list, resolved
recursively.  Every case is a pair (base tree, variant tree): the variant either relocates T (identity unchanged)
or edits it (identity changed); both are parsed by the real `Parser`, and `Spec/HashText.lean: judgePair` decides.

Grammar sent to `drv_hashtext`:
    CASE <id>
    DEF <m|s> <name hex> <id> <N | R<hex> | L<fhex>:<thex>,..| L->        the variant's target as written
    SRC <hex of physical line | ->..                                       its lines in the file (Model/YamlDef.lean loads them)
    KEY a <g|m> <name hex> <id> <fhex:thex,..|->                          identity in the base tree
    KEY b ...                                                              identity in the variant tree
    OBS <hex of MDF.raw of the variant> <sha256 hex base> <sha256 hex variant>
    END
The driver answers CORR (model text == MDF.raw), CORR (the model's own SHA-256 of that text == MDF.hash), TEXT <hex>
(hashed here with hashlib and compared with MDF.hash a second time), HASH <model digest> <model hash32> and PROP C13.

SHA-256 alone (Model/Sha256.lean against hashlib):
    CASE <id> / SHA <2 hex per byte | -> <hashlib hexdigest> / END         bytes as given
    CASE <id> / SHAT <6 hex per character | -> <hashlib hexdigest of text.encode()> / END   through the model's UTF-8
The four outputs and the sender:
    CASE <id> / DEF ... / OUTS <hex of MDF.raw> <MDF.hash> <py|-> <c|-> <js|-> <m|-> <v1,v2,..|-> / END    (hex numbers)
answered by CORR (text), CORR (digest), CORR (model hash32 == int(MDF.hash[:8],16)), CORR (model hash32 == every value
found) and PROP C13 (`Spec/HashText.lean: judgeOutputs` on the values found).
"""
from __future__ import annotations

import contextlib
import copy
import hashlib
import io
import json
import logging
import multiprocessing as mp
import os
import random
import re
import shutil
import subprocess
import sys
import tempfile
from pathlib import Path
from typing import Any, Dict, List, Optional, Tuple

from . import common as C

NATIVE = ["int32", "double", "uint8", "int16", "char", "float", "uint64", "unsigned int", "long long"]
# the names of the tables the four back ends file definitions under (and the prefixes they put in front of names)
TABLE_PREFIXES = ["hash_", "HASH_", "MT_", "MDF_", "MID_", "HID_", "RTMA_", "defines_", "typedefs_", "constants_", "SDF_"]


def _hex(s: str) -> str:
    return "".join("%06x" % ord(c) for c in s)


def unhex(h: str) -> str:
    return "".join(chr(int(h[i:i + 6], 16)) for i in range(0, len(h), 6))


# --------------------------------------------------------------------------------------------------
# tree -> YAML
# --------------------------------------------------------------------------------------------------

_COMMENT_TEXTS = ["note", "about the next field: text", "x: y", "id: 99", "fields: null", "a # b", "'quoted' \"text\"", "TODO", ""]


def _def_lines(d: Dict[str, Any], cm: int, seed: Any = None) -> List[str]:
    """the physical lines of one definition; cm 0 plain, 1/2 fixed comment styles, 3 decorated at random (seeded by
    `seed` and the definition's name): indentation widths, blank lines, comment lines at any indentation, trailing
    comments, trailing blanks, single / double quotes"""
    if cm == 3:
        return _def_lines_random(d, random.Random(f"{seed}:{d['name']}"))
    out = [f"  {d['name']}:" + ("   # the definition" if cm == 2 else "")]
    idl = None
    if d["kind"] == "m":
        idl = f"    id: {hex(d['id']) if d.get('hexid') and d['id'] >= 0 else d['id']}"
    fl: List[str] = []
    f = d["fields"]
    if f is None:
        fl = ["    fields: null"]
    elif isinstance(f, str):
        fl = [f"    fields: {f}"]
    else:
        fl = ["    fields:"]
        for i, (n, t) in enumerate(f):
            if cm and i % 2 == 1:
                fl.append("")
                fl.append("      # about the next field: text")
            tt = f'"{t}"' if d.get("quote") else t
            fl.append(f"      {n}: {tt}" + ("  # trailing" if cm == 2 and i % 2 == 0 else ""))
    if idl is None:
        return out + fl
    return out + (fl + [idl] if d.get("fields_first") else [idl] + fl)


def _def_lines_random(d: Dict[str, Any], r) -> List[str]:
    i1 = 2 + r.choice([1, 2, 2, 3, 4, 6])
    i2 = i1 + r.choice([1, 2, 2, 4])

    def tail():
        x = ""
        if r.random() < 0.4:
            x += " " * r.randint(1, 3) + "#" + r.choice(["", " "]) + r.choice(_COMMENT_TEXTS)
        elif r.random() < 0.25:
            x += " " * r.randint(1, 3)
        return x

    def noise() -> List[str]:
        ls: List[str] = []
        while r.random() < 0.35:
            k = r.random()
            if k < 0.4:
                ls.append(r.choice(["", "", "   ", " " * (i2 + 2)]))
            else:
                ls.append(" " * r.choice([0, 1, 2, i1, i2, i2 + 3, 11]) + "#" + r.choice(["", " "]) + r.choice(_COMMENT_TEXTS))
        return ls

    def quote(t: str) -> str:
        k = r.random()
        if d.get("quote") or k < 0.15:
            return f'"{t}"'
        if k < 0.3:
            return f"'{t}'"
        return t
    out = [f"  {d['name']}:" + tail()]
    idl: List[str] = []
    if d["kind"] == "m":
        v = d["id"]
        idl = noise() + [" " * i1 + "id: " + (hex(v) if (d.get("hexid") or r.random() < 0.3) and v >= 0 else str(v)) + tail()]
    f = d["fields"]
    fl: List[str] = noise()
    if f is None:
        fl.append(" " * i1 + "fields:" + r.choice([" null", " ~", "", " null"]) + tail())
    elif isinstance(f, str):
        fl.append(" " * i1 + "fields: " + (f if r.random() < 0.7 else f'"{f}"') + tail())
    else:
        fl.append(" " * i1 + "fields:" + tail())
        for n, t in f:
            fl += noise()
            fl.append(" " * i2 + f"{n}:" + " " * r.randint(1, 3) + quote(t) + tail())
    body = (fl + idl) if (d.get("fields_first") or r.random() < 0.3) and idl else (idl + fl)
    return out + body + noise()


def file_text(f: Dict[str, Any], import_strings: List[str]) -> str:
    cm = f.get("comments", 0)
    seed = f.get("decor_seed")
    out: List[str] = []
    if cm:
        out += ["# header comment: with a colon", ""]
    if import_strings:
        out.append("imports:")
        out += [f"  - {s}" for s in import_strings]
    if f.get("consts"):
        out.append("constants:")
        out += [f"  {n}: {v}" for n, v in f["consts"]]
    if f.get("aliases"):
        out.append("aliases:")
        out += [f"  {n}: {t}" for n, t in f["aliases"]]
    structs = [d for d in f["defs"] if d["kind"] == "s"]
    msgs = [d for d in f["defs"] if d["kind"] == "m"]
    if structs:
        out.append("struct_defs:")
        for d in structs:
            out += _def_lines(d, cm, seed)
            if cm:
                out.append("")
    if msgs:
        out.append("message_defs:")
        for d in msgs:
            out += _def_lines(d, cm, seed)
            if cm == 2:
                out += ["", "  # between definitions", ""]
    if not out or all((not l) or l.startswith("#") for l in out):
        out.append("metadata: null")
    return "\n".join(out) + "\n"


def materialise(tree: Dict[str, Any], base: Path) -> Path:
    real = [base / f["path"] for f in tree["files"]]
    for p in real:
        p.parent.mkdir(parents=True, exist_ok=True)
    for f, p in zip(tree["files"], real):
        p.write_text(file_text(f, [os.path.relpath(real[j], p.parent) for j in f["imports"]]))
    return real[tree["root"]]


# --------------------------------------------------------------------------------------------------
# identity, independent of pyrtma
# --------------------------------------------------------------------------------------------------

def closure_defs(tree: Dict[str, Any]) -> Dict[str, Dict[str, Any]]:
    seen: List[int] = []
    out: Dict[str, Dict[str, Any]] = {}

    def go(i):
        if i in seen:
            return
        seen.append(i)
        for j in tree["files"][i]["imports"]:
            go(j)
        for d in tree["files"][i]["defs"]:
            out[d["name"]] = d
    go(tree["root"])
    return out


def resolved_fields(defs: Dict[str, Dict[str, Any]], d: Dict[str, Any], depth: int = 0) -> List[List[str]]:
    f = d["fields"]
    if f is None:
        return []
    if isinstance(f, str):
        if depth > 10 or f not in defs:
            raise KeyError(f)
        return resolved_fields(defs, defs[f], depth + 1)
    return [list(p) for p in f]


def identity(tree: Dict[str, Any], name: str) -> Dict[str, Any]:
    defs = closure_defs(tree)
    d = defs[name]
    return {"signal": d["fields"] is None, "name": d["name"], "id": d["id"], "fields": resolved_fields(defs, d)}


def uses_ref(tree: Dict[str, Any], name: str) -> bool:
    d = closure_defs(tree).get(name)
    return d is not None and isinstance(d["fields"], str)


# --------------------------------------------------------------------------------------------------
# the real parser
# --------------------------------------------------------------------------------------------------

def parse_tree(tree: Dict[str, Any], core: bool = False) -> Dict[str, Any]:
    """{"ok": True, "defs": {name: {"raw":..., "hash":..., "kind": "m"|"s"}}} or {"ok": False, "cls":..., "msg":...}"""
    from pyrtma import parser as P
    base = Path(tempfile.mkdtemp(prefix="pyrtma_verif_c13_")).resolve()
    cwd = os.getcwd()
    try:
        root = materialise(tree, base / "t")
        p = P.Parser(import_coredefs=core, validate_alignment=bool(tree.get("validate_alignment", True)))
        p.logger.handlers.clear()
        p.logger.addHandler(logging.NullHandler())
        p.logger.setLevel(logging.CRITICAL + 10)
        try:
            p.parse(root)
        except BaseException as e:  # noqa: BLE001
            if isinstance(e, (KeyboardInterrupt, SystemExit)):
                raise
            return {"ok": False, "cls": type(e).__name__, "msg": str(e)[:200].replace(str(base), "<tmp>")}
        defs = {}

        def _s(x) -> str:       # a tree whose raw text / hash is not a string any more: an observation, not a crash
            return x if isinstance(x, str) else "<not a string: %s>" % type(x).__name__
        for k, v in p.struct_defs.items():
            defs[k] = {"raw": _s(v.raw), "hash": _s(v.hash), "kind": "s", "nfields": [f.name for f in v.fields]}
        for k, v in p.message_defs.items():
            defs[k] = {"raw": _s(v.raw), "hash": _s(v.hash), "kind": "m", "nfields": [f.name for f in v.fields]}
        return {"ok": True, "defs": defs}
    finally:
        os.chdir(cwd)
        shutil.rmtree(base, ignore_errors=True)
        from . import priv as _PV          # forget the per-instance loggers (named after a private counter)
        _PV.drop_parser_loggers()


# --------------------------------------------------------------------------------------------------
# generators
# --------------------------------------------------------------------------------------------------

def rand_type(rng, structs: List[str], aliases: Optional[List[str]] = None) -> str:
    if structs and rng.random() < 0.2:
        t = rng.choice(structs)
    elif aliases and rng.random() < 0.3:
        t = rng.choice(aliases)
    else:
        t = rng.choice(NATIVE)
    r = rng.random()
    if r < 0.3:
        n = rng.choice([1, 2, 3, 4, 8, 16])
        t += rng.choice(["[%d]", "[%d]", " [%d]", "[ %d ]"]) % n
    return t


def rand_fields(rng, structs: List[str], kmin=1, kmax=5, aliases: Optional[List[str]] = None) -> List[List[str]]:
    names = rng.sample(["a", "b", "c", "x1", "y_2", "count", "value", "flags", "fields", "id", "name", "Z"], rng.randint(kmin, kmax))
    return [[n, rand_type(rng, structs, aliases)] for n in names]


def base_tree(rng) -> Tuple[Dict[str, Any], str]:
    """1-3 files; structs first; a target message; returns (tree, target name)"""
    nfiles = rng.choice([1, 2, 2, 3])
    files = [{"path": ("" if i == 0 else f"inc{i}/") + f"defs{i}.yaml", "imports": [], "comments": rng.choice([0, 0, 1, 2, 3, 3]),
              "decor_seed": rng.randrange(1 << 30), "consts": [], "defs": []} for i in range(nfiles)]
    for i in range(nfiles - 1):
        files[i]["imports"].append(i + 1)             # a chain: file i imports i+1 (deeper files are read first)
    if nfiles == 3 and rng.random() < 0.5:
        files[0]["imports"].append(2)
    structs: List[str] = []
    # type aliases (of native types) in the deepest file — the first one read, so they are known everywhere; what an
    # alias stands for is not part of the identity of a definition that names it
    aliases: List[str] = []
    if rng.random() < 0.5:
        for k in range(rng.choice([1, 2])):
            files[-1].setdefault("aliases", []).append([f"AL_{k}", rng.choice(NATIVE)])
            aliases.append(f"AL_{k}")
    mid = 1000
    # deepest file first so that references always point to something already defined
    for i in reversed(range(nfiles)):
        f = files[i]
        for _ in range(rng.choice([0, 1, 2])):
            name = f"ST_{len(structs)}"
            form = rng.random()
            if structs and form < 0.2:
                flds: Any = rng.choice(structs)
            else:
                flds = rand_fields(rng, structs, aliases=aliases)
            f["defs"].append({"kind": "s", "name": name, "id": 0, "fields": flds, "quote": rng.random() < 0.2})
            structs.append(name)
        for _ in range(rng.choice([0, 1, 2])):
            mid += rng.randint(1, 9)
            f["defs"].append(_rand_msg(rng, f"MSG_{mid}", mid, structs, [], aliases=aliases))
    # the target lives in a random file; it may re-use a struct or an earlier message of its closure
    ti = rng.randrange(nfiles)
    avail_structs = _defs_visible(files, ti, "s")
    avail_msgs = [n for n in _defs_visible(files, ti, "m")]
    mid += 5
    t = _rand_msg(rng, "TARGET", mid, avail_structs, avail_msgs, ref_bias=0.3, aliases=aliases)
    files[ti]["defs"].append(t)
    return {"root": 0, "files": files}, "TARGET"


def _defs_visible(files, i, kind) -> List[str]:
    """definitions of kind `kind` already registered when file i's own message_defs are handled"""
    seen: List[int] = []
    out: List[str] = []

    def go(j):
        if j in seen:
            return
        seen.append(j)
        for k in files[j]["imports"]:
            go(k)
        for d in files[j]["defs"]:
            if d["kind"] == kind and (kind == "s" or j != i):
                if kind == "s" or d["fields"] is not None:
                    out.append(d["name"])
    go(i)
    return out


def _rand_msg(rng, name, mid, structs, msgs, ref_bias=0.12, aliases: Optional[List[str]] = None) -> Dict[str, Any]:
    r = rng.random()
    if r < 0.15:
        flds: Any = None
    elif r < 0.15 + ref_bias and (structs or msgs):
        flds = rng.choice(structs + msgs)
    else:
        flds = rand_fields(rng, structs, aliases=aliases)
    return {"kind": "m", "name": name, "id": mid, "fields": flds, "hexid": rng.random() < 0.2,
            "fields_first": rng.random() < 0.2, "quote": rng.random() < 0.15}


def _find(tree, name) -> Tuple[int, int]:
    for i, f in enumerate(tree["files"]):
        for j, d in enumerate(f["defs"]):
            if d["name"] == name:
                return i, j
    raise KeyError(name)


def relocations(rng, tree, target) -> List[Tuple[str, Dict[str, Any]]]:
    """variants that must NOT change the hash"""
    out = []
    fi, di = _find(tree, target)
    # the same tree again (determinism, fresh Parser instance)
    out.append(("again", copy.deepcopy(tree)))
    # other directory / other file names
    t = copy.deepcopy(tree)
    for k, f in enumerate(t["files"]):
        f["path"] = f"moved/deeper{k}/" + os.path.basename(f["path"]).replace("defs", "other")
    out.append(("other_dirs", t))
    # comments and blank lines everywhere / nowhere
    for cm in (0, 1, 2, 3, 3):
        t = copy.deepcopy(tree)
        for f in t["files"]:
            f["comments"] = cm
            f["decor_seed"] = rng.randrange(1 << 30)
        out.append((f"comments{cm}", t))
    # the target alone in a new file imported by (or importing) the old one, with whatever it re-uses still visible
    t = copy.deepcopy(tree)
    d = t["files"][fi]["defs"].pop(di)
    t["files"].append({"path": "extra/target_only.yaml", "imports": [t["root"]], "comments": 1, "consts": [], "defs": [d]})
    t["root"] = len(t["files"]) - 1
    out.append(("own_file_on_top", t))
    # unrelated definitions added before and after, unrelated constants
    t = copy.deepcopy(tree)
    t["files"][fi]["defs"].insert(0, {"kind": "m", "name": "UNRELATED_A", "id": 7001, "fields": [["q", "int32"]]})
    t["files"][fi]["defs"].append({"kind": "m", "name": "UNRELATED_B", "id": 7002, "fields": None})
    t["files"][fi]["defs"].append({"kind": "s", "name": "UNRELATED_S", "id": 0, "fields": [["q", "double"]]})
    t["files"][0]["consts"].append(["SOME_CONST", 12])
    out.append(("unrelated_added", t))
    # every other message removed / its fields changed
    t = copy.deepcopy(tree)
    keep = set(_deps(tree, target)) | {target}
    for f in t["files"]:
        f["defs"] = [d for d in f["defs"] if d["kind"] == "s" or d["name"] in keep]
    out.append(("other_messages_removed", t))
    # spelling of the same content: id in hex, key order, quoted type texts
    for key in ("hexid", "fields_first", "quote"):
        t = copy.deepcopy(tree)
        d = t["files"][fi]["defs"][di]
        d[key] = not d.get(key, False)
        out.append((f"spelling_{key}", t))
    # import order / an extra (repeated) import
    t = copy.deepcopy(tree)
    for f in t["files"]:
        if len(f["imports"]) > 1:
            f["imports"].reverse()
        if f["imports"]:
            f["imports"].append(f["imports"][0])
    out.append(("imports_reordered_repeated", t))
    out += context_variants(tree, target)
    return out


_WIDTH = {"int32": 4, "double": 8, "uint8": 1, "int16": 2, "char": 1, "float": 4, "uint64": 8, "unsigned int": 4, "long long": 8}


def context_variants(tree, target) -> List[Tuple[str, Dict[str, Any]]]:
    """the target's own text untouched, its *context* changed (identity unchanged, so the hash must not move): the
    alignment option of the compiler switched off; what the aliases it names stand for (another native width); the
    member lists of the structs it names as field types (other widths, one member more).  For a target written in the
    re-use form the structs it re-uses are left alone (their fields are its identity)."""
    out = []
    t = copy.deepcopy(tree)
    t["validate_alignment"] = False
    out.append(("alignment_validation_off", t))
    if any(f.get("aliases") for f in tree["files"]):
        for tag, pick in (("aliases_narrow", lambda w: "uint8" if w != 1 else "uint64"),
                          ("aliases_wide", lambda w: "double" if w != 8 else "int16")):
            t = copy.deepcopy(tree)
            for f in t["files"]:
                f["aliases"] = [[n, pick(_WIDTH.get(ty, 4))] for n, ty in f.get("aliases", [])]
            out.append((tag, t))
    defs = closure_defs(tree)
    d = defs.get(target)
    if d is not None and isinstance(d["fields"], list):
        named = {re.match(r"\s*([\w ]*)", ty).group(1).strip() for _n, ty in d["fields"]}
        # structs named as member types whose own field list is written out (a struct written `fields: OTHER` shares
        # OTHER's list: left alone) and that nothing re-uses
        reused = {x["fields"] for x in defs.values() if isinstance(x["fields"], str)}
        member_structs = [n for n in named if n in defs and defs[n]["kind"] == "s" and isinstance(defs[n]["fields"], list)
                          and n not in reused]
        if member_structs:
            t = copy.deepcopy(tree)
            for n in member_structs:
                i, j = _find(t, n)
                sd = t["files"][i]["defs"][j]
                sd["fields"] = [[fn, ("uint8" if k % 2 == 0 else "double") + (ty[ty.index("["):] if "[" in ty else "")]
                                for k, (fn, ty) in enumerate(sd["fields"])] + [["zz_extra", "uint8"]]
            out.append(("member_structs_edited", t))
    return out


def _deps(tree, name) -> List[str]:
    defs = closure_defs(tree)
    out: List[str] = []

    def go(n):
        d = defs.get(n)
        if d is None or n in out:
            return
        out.append(n)
        f = d["fields"]
        if isinstance(f, str):
            go(f)
        elif f:
            for _, t in f:
                go(re.match(r"\s*([\w ]*)", t).group(1).strip())
    go(name)
    return out[1:]


def _fresh_field(fields) -> str:
    k = 0
    while any(n == f"nf{k}" for n, _ in fields):
        k += 1
    return f"nf{k}"


def field_edits(rng, fields: List[List[str]]) -> List[Tuple[str, List[List[str]]]]:
    """every single edit of an explicit field list"""
    out = []
    n = len(fields)
    for i in range(n):
        f = copy.deepcopy(fields); f[i][0] = _fresh_field(fields); out.append((f"field_rename{i}", f))
        f = copy.deepcopy(fields); f[i][1] = "double" if not f[i][1].startswith("double") else "float"; out.append((f"field_retype{i}", f))
        f = copy.deepcopy(fields)
        f[i][1] = (f[i][1] + "[2]") if "[" not in f[i][1] else f[i][1].split("[")[0].strip()
        out.append((f"field_array{i}", f))
        if "[" in fields[i][1]:      # the same array written with / without a blank: the type TEXT changes
            f = copy.deepcopy(fields)
            f[i][1] = f[i][1].replace(" [", "[") if " [" in f[i][1] else f[i][1].replace("[", " [")
            out.append((f"field_text{i}", f))
        if n > 1:
            f = copy.deepcopy(fields); del f[i]; out.append((f"field_delete{i}", f))
    for i in range(n + 1):
        f = copy.deepcopy(fields); f.insert(i, [_fresh_field(fields), rng.choice(NATIVE)]); out.append((f"field_insert{i}", f))
    for i in range(n - 1):
        f = copy.deepcopy(fields); f[i], f[i + 1] = f[i + 1], f[i]; out.append((f"field_swap{i}", f))
    if n >= 2:
        f = copy.deepcopy(fields); f[0][0], f[1][0] = f[1][0], f[0][0]; out.append(("field_names_swapped", f))
        if f[0][1] != f[1][1]:
            g = copy.deepcopy(fields); g[0][1], g[1][1] = g[1][1], g[0][1]; out.append(("field_types_swapped", g))
    return out


def edits(rng, tree, target) -> List[Tuple[str, Dict[str, Any]]]:
    """variants that MUST change the hash: every single edit of the target's identity"""
    out = []
    fi, di = _find(tree, target)
    base = tree["files"][fi]["defs"][di]

    def with_target(**kw):
        t = copy.deepcopy(tree)
        t["files"][fi]["defs"][di].update(copy.deepcopy(kw))
        return t
    out.append(("rename", with_target(name="TARGET_RENAMED")))
    out.append(("rename_case", with_target(name="Target")))
    out.append(("id_plus_one", with_target(id=base["id"] + 1)))
    out.append(("id_other", with_target(id=base["id"] * 3 + 11)))
    f = base["fields"]
    if f is None:
        out.append(("signal_to_message", with_target(fields=[["a", "int32"]])))
    else:
        out.append(("message_to_signal", with_target(fields=None)))
    if isinstance(f, list):
        for tag, nf in field_edits(rng, f):
            out.append((tag, with_target(fields=nf)))
    elif isinstance(f, str):
        # the target re-uses OTHER's fields: edit OTHER (the target's own text is untouched)
        defs = closure_defs(tree)
        chain = [f]
        while isinstance(defs[chain[-1]]["fields"], str):
            chain.append(defs[chain[-1]]["fields"])
        oi, oj = _find(tree, chain[-1])
        ofields = tree["files"][oi]["defs"][oj]["fields"]
        for tag, nf in field_edits(rng, ofields):
            t = copy.deepcopy(tree)
            t["files"][oi]["defs"][oj]["fields"] = nf
            out.append(("reused_" + tag, t))
        # point at another definition with different fields
        t = copy.deepcopy(tree)
        t["files"][fi]["defs"].insert(di, {"kind": "s", "name": "ALT_SRC", "id": 0, "fields": [["only", "uint8"]]})
        t["files"][fi]["defs"][di + 1]["fields"] = "ALT_SRC"
        out.append(("reuse_other_source", t))
        # spell the re-used fields out: identity unchanged (listed with the relocations by the caller)
    return out


def ref_relocations(rng, tree, target) -> List[Tuple[str, Dict[str, Any]]]:
    """identity-preserving rewrites that only exist for the re-use form"""
    fi, di = _find(tree, target)
    base = tree["files"][fi]["defs"][di]
    if not isinstance(base["fields"], str):
        return []
    out = []
    defs = closure_defs(tree)
    t = copy.deepcopy(tree)
    t["files"][fi]["defs"][di]["fields"] = resolved_fields(defs, base)
    out.append(("reuse_spelled_out", t))
    # a copy of the source under another name
    t = copy.deepcopy(tree)
    src = copy.deepcopy(defs[base["fields"]])
    src.update(name="SRC_COPY", kind="s", id=0)
    t["files"][fi]["defs"].insert(di, src)
    t["files"][fi]["defs"][di + 1]["fields"] = "SRC_COPY"
    out.append(("reuse_identical_copy", t))
    return out


def directed_pairs() -> List[Tuple[str, Dict[str, Any], Dict[str, Any], str]]:
    """(tag, base tree, variant tree, target)"""
    out = []

    def one(defs):
        return {"root": 0, "files": [{"path": "d.yaml", "imports": [], "comments": 0, "consts": [], "defs": defs}]}
    s = {"kind": "s", "name": "SRC", "id": 0, "fields": [["a", "int32"], ["b", "int32"]]}
    s2 = {"kind": "s", "name": "SRC", "id": 0, "fields": [["a", "int32"], ["c", "int32"]]}
    m_ref = {"kind": "m", "name": "TARGET", "id": 4000, "fields": "SRC"}
    m_one = {"kind": "m", "name": "TARGET", "id": 4000, "fields": [["fields", "SRC"]]}
    out.append(("reused_field_renamed", one([s, m_ref]), one([s2, m_ref]), "TARGET"))
    out.append(("reuse_vs_field_named_fields", one([s, m_ref]), one([s, m_one]), "TARGET"))
    # the smallest edits on a plain message
    p = {"kind": "m", "name": "TARGET", "id": 4000, "fields": [["a", "int32"], ["b", "int32"]]}
    for tag, q in [("a_b_to_ab", [["ab", "int32"]]), ("type_text_space", [["a", "int32 "], ["b", "int32"]]),
                   ("id_4000_to_400", None), ("name_prefix", None)]:
        v = copy.deepcopy(p)
        if q is not None:
            v["fields"] = q
        if tag == "id_4000_to_400":
            v["id"] = 400
        if tag == "name_prefix":
            v["name"] = "TARGE"
        if tag == "type_text_space":
            continue            # YAML strips the trailing blank: same text, covered by spelling_quote
        out.append((tag, one([p]), one([v]), v["name"] if tag != "name_prefix" else "TARGET"))
    return out


# --------------------------------------------------------------------------------------------------
# protocol
# --------------------------------------------------------------------------------------------------

def _pairs_tok(fs) -> str:
    return ",".join(f"{_hex(n)}:{_hex(t)}" for n, t in fs) if fs else "-"


def def_tok(d: Dict[str, Any]) -> str:
    f = d["fields"]
    ft = "N" if f is None else ("R" + _hex(f) if isinstance(f, str) else "L" + _pairs_tok(f))
    return f"DEF {d['kind']} {_hex(d['name'])} {d['id']} {ft}"


def src_tok(f: Dict[str, Any], d: Dict[str, Any]) -> str:
    """the physical lines of the definition exactly as `file_text` writes them"""
    return "SRC " + " ".join(_hex(l) or "-" for l in _def_lines(d, f.get("comments", 0), f.get("decor_seed")))


def key_tok(which: str, ident: Dict[str, Any]) -> str:
    return f"KEY {which} {'g' if ident['signal'] else 'm'} {_hex(ident['name'])} {ident['id']} {_pairs_tok(ident['fields'])}"


def run_pair(args) -> Dict[str, Any]:
    """parse base and variant with the real parser; returns the record the property module turns into protocol"""
    cid, tag, base, variant, tname_a, tname_b = args
    ra = parse_tree(base)
    rb = parse_tree(variant)
    rec: Dict[str, Any] = {"cid": cid, "tag": tag, "base": base, "variant": variant, "target_a": tname_a, "target_b": tname_b}
    if not ra["ok"] or not rb["ok"]:
        rec["rejected"] = (ra if not ra["ok"] else rb)
        return rec
    try:
        ia, ib = identity(base, tname_a), identity(variant, tname_b)
    except KeyError as e:
        rec["rejected"] = {"cls": "generator", "msg": f"unresolvable {e}"}
        return rec
    da, db = ra["defs"][tname_a], rb["defs"][tname_b]
    vi, vj = _find(variant, tname_b)
    lines = [f"CASE {cid}", def_tok(variant["files"][vi]["defs"][vj]), src_tok(variant["files"][vi], variant["files"][vi]["defs"][vj]),
             key_tok("a", ia), key_tok("b", ib), f"OBS {_hex(db['raw'])} {da['hash']} {db['hash']}", "END"]
    rec.update(lines=lines, hash_a=da["hash"], hash_b=db["hash"], raw_b=db["raw"], ident_a=ia, ident_b=ib,
               uses_ref=uses_ref(base, tname_a) or uses_ref(variant, tname_b))
    # every other definition of the variant tree: text correspondence only
    extra = []
    k = 0
    for f in variant["files"]:
        for d in f["defs"]:
            if d["name"] != tname_b and d["name"] in rb["defs"]:
                o = rb["defs"][d["name"]]
                extra += [f"CASE {cid}x{k}", def_tok(d), src_tok(f, d), f"OBS {_hex(o['raw'])} {o['hash']} {o['hash']}", "END"]
                rec.setdefault("extra_hash", {})[f"{cid}x{k}"] = o["hash"]
                k += 1
    rec["extra_lines"] = extra
    return rec


def run_pairs(jobs: List[Tuple], procs: Optional[int] = None) -> List[Dict[str, Any]]:
    procs = procs or max(1, min(8, (os.cpu_count() or 2) - 1))
    if len(jobs) < 64 or procs == 1:
        return [run_pair(j) for j in jobs]
    ctx = mp.get_context("fork")
    with ctx.Pool(procs) as pool:
        return pool.map(run_pair, jobs, chunksize=max(1, len(jobs) // (procs * 8)))


# --------------------------------------------------------------------------------------------------
# SHA-256 of the model against hashlib
# --------------------------------------------------------------------------------------------------

NIST_VECTORS = [      # FIPS 180-4 / NIST CSRC "SHA-256 example" messages and CAVP short-message edge lengths
    b"", b"abc", b"abcdbcdecdefdefgefghfghighijhijkijkljklmklmnlmnomnopnopq",
    b"abcdefghbcdefghicdefghijdefghijkefghijklfghijklmghijklmnhijklmnoijklmnopjklmnopqklmnopqrlmnopqrsmnopqrstnopqrstu",
    bytes([0xbd]), bytes.fromhex("c98c8e55"), bytes(55), bytes(56), bytes(57), bytes(64), bytes(1000), b"A" * 1000, b"U" * 1005,
]
NIST_DIGESTS = {      # written out (not recomputed) for the classic ones: hashlib itself is checked against them
    b"": "e3b0c44298fc1c149afbf4c8996fb92427ae41e4649b934ca495991b7852b855",
    b"abc": "ba7816bf8f01cfea414140de5dae2223b00361a396177a9cb410ff61f20015ad",
    b"abcdbcdecdefdefgefghfghighijhijkijkljklmklmnlmnomnopnopq": "248d6a61d20638b8e5c026930c3e6039a33ce45964ff2167f6ecedd419db06c1",
    b"abcdefghbcdefghicdefghijdefghijkefghijklfghijklmghijklmnhijklmnoijklmnopjklmnopqklmnopqrlmnopqrsmnopqrstnopqrstu":
        "cf5b16a778af8380036ce59e7b0492370b249b11e8f07a51afac45037afee9d1",
    bytes([0xbd]): "68325720aabd7c82f30f554b313d0570c95accbb7dc4b5aae11204c08ffe732b",
    bytes.fromhex("c98c8e55"): "7abc22c0ae5af26ce93dbb94433a0e0b2e119d014f8e7f65bd56c61ccccd9504",
    bytes(55): "02779466cdec163811d078815c633f21901413081449002f24aa3e80f0b88ef7",
    bytes(56): "d4817aa5497628e7c77e6b606107042bbba3130888c5f47a375e6179be789fbb",
    bytes(57): "65a16cb7861335d5ace3c60718b5052e44660726da4cd13bb745381b235a1785",
    bytes(64): "f5a5fd42d16a20302798ef6ed309979b43003d2320d9f0e8ea9831a92759fb4b",
    bytes(1000): "541b3e9daa09b20bf85fa273e5cbd3e80185aa4ec298e765db87742b70138a53",
    b"A" * 1000: "c2e686823489ced2017f6059b8b239318b6364f6dcd835d0a519105a1eadd6e4",
    b"U" * 1005: "f4d62ddec0f3dd90ea1380fa16a5ff8dc4c54b21740650f24afc4120903552b0",
}
MILLION_A = "cdc76e5c9914fb9281a1c7e284d73e67f1809a48a497200e046d39ccc7112cd0"


def sha_cases(rng, n_random: int, big: bool) -> List[Tuple[str, str, Any]]:
    """(kind, tag, payload): kind "b" = bytes, "t" = text (encoded by the model's own UTF-8)"""
    out: List[Tuple[str, str, Any]] = [("b", "nist", v) for v in NIST_VECTORS]
    for n in range(0, 200):                                   # every length across three block boundaries
        out.append(("b", "len", bytes(rng.randrange(256) for _ in range(n))))
    for _ in range(n_random):
        n = rng.choice([rng.randrange(0, 80), rng.randrange(0, 300), rng.randrange(0, 2000)])
        out.append(("b", "random", bytes(rng.randrange(256) for _ in range(n))))
    pools = ["abcXYZ019_ :\n#", "\u00e9\u00df\u00f1\u0416\u03a9\u05d0", "\u20ac\u4e2d\u6587\uffee\u0800\uffff", "\U0001f600\U00010000\U0010ffff\U0002a6d6"]
    for _ in range(max(50, n_random // 4)):
        k = rng.randrange(0, 60)
        pool = "".join(rng.sample(pools, rng.randint(1, 4)))
        out.append(("t", "text", "".join(rng.choice(pool) for _ in range(k))))
    for t in ["\x7f\x80\u07ff\u0800\uffff\U00010000", "\x00"]:
        out.append(("t", "utf8_boundaries", t))
    if big:
        out.append(("b", "nist_million_a", b"a" * 1000000))
    return out


def sha_lines(cases) -> Tuple[List[str], Dict[str, Dict[str, Any]]]:
    lines: List[str] = []
    meta: Dict[str, Dict[str, Any]] = {}
    for k, (kind, tag, v) in enumerate(cases):
        cid = f"sha{k}"
        data = v if kind == "b" else v.encode()
        want = hashlib.sha256(data).hexdigest()
        if kind == "b" and v in NIST_DIGESTS and NIST_DIGESTS[v] != want:
            raise C.MachineryError(f"hashlib disagrees with the published digest of {v[:16]!r}")
        if tag == "nist_million_a" and want != MILLION_A:
            raise C.MachineryError("hashlib disagrees with the published digest of one million 'a'")
        body = (data.hex() or "-") if kind == "b" else (_hex(v) or "-")
        lines += [f"CASE {cid}", f"{'SHA' if kind == 'b' else 'SHAT'} {body} {want}", "END"]
        meta[cid] = {"tag": "sha:" + tag, "kind": kind, "hex": data.hex() if len(data) <= 400 else data[:64].hex() + "...",
                     "len": len(data), "hashlib": want}
    return lines, meta


# --------------------------------------------------------------------------------------------------
# the four language outputs and the sender's header (light check, C13's last two sentences)
# --------------------------------------------------------------------------------------------------

_SENDER = r'''
import sys, json, importlib.util
sys.path.insert(0, sys.argv[1])
import pyrtma, pyrtma.client as pc
spec = importlib.util.spec_from_file_location("gen_defs", sys.argv[2]); mod = importlib.util.module_from_spec(spec)
sys.modules["gen_defs"] = mod
spec.loader.exec_module(mod)
names = json.loads(sys.argv[3])
class Sock:
    def __init__(self): self.sent = []
    def sendall(self, b): self.sent.append(bytes(b))
    def close(self): pass
    def fileno(self): return 0
import select as _sel
_ready = lambda r, w, x, t=None: (r, w, x)
for _k, _v in list(vars(pc).items()):          # `from select import select [as ...]` in client.py
    if _v is _sel.select:
        setattr(pc, _k, _ready)
_sel.select = _ready                           # `select.select(...)`
def _behind(c, prop, default):                 # the attribute behind a read-only property, whatever it is called
    cands = [n for n in getattr(type(c), prop).fget.__code__.co_names if n in vars(c)]
    return cands[0] if len(cands) == 1 else default
out = {}
for timecode in (False, True):
    c = pc.Client(module_id=11, timecode=timecode)
    setattr(c, _behind(c, "sock", "_sock"), Sock()); setattr(c, _behind(c, "connected", "_connected"), True)
    for n in names:
        cls = getattr(mod, "MDF_" + n)
        c.sock.sent.clear()
        c.send_message(cls(), dest_mod_id=0)
        hdr = c.header_cls.from_buffer_copy(c.sock.sent[0][: __import__("ctypes").sizeof(c.header_cls)])
        out.setdefault(n, {"type_hash": cls.type_hash, "type_id": cls.type_id, "versions": [], "signal_versions": []})["versions"].append(hdr.version)
        # a signal of ANOTHER type sent right after it: its version field is that other type's hash or 0, never this one's
        other = names[(names.index(n) + 1) % len(names)]
        ocls = getattr(mod, "MDF_" + other)
        c.sock.sent.clear()
        try:
            c.send_signal(ocls.type_id)
            h2 = c.header_cls.from_buffer_copy(c.sock.sent[0][: __import__("ctypes").sizeof(c.header_cls)])
            out[n]["signal_versions"].append([other, h2.version, ocls.type_hash])
        except Exception as e:
            out[n]["signal_versions"].append([other, "raised " + type(e).__name__, ocls.type_hash])
print(json.dumps(out))
'''


@contextlib.contextmanager
def _quiet_fds():
    """the Python back end runs `black` in a child process that writes to the inherited stdout/stderr"""
    sys.stdout.flush(); sys.stderr.flush()
    saved = os.dup(1), os.dup(2)
    null = os.open(os.devnull, os.O_WRONLY)
    try:
        os.dup2(null, 1); os.dup2(null, 2)
        yield
    finally:
        os.dup2(saved[0], 1); os.dup2(saved[1], 2)
        for fd in (*saved, null):
            os.close(fd)


def outputs_check(tree: Dict[str, Any], names: List[str]) -> Dict[str, Any]:
    """compile the tree to Python, C, JavaScript, MATLAB with the real compiler; returns per message name
    {"parser": first 8 hex of MDF.hash, "py":..., "c":..., "js":..., "m":..., "versions": [...]} (ints)"""
    from pyrtma import parser as P
    from pyrtma.compile import compile as rtma_compile
    base = Path(tempfile.mkdtemp(prefix="pyrtma_verif_c13o_")).resolve()
    cwd = os.getcwd()
    try:
        root = materialise(tree, base / "t")
        p = P.Parser(import_coredefs=True)
        p.logger.handlers.clear(); p.logger.addHandler(logging.NullHandler()); p.logger.setLevel(logging.CRITICAL + 10)
        p.parse(root)
        want = {n: p.message_defs[n].hash for n in names}
        outd = base / "out"
        outd.mkdir()
        buf = io.StringIO()
        with contextlib.redirect_stdout(buf), contextlib.redirect_stderr(buf), _quiet_fds():
            for lg in list(logging.Logger.manager.loggerDict):
                if lg.startswith("pyrtma.parser"):
                    logging.getLogger(lg).setLevel(logging.CRITICAL + 10)
            logging.disable(logging.CRITICAL)
            try:
                rtma_compile([str(root)], str(outd), "gen_defs", python=True, javascript=True, matlab=True, c_lang=True)
            finally:
                logging.disable(logging.NOTSET)
        res: Dict[str, Any] = {n: {"parser": int(want[n][:8], 16), "full": want[n], "raw": p.message_defs[n].raw} for n in names}
        ctext = (outd / "gen_defs.h").read_text()
        jtext = (outd / "gen_defs.js").read_text()
        mtext = "\n".join(q.read_text() for q in outd.rglob("*.m"))
        for n in names:
            # what the entry under the message's own name holds once the file has been read: in JavaScript and MATLAB a
            # later assignment to the same name overwrites an earlier one; two #defines of one macro are an error in C
            ms = re.findall(r"#define\s+HASH_%s\s+0x([0-9a-fA-F]+)\s" % re.escape(n), ctext)
            res[n]["c"] = int(ms[-1], 16) if ms and len(set(ms)) == 1 else None
            ms = re.findall(r'RTMA\.HASH\.%s\s*=\s*"([0-9a-fA-F]+)"' % re.escape(n), jtext)
            res[n]["js"] = int(ms[-1], 16) if ms else None
            ms = re.findall(r'\.hash\.%s\s*=\s*"([0-9a-fA-F]+)"' % re.escape(n), mtext)
            res[n]["m"] = int(ms[-1], 16) if ms else None
        r = subprocess.run([sys.executable, "-c", _SENDER, str(C.REPO / "src"), str(outd / "gen_defs.py"), json.dumps(names)],
                           capture_output=True, text=True, timeout=300, cwd=str(base))
        if r.returncode != 0:
            for n in names:
                res[n]["py"] = None
                res[n]["versions"] = []
            res["_sender_error"] = r.stderr[-600:]
        else:
            got = json.loads(r.stdout.strip().splitlines()[-1])
            for n in names:
                res[n]["py"] = got[n]["type_hash"]
                res[n]["versions"] = got[n]["versions"]
                res[n]["signal_versions"] = got[n].get("signal_versions", [])
        return res
    finally:
        os.chdir(cwd)
        shutil.rmtree(base, ignore_errors=True)
