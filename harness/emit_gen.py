"""Generators of definition closures for the M9 correspondence (see emit_corr.py for the closure format)."""
from __future__ import annotations

import itertools
from typing import Any, Dict, List, Optional, Tuple

from . import emit_corr as E

WIDTH_REPR = ["char", "int16", "float", "double", "uint8", "unsigned long long"]


def natives() -> List[Tuple[str, int]]:
    return [(k, s) for k, n, s, f in E.tables()["supported"]]


def F(name, ty, ln=None, val=None):
    return [name, ty, None if ln is None else str(ln), None if ln is None else (val if val is not None else int(ln))]


def one(files: Dict[str, Any], root="a.yaml", **kw) -> Dict[str, Any]:
    cl = {"files": files, "root": root, "auto_pad": True, "coredefs": False, "documented": True, "tags": []}
    cl.update(kw)
    return cl


def relocate(cl: Dict[str, Any], dirs: Dict[str, str], tag: str = "subdirs") -> Dict[str, Any]:
    """the same closure with its files moved into sub-directories of the source directory (`dirs`: file -> directory,
    default: where it is); import strings are re-spelled relative to the importing file's new directory"""
    import os
    where = {fn: os.path.normpath(os.path.join(dirs.get(fn, os.path.dirname(fn)), os.path.basename(fn))) for fn in cl["files"]}
    files: Dict[str, Any] = {}
    for fn, fs in cl["files"].items():
        g = dict(fs)
        if fs.get("imports"):
            g["imports"] = [os.path.relpath(where[os.path.normpath(os.path.join(os.path.dirname(fn), i))],
                                            os.path.dirname(where[fn]) or ".") for i in fs["imports"]]
        files[where[fn]] = g
    out = dict(cl)
    out["files"] = files
    out["root"] = where[cl["root"]]
    out["tags"] = sorted(set(cl.get("tags", [])) | {tag})
    return out


# ------------------------------------------------------------------------------------------------
# structural predicates (signatures of the open findings)
# ------------------------------------------------------------------------------------------------
def _struct_names(cl) -> set:
    s = {n for fs in cl["files"].values() for n, *_ in fs.get("structs", [])}
    if cl.get("coredefs"):
        s |= {n for fs in E.core_closure()["files"].values() for n, *_ in fs.get("structs", [])}
    return s


def _message_names(cl) -> set:
    s = {m[0] for fs in cl["files"].values() for m in fs.get("messages", [])}
    if cl.get("coredefs"):
        s |= {m[0] for fs in E.core_closure()["files"].values() for m in fs.get("messages", [])}
    return s


def has_alias_of_struct(cl) -> bool:
    structs = _struct_names(cl)
    amap = {n: t for fs in cl["files"].values() for n, t in fs.get("aliases", [])}
    for n, t in amap.items():
        seen = 0
        while t in amap and seen < 12:
            t = amap[t]
            seen += 1
        if t in structs:
            return True
    return False


def has_struct_using_message(cl) -> bool:
    msgs = _message_names(cl)
    for fs in cl["files"].values():
        for n, fields in fs.get("structs", []):
            if isinstance(fields, str):
                if fields in msgs:
                    return True
            else:
                if any(f[1] in msgs for f in fields):
                    return True
    return False


def reserved_blocks(cl) -> int:
    return sum(1 for fs in cl["files"].values() if fs.get("reserved"))


# ------------------------------------------------------------------------------------------------
# directed closures: every documented construct once, every defect of DESIGN.md section 7 once
# ------------------------------------------------------------------------------------------------
def directed() -> List[Dict[str, Any]]:
    D: List[Dict[str, Any]] = []
    inner = {"structs": [["Inner", [F("p", "uint8"), F("q", "int32")]]]}
    # the README example
    D.append(one({"a.yaml": {
        "constants": [["STR_SIZE", "32", 32], ["LONG_STRING", "STR_SIZE * 2", 64]],
        "strings": [["default_msg", "hello_world"]], "mods": [["PERSON_PUBLISHER", 212], ["PERSON_SUBSCRIBER", 214]],
        "aliases": [["AGE_TYPE", "int32"]],
        "structs": [["TEST_STRUCT", [F("value_str", "char", "STR_SIZE", 32), F("value_int", "int32")]]],
        "messages": [["PERSON_MESSAGE", 1234, [F("name", "char", "STR_SIZE", 32), F("age", "AGE_TYPE")]],
                     ["ANOTHER_EXAMPLE", 5678, [F("value_struct", "TEST_STRUCT"), F("value_float", "float"),
                                                F("value_double", "double")]],
                     ["USER_SIGNAL", 2468, None],
                     ["PERSON_LIST", 1357, [F("person", "PERSON_MESSAGE", 32)]],
                     ["EMPLOYEES", 1368, "PERSON_LIST"]],
        "reserved": [1000, "1002 - 1008", "1009 to 1012"]}}, tags=["readme"]))
    D.append(one({"a.yaml": dict(D[0]["files"]["a.yaml"])}, coredefs=True, tags=["readme", "coredefs"]))
    # alias of native / of alias, used by struct and message (C15-F1), arrays of structs (C15-F2)
    D.append(one({"a.yaml": {"aliases": [["MYI", "int16"], ["MYJ", "MYI"], ["MYK", "MYJ"]],
                             "structs": [["P", [F("x", "MYK"), F("y", "MYI", 3)]], ["Q", [F("ps", "P", 4), F("one", "P", 1)]]],
                             "messages": [["MQ", 1500, [F("q", "Q", 2), F("t", "MYJ")]]]}}, tags=["alias_chain", "array_of_struct"]))
    # signed char (C04-F1) in every position
    D.append(one({"a.yaml": {"aliases": [["SC", "signed char"]],
                             "structs": [["S1", [F("a", "signed char"), F("b", "signed char", 3), F("c", "SC")]]],
                             "messages": [["MS1", 1600, [F("s", "S1"), F("d", "signed char", 8)]]]}}, tags=["signed_char"]))
    # field typed by an alias of an imported struct (C15-F5 then C15-F3)
    D.append(one({"a.yaml": {"imports": ["b.yaml"], "aliases": [["AS", "Inner"]],
                             "structs": [["Outer", [F("d", "AS"), F("e", "AS", 2)]]]}, "b.yaml": inner},
                 tags=["alias_of_struct"]))
    # alias of an imported struct, not used as a field type (C15-F3 alone)
    D.append(one({"a.yaml": {"imports": ["b.yaml"], "aliases": [["AS", "Inner"]],
                             "messages": [["MU", 1700, [F("d", "Inner")]]]}, "b.yaml": inner}, tags=["alias_of_struct"]))
    # struct containing an imported message (C15-F4)
    D.append(one({"a.yaml": {"imports": ["b.yaml"], "structs": [["Holder", [F("m", "BM"), F("n", "BM", 2)]]],
                             "messages": [["MH", 1800, [F("h", "Holder")]]]},
                  "b.yaml": {"messages": [["BM", 1801, [F("v", "double"), F("w", "int16")]]]}}, tags=["struct_uses_message"]))
    # _RESERVED_ blocks in several files (C16-F1)
    D.append(one({"a.yaml": {"imports": ["b.yaml", "c.yaml"], "messages": [["MA", 3000, [F("v", "int32")]]],
                             "reserved": [3001, "3002-3004"]},
                  "b.yaml": {"messages": [["MB", 3050, None]], "reserved": [3051, 3052]},
                  "c.yaml": {"reserved": ["3060 to 3062"]}}, tags=["reserved_multi"]))
    # `validate_msg_id`: message / signal / reserved ids may not repeat anywhere in the closure, in either order, and
    # must lie in [0, MAX_MESSAGE_TYPES]
    D.append(one({"a.yaml": {"imports": ["b.yaml"], "messages": [["MA", 7300, [F("v", "int32")]]], "reserved": ["7326 to 7328"]},
                  "b.yaml": {"messages": [["MB", 7328, [F("v", "double")]]]}}, tags=["id_conflict", "id_then_range_other_file"]))
    D.append(one({"a.yaml": {"imports": ["b.yaml"], "messages": [["MA", 7327, [F("v", "int32")]]]},
                  "b.yaml": {"messages": [["MB", 7300, None]], "reserved": ["7326 to 7328"]}},
                 tags=["id_conflict", "range_then_id_other_file"]))
    D.append(one({"a.yaml": {"messages": [["MA", 7401, [F("v", "int32")]]], "reserved": [7400, "7401-7403"]}},
                 tags=["id_conflict", "id_then_range_same_file"]))
    D.append(one({"a.yaml": {"imports": ["b.yaml"], "messages": [["MA", 7500, [F("v", "int32")]]]},
                  "b.yaml": {"messages": [["MB", 7500, None]]}}, tags=["id_conflict", "signal_then_message"]))
    D.append(one({"a.yaml": {"imports": ["b.yaml", "c.yaml"], "messages": [["MA", 7600, None]]},
                  "b.yaml": {"reserved": ["7610-7615"]}, "c.yaml": {"reserved": [7620, "7615 to 7617"]}},
                 tags=["id_conflict", "range_overlaps_range"]))
    D.append(one({"a.yaml": {"messages": [["MA", 10000, [F("v", "int32")]], ["MZ", 0, None]]}}, tags=["id_bounds_ok"]))
    # expressions that mention constants many times (more references than distinct constants, more than ten of them)
    many = "NX*NY + NX*NZ + NX*NW + NY*NZ + NY*NW + NZ*NW"
    D.append(one({"a.yaml": {"constants": [["NX", "3", 3], ["NY", "4", 4], ["NZ", "5", 5], ["NW", "2", 2],
                                           ["N_PAIR_TERMS", many, 71], ["N_TWICE", f"({many}) + ({many})", 142]],
                             "structs": [["GRID", [F("cells", "int16", f"{many} - 60", 11), F("n", "int32")]]],
                             "messages": [["MGRID", 1910, [F("g", "GRID", "NX*NX*NX*NX - NX*NX*NX*NX + NY - NX", 1),
                                                           F("tail", "uint8", "NW*NW*NW*NW*NW*NW*NW*NW*NW*NW*NW*NW - 4090", 6)]]]}},
                 tags=["many_references"]))
    # user names that coincide with core_defs names of ANOTHER kind (module / host ids are namespaces of their own)
    D.append(one({"a.yaml": {"mods": [["DATA_COLLECTION", 44], ["CONNECT_V2", 45]], "hosts": [["RTMA_MSG_HEADER", 7]],
                             "messages": [["DATA_LOGGER", 1920, [F("v", "int32"), F("w", "int16"), F("x", "int16")]],
                                          ["QUICK_LOGGER", 1921, None]]}},
                 coredefs=True, tags=["coredefs", "core_name_other_kind"]))
    D.append(one({"a.yaml": {"messages": [["MA", 10001, [F("v", "int32")]]]}}, tags=["id_conflict", "id_above_max"]))
    D.append(one({"a.yaml": {"messages": [["MA", -1, None]]}}, tags=["id_conflict", "id_negative"]))
    D.append(one({"a.yaml": {"imports": ["b.yaml"], "messages": [["MA", 7700, [F("v", "int32")]]], "reserved": ["7701 to 7703"]},
                  "b.yaml": {"messages": [["MB", 7704, [F("v", "double")]]], "reserved": [7705]}}, tags=["reserved_adjacent_ok"]))
    # files in sub-directories: `type_source` / the core mark are relative to the root file's directory, imports to the
    # importing file's (root below its imports, imports spelled through `.` and `..`)
    sub = one({"a.yaml": {"imports": ["b.yaml", "c.yaml"], "structs": [["SA", [F("b", "SB"), F("c", "SC_", 2)]]],
                          "messages": [["MA", 2400, [F("s", "SA"), F("t", "MC")]]]},
               "b.yaml": {"imports": ["c.yaml"], "structs": [["SB", [F("c", "SC_"), F("x", "int32")]]]},
               "c.yaml": {"structs": [["SC_", [F("v", "int32")]]], "messages": [["MC", 2401, [F("v", "SC_")]]], "reserved": [2402]}},
              tags=["paths"])
    D.append(relocate(sub, {"b.yaml": "sub", "c.yaml": "sub/deep"}, "subdirs_below"))
    D.append(relocate(sub, {"a.yaml": "app", "b.yaml": "lib", "c.yaml": ""}, "subdirs_root_below_imports"))
    sp = relocate(sub, {"a.yaml": "app/x", "b.yaml": "app", "c.yaml": "lib/y"}, "subdirs_spelled_oddly")
    sp["files"]["app/x/a.yaml"]["imports"] = ["./../b.yaml", "../../lib/../lib/y/c.yaml"]
    D.append(sp)
    # a file reached a second time (already read: skipped) from an importer in ANOTHER directory, with more imports
    # listed after it — every later entry of that list is still relative to the importer's own directory.  The second
    # mention is: a diamond (b imported c before), the same entry twice, the importer itself (cycle back to the root)
    re_imp = one({"a.yaml": {"imports": ["b.yaml", "c.yaml", "d.yaml"],
                             "messages": [["RA", 2500, [F("b", "RB"), F("c", "RC"), F("d", "RD")]]]},
                  "b.yaml": {"imports": ["c.yaml"], "structs": [["RB", [F("c", "RC"), F("x", "int32")]]]},
                  "c.yaml": {"structs": [["RC", [F("v", "int32")]]]},
                  "d.yaml": {"structs": [["RD", [F("w", "double")]]]}}, tags=["paths", "reimport"])
    for k, dirs in enumerate([{"b.yaml": "devices", "c.yaml": "common", "d.yaml": "devices"},
                              {"a.yaml": "app", "b.yaml": "app", "c.yaml": "lib", "d.yaml": "app/more"},
                              {"b.yaml": "x/y", "c.yaml": "x", "d.yaml": ""},
                              {"a.yaml": "top", "b.yaml": "", "c.yaml": "top/in", "d.yaml": "other"}]):
        D.append(relocate(re_imp, dirs, f"reimport_dirs{k}"))
    tw = relocate(re_imp, {"b.yaml": "devices", "c.yaml": "common", "d.yaml": "devices"}, "reimport_same_entry_twice")
    tw["files"]["a.yaml"]["imports"] = ["common/c.yaml", "common/c.yaml", "devices/b.yaml", "common/../common/c.yaml", "devices/d.yaml"]
    D.append(tw)
    cy = relocate(re_imp, {"b.yaml": "devices", "c.yaml": "common", "d.yaml": "devices"}, "reimport_cycle_to_root")
    cy["files"]["devices/b.yaml"]["imports"] = ["../a.yaml", "../common/c.yaml"]
    cy["files"]["common/c.yaml"]["imports"] = ["../devices/b.yaml", "../a.yaml", "../devices/d.yaml"]
    D.append(cy)
    # field names that do not start with a letter (C-style `_reserved`, `_pad0`, `__x`): the parser checks only top-level
    # names, so these are accepted; all four outputs of ONE compile() call must still call the fields the same
    D.append(one({"a.yaml": {"structs": [["US", [F("_seq", "uint32"), F("_pad0", "uint8", 4), F("value", "double")]]],
                             "messages": [["UM", 2600, [F("_reserved", "int32"), F("s", "US"), F("__x", "int16", 2), F("x_", "int16", 2)]],
                                          ["UR", 2601, "US"]]}}, tags=["underscore_fields"]))
    # import diamond, every section in every file
    D.append(one({"a.yaml": {"imports": ["b.yaml", "c.yaml"], "constants": [["NA", "ND + 1", 5]],
                             "messages": [["MA", 2000, [F("b", "SB"), F("c", "SC_"), F("arr", "uint16", "NA", 5)]]]},
                  "b.yaml": {"imports": ["d.yaml"], "structs": [["SB", [F("d", "SD", 2), F("x", "char")]]]},
                  "c.yaml": {"imports": ["d.yaml"], "structs": [["SC_", [F("d", "SD"), F("y", "double")]]]},
                  "d.yaml": {"constants": [["ND", "4", 4]], "structs": [["SD", [F("v", "int64"), F("s", "int8", "ND", 4)]]]}},
                 tags=["diamond"]))
    # deep nesting, message inside message, reuse of struct by message and of message by message
    D.append(one({"a.yaml": {"structs": [["L0", [F("a", "char"), F("b", "double")]], ["L1", [F("x", "L0", 2), F("c", "int16")]],
                                         ["L2", [F("y", "L1"), F("d", "uint8", 3)]], ["L3", [F("z", "L2", 2), F("e", "float")]],
                                         ["R0", "L1"]],
                             "messages": [["ML", 2100, [F("l", "L3"), F("r", "R0")]], ["MM", 2101, [F("m", "ML", 2), F("f", "int8")]],
                                          ["MR", 2102, "L2"], ["MS", 2103, "MM"]]}}, tags=["depth4", "reuse", "msg_in_msg"]))
    # float / negative / big constants, host ids
    D.append(one({"a.yaml": {"constants": [["CF", "2.5", 2.5], ["CN", "-7", -7], ["CB", "4294967296", 4294967296],
                                           ["CE", "CB - 1", 4294967295], ["CX", "0x10", 16]],
                             "strings": [["S1", "a b c"], ["S2", "x"]], "hosts": [["HA", 1], ["HB", 32767]],
                             "mods": [["MODA", 10], ["MODB", 99], ["MODC", 201]],
                             "messages": [["MC", 2200, [F("v", "int32", "CX", 16)]]]}}, tags=["constants"]))
    # auto_pad off on an aligned definition, and on a misaligned one
    D.append(one({"a.yaml": {"structs": [["A1", [F("a", "int32"), F("b", "int16", 2)]]]}}, auto_pad=False, tags=["nopad_ok"]))
    D.append(one({"a.yaml": {"structs": [["A2", [F("a", "char"), F("b", "int32")]]]}}, auto_pad=False, tags=["nopad_err"]))
    # core types used by a user file
    D.append(one({"a.yaml": {"structs": [["UH", [F("h", "RTMA_MSG_HEADER"), F("m", "MODULE_ID", 4)]]],
                             "messages": [["UM", 2300, [F("u", "UH"), F("t", "MSG_TYPE"), F("c", "CONNECT_V2")]]]}},
                 coredefs=True, tags=["coredefs", "core_types"]))
    return D


def exhaustive(deep: bool) -> List[Dict[str, Any]]:
    """every native type name: scalar, [1], [2], [5]; and every ordered pair (all 27 x 27 in the thorough tier)"""
    nat = [k for k, _ in natives()]
    structs = []
    n = 0
    for k in nat:
        for ln in (None, 1, 2, 5):
            structs.append([f"E{n}", [F("v", k, ln)]])
            n += 1
    out = [one({"a.yaml": {"structs": structs, "messages": [[f"EM{i}", 4000 + i, s[0]] for i, s in enumerate(structs[::4])]}},
               tags=["exh_single"])]
    firsts = nat if deep else WIDTH_REPR
    structs = []
    for a, b in itertools.product(firsts, nat):
        structs.append([f"P{n}", [F("a", a), F("b", b, 3 if (n % 3 == 0) else None)]])
        n += 1
    out.append(one({"a.yaml": {"structs": structs}}, tags=["exh_pairs"]))
    # aliases of every native, used scalar and as array
    aliases = [[f"AL{i}", k] for i, k in enumerate(nat)]
    structs = [[f"AU{i}", [F("s", f"AL{i}"), F("t", f"AL{i}", 2)]] for i in range(len(nat))]
    out.append(one({"a.yaml": {"aliases": aliases, "structs": structs}}, tags=["exh_alias"]))
    return out


# ------------------------------------------------------------------------------------------------
# malformed stream (not `documented`: only the outcome class is compared, and never `internal` unless flagged)
# ------------------------------------------------------------------------------------------------
def malformed() -> List[Dict[str, Any]]:
    M: List[Dict[str, Any]] = []

    def bad(files, why, **kw):
        M.append(one(files, documented=kw.pop("documented", True), tags=["malformed", why], **kw))

    bad({"a.yaml": {"structs": [["S", [F("a", "nosuchtype")]]]}}, "unknown_type")
    bad({"a.yaml": {"aliases": [["A", "nosuchtype"]]}}, "unknown_alias_target")
    bad({"a.yaml": {"messages": [["M", 1000, [F("v", "int32")]]], "aliases": [["A", "M"]]}}, "alias_of_message")
    bad({"a.yaml": {"structs": [["S", [F("z", "int32", 0), F("w", "int32")]]]}}, "zero_length")
    bad({"a.yaml": {"structs": [["S", [F("z", "int32", "-3", -3)]]]}}, "negative_length")
    bad({"a.yaml": {"constants": [["N", "2", 2]], "structs": [["S", [F("z", "double", "N - 2", 0)]]]}}, "zero_length_expr")
    bad({"a.yaml": {"structs": [["S", []]]}}, "empty_fields", documented=False)
    bad({"a.yaml": {"messages": [["SIG", 1000, None], ["M", 1001, [F("s", "SIG")]]]}}, "signal_as_type", documented=False)
    bad({"a.yaml": {"messages": [["SIG", 1000, None], ["M", 1001, "SIG"]]}}, "reuse_signal", documented=False)
    bad({"a.yaml": {"messages": [["M", 1001, "NOPE"]]}}, "reuse_unknown")
    bad({"a.yaml": {"structs": [["S", [F("a", "char", 65536)]]]}}, "too_large")
    bad({"a.yaml": {"structs": [["S", [F("a", "double", 8191), F("b", "char", 7)]]]}}, "size_65535")
    bad({"a.yaml": {"structs": [["S", [F("a", "double", 8192)]]]}}, "size_65536")
    bad({"a.yaml": {"structs": [["S", [F("a", "char"), F("b", "double")]]]}}, "misaligned_nopad", auto_pad=False)
    bad({"a.yaml": {"structs": [["S", [F("a", "double"), F("b", "char")]]]}}, "trailing_nopad", auto_pad=False)
    bad({"a.yaml": {"imports": ["b.yaml"], "structs": [["S", [F("a", "Later")]]]},
         "b.yaml": {"structs": [["Later2", [F("a", "int8")]]]}}, "use_before_def")
    bad({"a.yaml": {"aliases": [["A", "B_"], ["B_", "int32"]]}}, "alias_forward")
    return M


# ------------------------------------------------------------------------------------------------
# seeded random structured closures
# ------------------------------------------------------------------------------------------------
CORE_TYPES = [("MODULE_ID", "a"), ("HOST_ID", "a"), ("MSG_TYPE", "a"), ("MSG_COUNT", "a"), ("RTMA_MSG_HEADER", "s"),
              ("CONNECT_V2", "m"), ("DATA_SET", "s")]


def rand_closure(rng, p_f3: float = 0.08, p_f4: float = 0.08) -> Dict[str, Any]:
    nat = natives()
    nfiles = rng.choice([1, 1, 2, 2, 3, 4])
    names = [f"f{i}.yaml" for i in range(nfiles)]
    imports: Dict[str, List[str]] = {n: [] for n in names}
    for i in range(1, nfiles):
        imports[names[rng.randrange(0, i)]].append(names[i])
    for i in range(nfiles):
        for j in range(i + 1, nfiles):
            if names[j] not in imports[names[i]] and rng.random() < 0.25:
                imports[names[i]].append(names[j])
    for n in names:
        rng.shuffle(imports[n])
    # a file named a second time in one list, or again by a later importer (it is read once; the rest of the list still
    # counts): not in last position, so something is resolved after the skip
    repeated = False
    for n in names:
        if len(imports[n]) >= 1 and rng.random() < 0.25:
            again = rng.choice([x for x in names[1:] if x != n] or imports[n])
            imports[n].insert(rng.randrange(0, len(imports[n])), again)
            repeated = True
    coredefs = rng.random() < 0.2
    cl = one({n: {"imports": imports[n]} for n in names}, root=names[0], coredefs=coredefs,
             auto_pad=rng.random() < 0.9)
    tags = set()
    if repeated:
        tags.add("imports_repeated")
    if coredefs:
        tags.add("coredefs")
    allow_f3 = rng.random() < p_f3
    allow_f4 = rng.random() < p_f4
    counter = itertools.count()
    consts: List[Tuple[str, int]] = []
    aliases: List[Tuple[str, str]] = []           # (name, kind n|s)
    structs: List[Tuple[str, int, str]] = []       # (name, depth, file)
    msgs: List[Tuple[str, int, str]] = []
    sizes: Dict[str, int] = {k: s for k, s in nat}
    if coredefs:
        for n, k in CORE_TYPES:
            sizes[n] = {"MODULE_ID": 2, "HOST_ID": 2, "MSG_TYPE": 4, "MSG_COUNT": 4, "RTMA_MSG_HEADER": 48,
                        "CONNECT_V2": 8, "DATA_SET": 456}[n]
    next_id = [rng.randrange(1100, 5000)]
    used_ids = set()
    descending = rng.random() < 0.4       # message ids need not follow definition order

    def fresh_id():
        if descending:
            while True:
                v = rng.randrange(1000, 9000)
                if v not in used_ids and not any(abs(v - u) < 12 for u in used_ids):
                    used_ids.add(v)
                    return v
        next_id[0] += rng.randint(1, 9)
        used_ids.add(next_id[0])
        return next_id[0]
    next_mod = [rng.randrange(10, 60)]
    next_host = [rng.randrange(1, 1000)]

    def nm(prefix):
        return f"{prefix}{next(counter)}"

    def gen_len():
        r = rng.random()
        if r < 0.45:
            return None, None
        if r < 0.8 or not consts:
            v = rng.choice([1, 1, 2, 3, 4, 5, 7, 8, 9])
            return str(v), v
        c, cv = rng.choice(consts)
        form = rng.choice(["{c}", "{c} * 2", "({c} + 1)", "{c} + {c}"])
        v = {"{c}": cv, "{c} * 2": cv * 2, "({c} + 1)": cv + 1, "{c} + {c}": cv + cv}[form]
        tags.add("const_expr_len")
        return form.format(c=c), v

    def gen_fields(fn: str, for_struct: bool, maxdepth: int):
        """returns (fields, depth, size estimate)"""
        fields = []
        depth = 0
        total = 0
        for i in range(rng.randint(1, 6)):
            r = rng.random()
            ty = None
            d = 0
            if r < 0.5 or not (structs or aliases or msgs):
                ty = rng.choice(nat)[0]
            elif r < 0.65 and aliases:
                a, k = rng.choice(aliases)
                ty = a
                tags.add("alias_field")
            elif r < 0.9 and structs:
                cands = [s for s in structs if s[1] < maxdepth]
                if cands:
                    ty, d0, _ = rng.choice(cands)
                    d = d0 + 1
            elif msgs:
                cands = [m for m in msgs if m[1] < maxdepth and (not for_struct or (allow_f4 and m[2] != fn))]
                if cands:
                    ty, d0, _ = rng.choice(cands)
                    d = d0 + 1
                    tags.add("struct_uses_message" if for_struct else "msg_in_msg")
            if ty is None and coredefs and rng.random() < 0.5:
                ty = rng.choice([t for t, k in CORE_TYPES if k != "m" or not for_struct])
                tags.add("core_types")
            if ty is None:
                ty = rng.choice(nat)[0]
            le, lv = gen_len()
            sz = sizes.get(ty, 8) * (lv or 1)
            if total + sz + 16 > 6000:
                ty, le, lv, d = "int32", None, None, 0
                sz = 4
            total += sz + 8
            if d and lv:
                tags.add("array_of_struct")
            fname = f"f{i}"
            if rng.random() < 0.08:       # a name that starts with an underscore (legal for the parser)
                fname = rng.choice(["_f%d", "__r%d", "_%d_x", "_seq%d"]) % i
                tags.add("underscore_fields")
            fields.append([fname, ty, le, lv])
            depth = max(depth, d)
        return fields, depth, total

    order = [fn for fn, _ in E.flatten(cl)]
    for fn in order:
        fs = cl["files"][fn]
        fs["constants"] = []
        for _ in range(rng.choice([0, 0, 1, 2, 3])):
            n = nm("K")
            r = rng.random()
            if r < 0.6 or not consts:
                v = rng.choice([1, 2, 3, 4, 6, 8])
                fs["constants"].append([n, str(v), v])
                consts.append((n, v))
            elif r < 0.85:
                c, cv = rng.choice(consts)
                v = cv * 2 + 1
                fs["constants"].append([n, f"{c} * 2 + 1", v])
                if v <= 12:
                    consts.append((n, v))
            else:
                v = rng.choice([0.5, 2.25, -3, 1000000, 4294967295])
                fs["constants"].append([n, repr(v), v])
        fs["strings"] = [[nm("STR"), rng.choice(["hello", "a b", "x_y", "Z9"])] for _ in range(rng.choice([0, 0, 1, 2]))]
        fs["aliases"] = []
        for _ in range(rng.choice([0, 1, 2, 3])):
            n = nm("T")
            r = rng.random()
            if allow_f3 and r < 0.5 and [s for s in structs if s[2] != fn]:
                t = rng.choice([s for s in structs if s[2] != fn])[0]
                fs["aliases"].append([n, t])
                sizes[n] = sizes[t]
                tags.add("alias_of_struct")
                aliases.append((n, "s"))
            elif r < 0.35 and [a for a in aliases if a[1] == "n"]:
                t = rng.choice([a for a in aliases if a[1] == "n"])[0]
                fs["aliases"].append([n, t])
                sizes[n] = sizes[t]
                tags.add("alias_of_alias")
                aliases.append((n, "n"))
            else:
                t = rng.choice(nat)[0]
                fs["aliases"].append([n, t])
                sizes[n] = sizes[t]
                aliases.append((n, "n"))
        fs["hosts"] = []
        for _ in range(rng.choice([0, 0, 1, 2])):
            next_host[0] += rng.randint(1, 50)
            fs["hosts"].append([nm("HOST"), next_host[0]])
        fs["mods"] = []
        for _ in range(rng.choice([0, 0, 1, 2])):
            next_mod[0] += 1
            fs["mods"].append([nm("MOD"), next_mod[0] if next_mod[0] < 100 else next_mod[0] + 200])
        fs["structs"] = []
        for _ in range(rng.choice([0, 1, 1, 2, 3])):
            n = nm("S")
            if structs and rng.random() < 0.1:
                src = rng.choice(structs)
                fs["structs"].append([n, src[0]])
                structs.append((n, src[1], fn))
                sizes[n] = sizes[src[0]]
                tags.add("reuse")
                continue
            fields, d, sz = gen_fields(fn, True, 3)
            fs["structs"].append([n, fields])
            structs.append((n, d, fn))
            sizes[n] = sz
            tags.add(f"depth{d}")
        fs["messages"] = []
        for _ in range(rng.choice([0, 1, 1, 2, 3])):
            n = nm("M")
            mid = fresh_id()
            if descending:
                tags.add("ids_unordered")
            r = rng.random()
            if r < 0.15:
                fs["messages"].append([n, mid, None])
                tags.add("signal")
                continue
            if r < 0.27 and (structs or msgs):
                src = rng.choice(structs + msgs)
                fs["messages"].append([n, mid, src[0]])
                msgs.append((n, src[1], fn))
                sizes[n] = sizes[src[0]]
                tags.add("reuse")
                continue
            fields, d, sz = gen_fields(fn, False, 4)
            fs["messages"].append([n, mid, fields])
            msgs.append((n, d, fn))
            sizes[n] = sz
            tags.add(f"depth{d}")
        if rng.random() < 0.3:
            base = 7000 + 100 * order.index(fn) + rng.randrange(0, 40)
            fs["reserved"] = [base, f"{base + 2}-{base + 4}"] if rng.random() < 0.5 else [f"{base} to {base + 2}"]
            tags.add("reserved")
    if nfiles > 1:
        tags.add(f"files{nfiles}")
    cl["tags"] = sorted(tags)
    return cl
