"""Tie B for M1 (Model/Manager.lean): the real `MessageManager.run()` driven through `fakes.py`, against the Lean model
and the history-based Spec checkers (Spec/Manager.lean).

A *script* is a list of rounds:
    {"dt": ms, "accept": bool, "writable": [uid], "fail": {uid: "hdr"|"pay"|None},
     "reads": [ {"uid": u, "k": serial, "mtype": .., "src": .., "dest": .., "dest_host": .., "src_host": ..,
                 "payload": bytes, "nbytes": declared (default len(payload)), "cut": n|None (bytes delivered before EOF),
                 "err": None|"hdr"|"pay"} ]}

Protocol sent to `drv_manager` (one case):
    CASE <id> / CFG k=v ... / MODE both|corr|prop
    ROUND <dt> <accept> W <uid>*      FAIL <uid> hdr|pay|none      READ <uid> <hdrErr> <hdrOk> <k> <type> <src> <dest> <destHost> <nbytes> <payErr> <avail> <payhex|->
    OBS0 / <event>* / MARK / <event>* ... / [CRASH <text>] / END
    event:  S <uid> <count> <type> <src> <dest> <destHost> <nbytes> <body>   |  P <uid>  |  WF <uid>  |  X <uid>
"""
from __future__ import annotations

import ctypes
import struct
from typing import Any, Dict, List, Optional, Tuple

from . import common as C
from . import fakes

TAG = 1.0e6          # send_time of input frame k is TAG + k (the manager's own frames carry the frozen clock, ~1000)
BUF = 48


def _cd():
    import pyrtma.core_defs as cd
    return cd


def header_cls(timecode: bool):
    from pyrtma.header import get_header_cls
    return get_header_cls(timecode)


def build_frame(rd: Dict[str, Any], timecode: bool) -> bytes:
    """bytes of the input frame described by `rd` (header + payload), before any cut"""
    from pyrtma.validators import disable_message_validation
    H = header_cls(timecode)
    h = H()
    pay = rd.get("payload", b"")
    with disable_message_validation():
        h.msg_type = rd["mtype"]
        h.msg_count = rd.get("msg_count", 77)
        h.send_time = TAG + rd["k"]
        h.recv_time = rd.get("recv_time", 0.25)
        h.src_host_id = rd.get("src_host", 0)
        h.src_mod_id = rd.get("src", 0)
        h.dest_host_id = rd.get("dest_host", 0)
        h.dest_mod_id = rd.get("dest", 0)
        h.num_data_bytes = rd.get("nbytes", len(pay))
        h.remaining_bytes = rd.get("remaining", 3)
        h.is_dynamic = rd.get("is_dynamic", 1)
        h.reserved = rd.get("version", 0xABCD1234)
        if timecode:
            h.utc_seconds = 11
            h.utc_fraction = 22
    return bytes(h) + pay


def consts() -> Dict[str, int]:
    cd = _cd()
    import pyrtma.manager as M
    c = {
        "maxModules": cd.MAX_MODULES, "dynStart": cd.DYN_MOD_ID_START, "maxHosts": cd.MAX_HOSTS,
        "maxTypes": cd.MAX_MESSAGE_TYPES, "trafficSize": cd.MESSAGE_TRAFFIC_SIZE, "maxActive": cd.MAX_ACTIVE_CLIENTS,
        "allTypes": cd.ALL_MESSAGE_TYPES, "bufMax": 1024 ** 2, "mmPid": 4242,
        "szInfo": cd.MDF_CLIENT_INFO.type_size, "szFailed": cd.MDF_FAILED_MESSAGE.type_size,
        "szTiming": cd.MDF_TIMING_MESSAGE.type_size, "szTraffic": cd.MDF_MESSAGE_TRAFFIC.type_size,
        "szActive": cd.MDF_ACTIVE_CLIENTS.type_size, "szLog": cd.MDF_RTMA_LOG.type_size,
        "mtAck": cd.MT_ACKNOWLEDGE, "mtConnectV2": cd.MT_CONNECT_V2, "mtFailed": cd.MT_FAILED_MESSAGE,
        "mtConnect": cd.MT_CONNECT, "mtDisconnect": cd.MT_DISCONNECT, "mtSubscribe": cd.MT_SUBSCRIBE,
        "mtUnsubscribe": cd.MT_UNSUBSCRIBE, "mtModuleReady": cd.MT_MODULE_READY, "mtTraffic": cd.MT_MESSAGE_TRAFFIC,
        "mtActive": cd.MT_ACTIVE_CLIENTS, "mtInfo": cd.MT_CLIENT_INFO, "mtClosed": cd.MT_CLIENT_CLOSED,
        "mtSetName": cd.MT_CLIENT_SET_NAME, "mtLog": cd.MT_RTMA_LOG, "mtTiming": cd.MT_TIMING_MESSAGE,
        "mtPause": cd.MT_PAUSE_SUBSCRIPTION, "mtResume": cd.MT_RESUME_SUBSCRIPTION,
    }
    return c


def tunables(mgr) -> Dict[str, int]:
    """Values no property fixes — the three reporting periods and the size of the receive buffer — are read from the
    manager object under test (milliseconds / bytes); a tree that renames them falls back to the values of the pinned
    commit, and a difference then shows up as a correspondence difference like any other."""
    def ms(x, default):
        try:
            return int(round(float(x) * 1000))
        except Exception:
            return default
    out = {"pTiming": 900, "pTraffic": 1000, "pInfo": 5000}
    if mgr is None:
        return out
    out["pTiming"] = ms(getattr(mgr, "min_timing_message_period", 0.9), 900)
    out["pTraffic"] = ms(getattr(mgr, "TRAFFIC_INTERVAL", 1.0), 1000)
    out["pInfo"] = ms(getattr(mgr, "INFO_INTERVAL", 5.0), 5000)
    try:
        out["bufMax"] = len(mgr.data_buffer)
    except Exception:
        pass
    return out


# ------------------------------------------------------------------------------------------------------------------
# script -> fake rounds, script -> protocol
# ------------------------------------------------------------------------------------------------------------------

def to_fake_rounds(script: List[Dict[str, Any]], timecode: bool) -> Tuple[List[Dict[str, Any]], Dict[int, bytes]]:
    frames: Dict[int, bytes] = {}
    out = []
    for r in script:
        reads = []
        for rd in r.get("reads", []):
            raw = build_frame(rd, timecode)
            frames[rd["k"]] = raw
            cut = rd.get("cut")
            data = raw if cut is None else raw[:cut]
            if rd.get("err"):
                reads.append((rd["uid"], ("err", rd["err"], data)))
            else:
                reads.append((rd["uid"], ("bytes", data)))
        out.append({"dt": r.get("dt", 0) / 1000.0, "accept": bool(r.get("accept")), "reads": reads,
                    "writable": list(r.get("writable", [])), "fail": dict(r.get("fail", {}))})
    return out, frames


def hexs(b: bytes) -> str:
    return b.hex() if b else "-"


def to_protocol(script: List[Dict[str, Any]], timecode: bool) -> List[str]:
    hs = ctypes.sizeof(header_cls(timecode))
    lines = []
    for r in script:
        lines.append(f"ROUND {int(r.get('dt', 0))} {1 if r.get('accept') else 0} W " + " ".join(map(str, r.get("writable", []))))
        for u, m in r.get("fail", {}).items():
            lines.append(f"FAIL {u} {m or 'none'}")
        for rd in r.get("reads", []):
            raw = build_frame(rd, timecode)
            cut = rd.get("cut")
            data = raw if cut is None else raw[:cut]
            hdr_ok = len(data) >= hs
            avail = max(0, len(data) - hs)
            pay = data[hs:hs + BUF]
            lines.append("READ %d %d %d %d %d %d %d %d %d %d %d %s" % (
                rd["uid"], 1 if rd.get("err") == "hdr" else 0, 1 if hdr_ok else 0, rd["k"], rd["mtype"],
                rd.get("src", 0), rd.get("dest", 0), rd.get("dest_host", 0), rd.get("nbytes", len(rd.get("payload", b""))),
                1 if rd.get("err") == "pay" else 0, avail, hexs(pay)))
    return lines


# ------------------------------------------------------------------------------------------------------------------
# observation: fake world events -> canonical event lines
# ------------------------------------------------------------------------------------------------------------------

def _cname(raw: bytes) -> str:
    return hexs(raw.split(b"\0", 1)[0])


def _trim(l: List[int]) -> List[int]:
    l = list(l)
    while l and l[-1] == 0:
        l.pop()
    return l


def decode_frame(hdr_b: bytes, pay: bytes, frames: Dict[int, bytes], timecode: bool) -> str:
    cd = _cd()
    H = header_cls(timecode)
    hs = ctypes.sizeof(H)
    h = H.from_buffer_copy((hdr_b + bytes(hs))[:hs])
    head = f"{h.msg_count} {h.msg_type} {h.src_mod_id} {h.dest_mod_id} {h.dest_host_id} {h.num_data_bytes}"
    if len(hdr_b) != hs:
        # a header of the wrong size for this manager's layout (the byte-stream check reports it as a broken frame)
        return head + f" BADHDR {len(hdr_b)}"
    if len(pay) != h.num_data_bytes:
        return head + f" BADLEN {len(pay)}"
    try:
        return _decode_body(h, hdr_b, pay, frames, head)
    except Exception as e:  # noqa: BLE001  an undecodable payload is an observation, not a harness failure
        return head + f" BADBODY {type(e).__name__}"


def _decode_body(h, hdr_b: bytes, pay: bytes, frames: Dict[int, bytes], head: str) -> str:
    cd = _cd()
    t = h.msg_type
    if h.send_time >= TAG:
        k = int(round(h.send_time - TAG))
        orig = frames.get(k)
        if orig is None:
            return head + f" DX {k} unknown-serial"
        # byte-identical except msg_count (bytes 4..8 of the header)
        got = hdr_b[:4] + b"\0\0\0\0" + hdr_b[8:] + pay
        want = orig[:4] + b"\0\0\0\0" + orig[8:len(hdr_b)] + orig[len(hdr_b):]
        return head + (f" D {k}" if got == want else f" DX {k} modified")
    if t == cd.MT_ACKNOWLEDGE:
        return head + " A"
    if t in (cd.MT_CLIENT_INFO, cd.MT_CLIENT_CLOSED):
        m = (cd.MDF_CLIENT_INFO if t == cd.MT_CLIENT_INFO else cd.MDF_CLIENT_CLOSED).from_buffer_copy(pay)
        raw = bytes(pay)
        name_off = type(m).name_offset if hasattr(type(m), "name_offset") else None
        # name is the last field: char[MAX_NAME_LEN]
        nm = raw[len(raw) - cd.MAX_NAME_LEN:]
        return head + f" {'I' if t == cd.MT_CLIENT_INFO else 'C'} {m.uid} {m.pid} {m.mod_id} {m.is_logger} {m.is_unique} {_cname(nm)}"
    if t == cd.MT_FAILED_MESSAGE:
        m = cd.MDF_FAILED_MESSAGE.from_buffer_copy(pay)
        return head + f" F {m.dest_mod_id} {m.msg_header.msg_type} {m.msg_header.src_mod_id} {m.msg_header.dest_mod_id}"
    if t == cd.MT_TIMING_MESSAGE:
        m = cd.MDF_TIMING_MESSAGE.from_buffer_copy(pay)
        tm = list(m.timing)
        cs = [(i, c) for i, c in enumerate(tm) if c]
        ps = [(i, p) for i, p in enumerate(list(m.ModulePID)) if p]
        return head + " T %d %s %d %s" % (len(cs), " ".join(f"{i} {c}" for i, c in cs), len(ps), " ".join(f"{i} {p}" for i, p in ps))
    if t == cd.MT_MESSAGE_TRAFFIC:
        m = cd.MDF_MESSAGE_TRAFFIC.from_buffer_copy(pay)
        return head + f" R {m.seqno} {m.sub_seqno} " + " ".join(map(str, list(m.msg_type))) + " " + " ".join(map(str, list(m.msg_count)))
    if t == cd.MT_ACTIVE_CLIENTS:
        m = cd.MDF_ACTIVE_CLIENTS.from_buffer_copy(pay)
        ids = _trim(list(m.client_mod_id))
        ps = _trim(list(m.client_pid))
        return head + f" V {m.num_clients} {len(ids)} " + " ".join(map(str, ids)) + f" {len(ps)} " + " ".join(map(str, ps))
    if cd.MT_RTMA_LOG <= t <= cd.MT_RTMA_LOG_DEBUG:
        m = cd.MDF_RTMA_LOG.from_buffer_copy(pay)
        return head + f" L {m.level}"
    return head + f" U {t}"


def observe(res: Dict[str, Any], frames: Dict[int, bytes], timecode: bool) -> Tuple[List[str], Dict[int, bytes]]:
    """canonical event lines (with OBS0 / MARK separators) and the raw byte stream written to every connection"""
    ev = res["events"]
    marks = res["marks"]
    lines = ["OBS0"]
    streams: Dict[int, bytes] = {}
    nm = 0
    # round i covers events[marks[i] : marks[i+1]]; without a crash the last mark is the exhausted read-select (shutdown
    # follows); after a crash every mark starts a round and the crash round ends where run()'s `finally` starts closing
    if res["crash"]:
        end = res.get("crash_end", len(ev))
        bl = sorted(marks)
    else:
        end = marks[-1] if marks else len(ev)
        bl = sorted(marks[:-1])
    bi = 0
    H = header_cls(timecode)
    hs = ctypes.sizeof(H)
    carry: Dict[int, bytes] = {}        # uid -> bytes of a frame that began in a write longer than a header, not whole yet
    dangling: List[int] = []            # uids with a header on its own, no payload and no failure after it

    def declared(hdr_b: bytes) -> Optional[int]:
        return int(H.from_buffer_copy(hdr_b).num_data_bytes) if len(hdr_b) == hs else None

    def cut_frames(u: int, buf: bytes):
        """whole frames out of a piece of `u`'s byte stream (writes that hold more than a header); the rest is carried"""
        while len(buf) >= hs:
            n = max(0, declared(buf[:hs]) or 0)
            if len(buf) < hs + n:
                break
            lines.append(f"S {u} " + decode_frame(buf[:hs], buf[hs:hs + n], frames, timecode))
            buf = buf[hs + n:]
        if buf:
            carry[u] = buf

    # How the manager cuts a frame into `sendall` calls is not the properties' business.  A write of at most a header is a
    # header on its own: the next write on that connection is its payload (the lengths must agree, else BADLEN / BADHDR —
    # "payload of another message"); a failure right after it is a partial write (P); a header that declares no payload
    # is a whole frame whether or not an empty write follows.  A longer write holds header and payload (or several
    # frames): the connection's bytes are cut into frames as a receiver would.
    i = 0
    while i < end:
        while bi < len(bl) and bl[bi] == i:
            lines.append("MARK")
            bi += 1
        e = ev[i]
        i += 1
        if e[0] == "W":
            u, data = e[1], e[2]
            streams[u] = streams.get(u, b"") + data
            if u in carry:
                cut_frames(u, carry.pop(u) + data)
                continue
            if len(data) > hs:
                cut_frames(u, data)
                continue
            nxt = ev[i] if i < end else None
            n = declared(data)
            if nxt is not None and nxt[0] == "W" and nxt[1] == u and not (n == 0 and len(nxt[2]) > 0):
                streams[u] += nxt[2]
                lines.append(f"S {u} " + decode_frame(data, nxt[2], frames, timecode))
                i += 1          # (no round starts between the two writes of one message)
            elif nxt is not None and nxt[0] == "WF" and nxt[1] == u:
                lines.append(f"P {u}")
            elif n == 0:
                lines.append(f"S {u} " + decode_frame(data, b"", frames, timecode))
            else:
                dangling.append(u)
        elif e[0] == "WF":
            u = e[1]
            if u in carry:
                if len(carry.pop(u)) >= hs:
                    lines.append(f"P {u}")
            lines.append(f"WF {u}")
        elif e[0] == "C":
            lines.append(f"X {e[1]}")
        elif e[0] == "RD":
            lines.append(f"RD {e[1]}")
    while bi < len(bl):
        lines.append("MARK")
        bi += 1
    if res["crash"]:
        lines.append("CRASH " + res["crash"].split(":")[0])
    for u in dangling + list(carry):
        lines.append(f"P {u}")      # a header without (all of) its payload and without failure: never expected
    return lines, streams


def final_tables(res: Dict[str, Any]) -> List[str]:
    """the manager's tables when the script is exhausted: one FINAL line per entry of `modules` (what the manager recorded
    about the connection: id, flags, pid, name, subscriptions), the logger set and the subscription index"""
    mgr = res["mgr"]
    uid_of = lambda conn: 0 if conn is mgr.listen_socket else getattr(conn, "uid", -1)  # noqa: E731
    L = []
    for conn, m in mgr.modules.items():
        nm = m.name.encode("latin1", "replace") if isinstance(m.name, str) else bytes(m.name)
        subs = sorted(int(t) for t in m.subs)
        L.append("FINAL %d %d %d %d %d %d %d %s %s" % (uid_of(conn), m.mod_id, int(bool(m.unique)), int(bool(m.is_logger)),
                 int(bool(m.is_daemon)), int(bool(m.connected)), m.pid, nm.hex() or "-", " ".join(map(str, subs))))
    L.append("FLOG " + " ".join(str(uid_of(m.conn)) for m in mgr.logger_modules))
    for t in sorted(mgr.subscriptions):
        members = [uid_of(m.conn) for m in mgr.subscriptions[t]]
        if members:
            L.append(f"FIDX {int(t)} " + " ".join(map(str, members)))
    return L


def streams_whole(streams: Dict[int, bytes], partial_ok: set, timecode: bool) -> Optional[str]:
    """every byte stream must parse as whole frames (header + exactly the declared payload); a trailing partial
    frame is allowed only on connections whose payload write was made to fail"""
    H = header_cls(timecode)
    hs = ctypes.sizeof(H)
    for u, b in streams.items():
        pos = 0
        while pos < len(b):
            if pos + hs > len(b):
                return f"uid {u}: truncated header at {pos}"
            h = H.from_buffer_copy(b[pos:pos + hs])
            n = h.num_data_bytes
            if n < 0:
                return f"uid {u}: frame at {pos} declares {n} bytes"
            if pos + hs + n > len(b):
                if u in partial_ok and pos + hs == len(b):
                    break
                return f"uid {u}: frame at {pos} declares {n} bytes, stream has {len(b) - pos - hs}"
            pos += hs + n
    return None


def run_script(script: List[Dict[str, Any]], *, timecode: bool = False, log_level: int = 100, timing: bool = True,
               order: str = "fwd", debug: bool = False) -> Dict[str, Any]:
    """Run the real manager on the script.  Returns protocol lines (inputs + observation) and extras."""
    rounds, frames = to_fake_rounds(script, timecode)
    # `debug` is the constructor's debug flag (address reuse on the listening socket): no effect on the protocol
    mgr_kw = dict(timecode=timecode, log_level=log_level, send_msg_timing=timing, order=order, debug=debug)
    # the manager's own table entry reports os.getpid(): pin it
    import pyrtma.manager as M
    import os as _os
    from .rebind import rebind
    _orig_getpid = _os.getpid
    _os.getpid = _pid = lambda: 4242            # the `os.getpid()` spelling (any alias of the module)
    rebind(M, {"os": {"getpid": _pid}})         # the `from os import getpid` spelling
    try:
        res = fakes.run_manager(rounds, **mgr_kw)
    finally:
        _os.getpid = _orig_getpid
        rebind(M, {"os": {"getpid": _orig_getpid}})
    obs, streams = observe(res, frames, timecode)
    final = final_tables(res) if not res["crash"] else []
    c = consts()
    c.update({"logLevel": log_level, "timing": 1 if timing else 0, "rev": 1 if order == "rev" else 0})
    c.update(tunables(res.get("mgr")))
    cfg = "CFG " + " ".join(f"{k}={v}" for k, v in c.items())
    inp = to_protocol(script, timecode)
    partial_ok = {int(l.split()[1]) for l in obs if l.startswith("P ")}
    whole = streams_whole(streams, partial_ok, timecode)
    return {"cfg": cfg, "input": inp, "obs": obs + final, "crash": res["crash"], "whole": whole,
            "rtma_log_enabled": res["rtma_log_enabled"], "rounds_played": res["rounds_played"]}


def case_lines(cid: str, r: Dict[str, Any], mode: str = "both") -> List[str]:
    return [f"CASE {cid}", r["cfg"], f"MODE {mode}"] + r["input"] + r["obs"] + ["END"]


# ------------------------------------------------------------------------------------------------------------------
# script-building helpers
# ------------------------------------------------------------------------------------------------------------------

class Script:
    """builder with a frame serial counter"""

    def __init__(self):
        self.rounds: List[Dict[str, Any]] = []
        self.k = 0
        self.nconn = 0

    def accept(self, n: int = 1, **kw):
        for _ in range(n):
            self.nconn += 1
            self.rounds.append(dict(accept=True, **kw))
        return self

    def rd(self, uid: int, mtype: int, payload: bytes = b"", **kw) -> Dict[str, Any]:
        self.k += 1
        d = dict(uid=uid, k=self.k, mtype=mtype, payload=payload)
        d.update(kw)
        return d

    def round(self, reads: List[Dict[str, Any]] = (), writable: Optional[List[int]] = None, dt: int = 0,
              fail: Optional[Dict[int, Optional[str]]] = None, accept: bool = False):
        if accept:
            self.nconn += 1
        r = dict(reads=list(reads), writable=list(range(1, self.nconn + 1)) if writable is None else list(writable), dt=dt,
                 accept=accept)
        if fail:
            r["fail"] = fail
        self.rounds.append(r)
        return self


def p_connect(logger=0, daemon=0) -> bytes:
    return struct.pack("<hh", logger, daemon)


def p_connect_v2(logger=0, daemon=0, allow_multiple=0, mod_id=0, pid=0, name=b"") -> bytes:
    return struct.pack("<hhhhi", logger, daemon, allow_multiple, mod_id, pid) + name[:32].ljust(32, b"\0")


def p_i32(v: int) -> bytes:
    return struct.pack("<i", v)


def p_name(name: bytes) -> bytes:
    return name[:32].ljust(32, b"\0")
