"""Shared runner of the three M9 properties (C04, C15, C16): closures -> real compiler (process pool) -> drv_emit."""
from __future__ import annotations

import json
import multiprocessing as mp
import os
import shutil
import tempfile
from pathlib import Path
from typing import Any, Callable, Dict, List, Optional, Tuple

from . import common as C
from . import emit_corr as E
from . import emit_gen as G

FRAG = C.VERIF / "findings_fragments"


def open_findings(prop: str) -> List[Dict[str, Any]]:
    """open entries for `prop` from known_findings.json and from findings_fragments/*.json (before the merge)"""
    out = [e for e in C.known_findings(prop) if e.get("status") == "open"]
    if FRAG.is_dir():
        for f in sorted(FRAG.glob("*.json")):
            try:
                for e in json.loads(f.read_text()).get("findings", []):
                    if e.get("property") == prop and e.get("status") == "open" and e["id"] not in [x["id"] for x in out]:
                        out.append(e)
            except Exception:
                pass
    return out


def match(prop: str, clause: str, case: Any, matchers: Dict[str, Callable[[str, Any], bool]]) -> Optional[str]:
    for e in open_findings(prop):
        if e["id"] in matchers and matchers[e["id"]](clause, case):
            return e["id"]
    return None


def _init_worker():
    # black / gcc chatter of child processes goes to the real stderr: silence it in the workers
    dn = os.open(os.devnull, os.O_WRONLY)
    os.dup2(dn, 2)


def _work(args) -> Dict[str, Any]:
    cid, cl, tmp, want = args
    try:
        return E.run_closure(cid, cl, Path(tmp), want)
    except Exception as e:  # harness problem: reported as machinery failure by the caller
        import traceback
        return {"crash": f"{type(e).__name__}: {e}\n{traceback.format_exc()[-1500:]}", "id": cid}


def run_closures(cases: List[Tuple[str, Dict[str, Any]]], want: Dict[str, bool]) -> Dict[str, Dict[str, Any]]:
    """returns {cid: {"closure", "obs", "corr": [...], "props": {...}, "names": [...]}}"""
    tmp = tempfile.mkdtemp(prefix="pyrtma_verif_emit_")
    try:
        if any(cl.get("coredefs") for _, cl in cases) and want.get("probes"):
            C.use_repo()
            E.core_header(Path(tmp))          # build once, before the pool forks
        nproc = min(16, max(2, (os.cpu_count() or 4)))
        with mp.Pool(nproc, initializer=_init_worker) as pool:
            results = pool.map(_work, [(cid, cl, tmp, want) for cid, cl in cases], chunksize=1)
    finally:
        shutil.rmtree(tmp, ignore_errors=True)
    lines: List[str] = []
    out: Dict[str, Dict[str, Any]] = {}
    for (cid, cl), r in zip(cases, results):
        if "crash" in r:
            raise C.MachineryError(f"harness crashed on closure {cid}: {r['crash']}")
        lines += r["block"]
        out[cid] = {"closure": cl, "obs": r["obs"], "names": r["names"], "block": r["block"]}
    drv = C.parse_driver(C.run_driver("emit", lines))
    for cid in out:
        d = drv.get(cid)
        if d is None:
            raise C.MachineryError(f"driver gave no answer for closure {cid}")
        out[cid]["corr"] = d["corr"]
        out[cid]["props"] = {k: v[0] if v else "" for k, v in d["props"].items()}
    return out


def build_cases(seed: int, deep: bool, tag: str, n_rand: int, prop: str = "") -> List[Tuple[str, Dict[str, Any]]]:
    rng = C.rng_for(seed, tag + ("deep" if deep else ""))
    cases: List[Tuple[str, Dict[str, Any]]] = []
    # corpus first: witnesses of the defects that were repaired
    cdir = C.CORPUS / (prop or tag)
    if cdir.is_dir():
        for f in sorted(cdir.glob("*.json")):
            cases.append((f"k{len(cases)}", json.loads(f.read_text())))
    for cl in G.directed():
        cases.append((f"d{len(cases)}", cl))
    for cl in G.exhaustive(deep):
        cases.append((f"e{len(cases)}", cl))
    for cl in G.malformed():
        cases.append((f"m{len(cases)}", cl))
    for _ in range(n_rand):
        cl = G.rand_closure(rng)
        if rng.random() < 0.3:      # the same closure with its files spread over sub-directories
            cl = G.relocate(cl, {fn: rng.choice(["", "", "sub", "sub/deep", "lib"]) for fn in cl["files"]})
        cases.append((f"r{len(cases)}", cl))
    return cases


def describe(res: C.Result, results: Dict[str, Dict[str, Any]]):
    tags: Dict[str, int] = {}
    outcomes: Dict[str, int] = {}
    for r in results.values():
        for t in r["closure"].get("tags", []):
            tags[t] = tags.get(t, 0) + 1
        outcomes[r["obs"].get("outcome", "?")] = outcomes.get(r["obs"].get("outcome", "?"), 0) + 1
    res.extra["closure_tags"] = dict(sorted(tags.items()))
    res.extra["outcomes"] = outcomes
    res.extra["definitions_total"] = sum(len(fs.get("structs", [])) + len(fs.get("messages", []))
                                         for r in results.values() for fs in r["closure"]["files"].values())
    res.extra["node"] = C.find_node() or "absent (JS load clauses skipped)"
    res.extra["matlab"] = "interpreted by harness/emit_corr.interpret_m (assignment subset; no MATLAB/Octave installed)"


def replay_closure(prop: str, body: Dict[str, Any], want: Dict[str, bool]) -> int:
    case = body.get("case") or (body.get("first_corr_diff") or {}).get("case")
    if not case or "files" not in case:
        print("nothing replayable in this file")
        return 2
    r = run_closures([("replay", case)], dict(want, all_hash_seeds=True))["replay"]
    print(json.dumps(r["obs"], indent=1, default=repr)[:3000])
    print("CORR:", r["corr"] or "ok")
    print("PROP:", r["props"])
    bad = bool(r["corr"]) or r["props"].get(prop, "").startswith("fail") or bool(r["obs"].get("nondeterministic"))
    return 1 if bad else 0
