import Pyrtma.Drv.ClientEntry
def main : IO Unit := Pyrtma.Drv.ClientEntry.main
