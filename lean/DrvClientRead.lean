-- stub: replaced by the real driver for model ClientRead (imports Pyrtma.Drv.ClientRead)
def main : IO Unit := pure ()
