import Pyrtma.Drv.ClientRead
def main : IO Unit := Pyrtma.Drv.ClientRead.main
