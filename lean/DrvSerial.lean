-- stub: replaced by the real driver for model Serial (imports Pyrtma.Drv.Serial)
def main : IO Unit := pure ()
