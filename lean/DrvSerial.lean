import Pyrtma.Drv.Serial
def main : IO Unit := Pyrtma.Drv.Serial.main
