import Pyrtma.Drv.HashText
def main : IO Unit := Pyrtma.Drv.HashText.main
