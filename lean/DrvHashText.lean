-- stub: replaced by the real driver for model HashText (imports Pyrtma.Drv.HashText)
def main : IO Unit := pure ()
