-- This module serves as the root of the `Pyrtma` library.
-- Import modules here that should be built as part of the library.
import Pyrtma.Basic
