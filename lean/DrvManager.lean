import Pyrtma.Drv.Manager
def main : IO Unit := Pyrtma.Drv.Manager.main
