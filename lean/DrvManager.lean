-- stub: replaced by the real driver for model Manager (imports Pyrtma.Drv.Manager)
def main : IO Unit := pure ()
