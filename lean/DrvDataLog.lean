import Pyrtma.Drv.DataLog
def main : IO Unit := Pyrtma.Drv.DataLog.main
