-- stub: replaced by the real driver for model DataLog (imports Pyrtma.Drv.DataLog)
def main : IO Unit := pure ()
