-- stub: replaced by the real driver for model Validators (imports Pyrtma.Drv.Validators)
def main : IO Unit := pure ()
