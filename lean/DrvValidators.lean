import Pyrtma.Drv.Validators
def main : IO Unit := Pyrtma.Drv.Validators.main
