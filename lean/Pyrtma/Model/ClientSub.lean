/-!
# M2 — client-side subscription bookkeeping and the manager's side of it (C02)

Executable model, core Lean only.

* Client (src/pyrtma/client.py): `_subscription_control`, the four public control methods
  (`subscribe / unsubscribe / pause_subscription / resume_subscription`), the three `*_all` variants, the two
  context managers and the reset done by `_connect_helper` / `disconnect`.  State = `(_sub_all,
  _subscribed_types, _paused_types)`; Python sets are lists used as sets (order and multiplicity carry no
  meaning; every statement about them is a statement about membership).
* Manager (src/pyrtma/manager.py): `add_subscription` / `remove_subscription` (PAUSE and RESUME delegate to
  them) for ONE client, on the two tables the code keeps: `Module.subs` and the reverse index
  `subscriptions[t] ∋ module`; `forward_message` delivers type `t` to the client iff the module is in
  `subscriptions[t]` or in `subscriptions[ALL_MESSAGE_TYPES]`.

The model is of the code **with the C02 fixes applied** (context managers filter their list instead of
mutating it while iterating; `subscription_context` re-pauses on exit what was paused on entry; the manager
clears the individual entries *before* adding the module to the ALL set).
-/
namespace Pyrtma.ClientSub

/-- `ALL_MESSAGE_TYPES` (core_defs); the harness sends the real value and the driver compares -/
def ALL : Int := 2147483647

/-! ### lists as sets -/

def union (a b : List Int) : List Int := a ++ b.filter (fun x => !a.contains x)
def diff (a b : List Int) : List Int := a.filter (fun x => !b.contains x)
/-- `set(l)`: first occurrences -/
def dedup : List Int → List Int
  | [] => []
  | x :: xs => x :: (dedup xs).filter (fun y => y != x)
def seteq (a b : List Int) : Bool := a.all (fun x => b.contains x) && b.all (fun x => a.contains x)

/-! ### the client -/

structure CState where
  subAll : Bool
  subscribed : List Int
  paused : List Int
deriving Repr, DecidableEq, Inhabited

def CState.init : CState := ⟨false, [], []⟩

inductive Ctl where
  | subscribe | unsubscribe | pause | resume
deriving Repr, DecidableEq, Inhabited

/-- what goes on the wire: one control message per type, or the end of the connection -/
inductive Frame where
  | ctl (k : Ctl) (t : Int)
  | reset
deriving Repr, DecidableEq, Inhabited

inductive Status where
  | ok
  | refused      -- `InvalidSubscription`
deriving Repr, DecidableEq, Inhabited

structure Phase where
  st : CState
  frames : List Frame
  status : Status
deriving Repr, DecidableEq, Inhabited

/-- `msg_set` of `_subscription_control` -/
def msgSet (l : List Int) : List Int := if l.contains ALL then [ALL] else dedup l

/-- `_subscription_control(msg_list, ctrl_msg)` -/
def control (c : CState) (k : Ctl) (l : List Int) : Phase :=
  let allMsg := l.contains ALL
  if c.subAll && !allMsg then ⟨c, [], .refused⟩
  else
    let s := msgSet l
    let c' : CState :=
      match k with
      | .subscribe | .resume =>
        if allMsg then ⟨true, s, []⟩ else ⟨c.subAll, union c.subscribed s, diff c.paused s⟩
      | .unsubscribe =>
        if allMsg then ⟨false, [], []⟩ else ⟨c.subAll, diff c.subscribed s, diff c.paused s⟩
      | .pause =>
        if allMsg then ⟨false, [], []⟩ else ⟨c.subAll, diff c.subscribed s, union c.paused s⟩
    ⟨c', s.map (Frame.ctl k), .ok⟩

inductive Op where
  | ctl (k : Ctl) (l : List Int)     -- subscribe / unsubscribe / pause_subscription / resume_subscription
  | unsubAll                         -- unsubscribe_from_all
  | pauseAll                         -- pause_all_subscriptions
  | resumeAll                        -- resume_all_subscriptions
  | subCtx (l : List Int)            -- `with subscription_context(l): pass`
  | pauseCtx (l : List Int)          -- `with paused_subscription_context(l): pass`
  | reconnect                        -- disconnect(); connect()
deriving Repr, DecidableEq, Inhabited

/-- The phases of one API call: one for a plain method; entry and exit for a context manager (no exit when the
entry raised).  Each phase: client state afterwards, frames sent during it, whether it raised. -/
def runOp (c : CState) : Op → List Phase
  | .ctl k l => [control c k l]
  | .unsubAll => [control c .unsubscribe c.subscribed]
  | .pauseAll => [control c .pause c.subscribed]
  | .resumeAll => [control c .resume c.paused]
  | .subCtx l =>
    let kept := l.filter (fun t => !c.subscribed.contains t)
    let wasPaused := kept.filter (fun t => c.paused.contains t)
    let p1 := control c .subscribe kept
    if p1.status == .refused then [p1]
    else
      let p2 := control p1.st .unsubscribe kept
      if p2.status == .refused || wasPaused.isEmpty then [p1, p2]
      else
        let p3 := control p2.st .pause wasPaused
        [p1, ⟨p3.st, p2.frames ++ p3.frames, p3.status⟩]
  | .pauseCtx l =>
    let kept := l.filter (fun t => c.subscribed.contains t)
    let p1 := control c .pause kept
    if p1.status == .refused then [p1]
    else [p1, control p1.st .resume kept]
  | .reconnect => [⟨CState.init, [.reset], .ok⟩]

/-- the state a call leaves behind -/
def lastState (c : CState) : List Phase → CState
  | [] => c
  | [p] => p.st
  | _ :: ps => lastState c ps

/-! ### the manager's tables for this client -/

structure MState where
  subs : List Int       -- `Module.subs`
  index : List Int      -- `{t | module ∈ MessageManager.subscriptions[t]}`
deriving Repr, DecidableEq, Inhabited

def MState.init : MState := ⟨[], []⟩

/-- `add_subscription` (SUBSCRIBE, RESUME_SUBSCRIPTION) -/
def mgrAdd (m : MState) (t : Int) : MState :=
  if t == ALL then
    -- clear out the individual subs, then join the ALL set
    let idx := diff m.index m.subs
    ⟨[ALL], union idx [ALL]⟩
  else if m.subs.contains ALL then m
  else ⟨union m.subs [t], union m.index [t]⟩

/-- `remove_subscription` (UNSUBSCRIBE, PAUSE_SUBSCRIPTION) -/
def mgrRemove (m : MState) (t : Int) : MState :=
  if t == ALL then ⟨[], diff (diff m.index [ALL]) m.subs⟩
  else if m.subs.contains ALL then m
  else ⟨diff m.subs [t], diff m.index [t]⟩

def mgrStep (m : MState) : Frame → MState
  | .ctl .subscribe t => mgrAdd m t
  | .ctl .resume t => mgrAdd m t
  | .ctl .unsubscribe t => mgrRemove m t
  | .ctl .pause t => mgrRemove m t
  | .reset => MState.init            -- remove_module, then a fresh Module on the new connection

def mgrRun (m : MState) (fr : List Frame) : MState := fr.foldl mgrStep m

/-- `forward_message`: a message of type `t` from another module reaches this client -/
def delivered (m : MState) (t : Int) : Bool := m.index.contains t || m.index.contains ALL

/-! ### the two-party system -/

structure Sys where
  c : CState
  m : MState
deriving Repr, DecidableEq, Inhabited

def Sys.init : Sys := ⟨CState.init, MState.init⟩

/-- run the phases of an op against the manager: after each phase the manager has processed its frames -/
def sysPhases (m : MState) : List Phase → List (Phase × MState)
  | [] => []
  | p :: ps => let m' := mgrRun m p.frames; (p, m') :: sysPhases m' ps

def sysStep (s : Sys) (op : Op) : List (Phase × MState) := sysPhases s.m (runOp s.c op)

def sysAfter (s : Sys) : List (Phase × MState) → Sys
  | [] => s
  | [(p, m)] => ⟨p.st, m⟩
  | _ :: r => sysAfter s r

def sysRun (s : Sys) : List Op → Sys
  | [] => s
  | op :: ops => sysRun (sysAfter s (sysStep s op)) ops

end Pyrtma.ClientSub
