/-!
# M6 — `Parser.check_alignment` / `Parser.validate_msg_def` (src/pyrtma/parser.py)

Executable model, core Lean only.  A field is reduced to what the layout code reads:
`Field.alignment`, `type_obj.size`, `Field.length`.  Nested structs enter through their own
(already validated) `alignment` and `size`, exactly as the parser sees them.

Outcomes that are exceptions in the code are explicit errors here; `internal` stands for any
exception that is not a `ParserError` (the `assert s.size == ctypes size`, the `RuntimeError`).
-/
namespace Pyrtma.Layout

structure Fld where
  align : Nat
  esize : Nat
  len   : Option Nat        -- `Field.length`; `none` = scalar
  isPad : Bool := false     -- created by `check_alignment` (type name "char")
deriving Repr, DecidableEq, Inhabited

/-- `(self.length or 1)` -/
def Fld.count (f : Fld) : Nat :=
  match f.len with
  | some n => if n = 0 then 1 else n
  | none => 1

/-- `Field.size` -/
def Fld.size (f : Fld) : Nat := f.esize * f.count

inductive Err where
  | alignment      -- AlignmentError
  | tooLarge       -- InvalidMessageSize
  | empty          -- the `assert len(fields) > 0`
  | internal       -- any other non-ParserError exception
deriving Repr, DecidableEq, Inhabited

structure Out where
  fields : List (Fld × Nat)   -- field, recorded offset
  align  : Nat
  size   : Nat
deriving Repr, DecidableEq, Inhabited

def padFld (n : Nat) : Fld := { align := 1, esize := 1, len := some n, isPad := true }

/-- trailing padding: `length = pad_len or None` with `pad_len = ""` when one byte is needed -/
def trailPad (n : Nat) : Fld :=
  { align := 1, esize := 1, len := if n = 1 then none else some n, isPad := true }

/-- The leading `while n < len(s.fields)` loop. -/
def lead (autoPad : Bool) : List Fld → Nat → Except Err (List (Fld × Nat) × Nat)
  | [], ptr => .ok ([], ptr)
  | f :: fs, ptr =>
    if ptr % f.align = 0 then
      match lead autoPad fs (ptr + f.size) with
      | .ok (r, e) => .ok ((f, ptr) :: r, e)
      | .error e => .error e
    else if !autoPad then .error .alignment
    else
      let pad := f.align - ptr % f.align
      match lead autoPad fs (ptr + pad + f.size) with
      | .ok (r, e) => .ok ((padFld pad, ptr) :: (f, ptr + pad) :: r, e)
      | .error e => .error e

/-- `any([(pad_len + ptr + f.offset) % f.alignment for f in s.fields])` with `x = pad_len + ptr` -/
def misaligned (fs : List (Fld × Nat)) (x : Nat) : Bool :=
  fs.any (fun p => (x + p.2) % p.1.align != 0)

/-- The `while 1: pad_len += 1` search; `none` = fuel exhausted (the code would not terminate). -/
def trailSearch (fs : List (Fld × Nat)) (ptr : Nat) : Nat → Nat → Option Nat
  | 0, _ => none
  | fuel + 1, pad => if misaligned fs (pad + ptr) then trailSearch fs ptr fuel (pad + 1) else some pad

def strictest (fs : List (Fld × Nat)) : Nat := fs.foldl (fun m p => max m p.1.align) 0

/-- `for a in (8, 4, 2, 1): if ptr % a == 0` -/
def ptrAlign (ptr : Nat) : Nat :=
  if ptr % 8 = 0 then 8 else if ptr % 4 = 0 then 4 else if ptr % 2 = 0 then 2 else 1

def sumSizes (fs : List (Fld × Nat)) : Nat := (fs.map (fun p => p.1.size)).sum

/-! ### The layout a C compiler / ctypes gives the same member list (independent algorithm) -/

def roundUp (x a : Nat) : Nat := (x + a - 1) / a * a

/-- natural alignment: each member at the next multiple of its alignment -/
def cOffsets : List Fld → Nat → List Nat × Nat
  | [], p => ([], p)
  | f :: fs, p =>
    let o := roundUp p f.align
    let r := cOffsets fs (o + f.size)
    (o :: r.1, r.2)

def cAlignof (fs : List Fld) : Nat := fs.foldl (fun m f => max m f.align) 1

def cSizeof (fs : List Fld) : Nat := roundUp (cOffsets fs 0).2 (cAlignof fs)

/-- The tail of `check_alignment`: struct alignment and the ctypes size assertion. -/
def finish (fs : List (Fld × Nat)) (ptr : Nat) : Except Err Out :=
  let a := min (ptrAlign ptr) (strictest fs)
  if sumSizes fs = cSizeof (fs.map (·.1)) then .ok { fields := fs, align := a, size := sumSizes fs }
  else .error .internal

def trailFuel : Nat := 16

def checkAlignment (autoPad : Bool) (fs : List Fld) : Except Err Out :=
  match lead autoPad fs 0 with
  | .error e => .error e
  | .ok (lf, ptr) =>
    match trailSearch lf ptr trailFuel 0 with
    | none => .error .internal
    | some 0 => finish lf ptr
    | some (p + 1) =>
      if !autoPad then .error .alignment
      else finish (lf ++ [(trailPad (p + 1), ptr)]) (ptr + (p + 1))

/-- `validate_msg_def` with `validate_alignment` on. -/
def validate (autoPad : Bool) (fs : List Fld) : Except Err Out :=
  if fs.isEmpty then .error .empty
  else match checkAlignment autoPad fs with
    | .error e => .error e
    | .ok o => if o.size > 65535 then .error .tooLarge else .ok o

end Pyrtma.Layout
