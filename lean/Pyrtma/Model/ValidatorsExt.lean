import Pyrtma.Model.Validators
/-!
# M4, second part — reading back, whole messages, views and the validation switch as a program

Everything here is *added* to `Model/Validators.lean` (nothing there is changed):

* `readField`   — every descriptor's `__get__` and the array objects' `__getitem__(key)` (what the property calls
                  "the value read back");
* `setAt`       — an assignment seen from the *whole message*: the field lives at byte offset `off` of the
                  top-level object (nested structs / struct-array elements are sub-ranges of the same buffer, that is
                  what a ctypes sub-structure or a bound `ArrayField` is: a view, no copy);
* `Stmt`/`exec` — a little structured language for what user code does with the validation switch:
                  `with disable_message_validation(ignore): …` (nesting), `try: … except: pass`, `raise`,
                  binding a view (`a = msg.arr`, `s = msg.st`, `e = msg.sa[1]`) and assigning through a view bound
                  earlier or through a fresh attribute access.  A view carries **no** validation state (in the
                  code `_bound` copies the descriptor's attributes and the owner; the flag is read from the context
                  variable by every `__set__` / `__setitem__` call), which is exactly what `exec` does.
-/
namespace Pyrtma.Validators

/-! ## reading back -/

/-- bytes of element `i` of an array with elements of `esz` bytes -/
def elemBytes (bs : Bytes) (i esz : Nat) : Bytes := (bs.drop (i * esz)).take esz

/-- what indexing a bound array object returns for one element (`ByteArray.__getitem__` wraps in a `bytearray`) -/
def decodeOne (vk : VK) (c : Bytes) : Scalar :=
  match vk with
  | .int k => .int (decInt k c)
  | .flt .f64 => .flt (fromLE c)
  | .flt .f32 => .flt (widen (fromLE c))
  | .byte => .bytes c
  | .strct tid _ => .strct tid c

/-- the element numbers `array[key]` selects (`__getitem__` and `__setitem__` use the same ctypes arithmetic) -/
def selIndices (n : Nat) : Key → Except PyErr (List Nat)
  | .whole => .ok (List.range n)
  | .idx i =>
    let j := if i < 0 then i + n else i
    if j < 0 ∨ j ≥ n then .error .indexError else .ok [j.toNat]
  | .slice a b c => sliceIndices n a b c
  | .bad => .error .typeError

/-- `bytes.decode("ascii")` -/
def asciiDecode (bs : Bytes) : Scalar := if bs.any (· ≥ 128) then .other else .str bs

/-- every descriptor's `__get__` (key `whole`) and the array objects' `__getitem__`; one scalar per selected element.
`.other` stands for "reading raised" (`UnicodeDecodeError`, `IndexError`, `TypeError`). -/
def readField (ty : FTy) (key : Key) (bs : Bytes) : List Scalar :=
  match ty with
  | .int k => [.int (decInt k bs)]
  | .flt .f64 => [.flt (fromLE bs)]
  | .flt .f32 => [.flt (widen (fromLE bs))]
  | .byte => [.int (fromLE bs : Nat)]
  | .char => [asciiDecode bs]
  | .str _ => [asciiDecode (upToNul bs)]
  | .strct tid _ => [.strct tid bs]
  | .arr _ vk n =>
    match selIndices n key with
    | .error _ => [.other]
    | .ok idxs => idxs.map fun j => decodeOne vk (elemBytes bs j vk.esize)

/-! ## the value an accepted assignment is read back as (`canon v`) -/

/-- read-back of one scalar right-hand side stored into an element / scalar field of kind `vk`
(`inArray`: read through an array object — only `ByteArray` differs: it returns `bytearray`s).
Floats: a double field returns the double itself; a float field returns `(double)(float)x` — what that *is*
depends on the rounding function, see `Props/C09.lean` § floats. -/
def canonOne (vk : VK) (inArray : Bool) (x : Scalar) : Scalar :=
  match vk with
  | .int k =>
    (match x with
     | .int n => .int n
     | .bool b => .int (if b then 1 else 0)
     | .cdata _ raw => .int (decInt k raw)
     | _ => .other)
  | .byte =>
    let n : Option Nat :=
      match x with
      | .int n => some n.toNat
      | .bool b => some (if b then 1 else 0)
      | .bytes [b] => some b
      | .cdata _ raw => some (fromLE raw)
      | _ => none
    (match n with
     | none => .other
     | some n => if inArray then .bytes [n] else .int (n : Nat))
  | .strct tid _ => (match x with | .strct _ raw => .strct tid raw | _ => .other)
  | .flt k =>
    match x with
    | .cdata _ raw => decodeOne (.flt k) raw
    | _ =>
      match toDouble x with
      | .error _ => .other
      | .ok b => match k with | .f64 => .flt (b % 2 ^ 64) | .f32 => .flt (widen (narrow b % 2 ^ 32))

/-! ## an assignment seen from the whole message -/

/-- `setField` on the `ty.size` bytes at offset `off` of the message buffer, spliced back -/
def setAt (en : Bool) (msg : Bytes) (off : Nat) (ty : FTy) (key : Key) (v : PyVal) : Bytes × Option PyErr :=
  let old := (msg.drop off).take ty.size
  let r := setField en ty old key v
  (msg.take off ++ r.1 ++ msg.drop (off + ty.size), r.2)

def readAt (msg : Bytes) (off : Nat) (ty : FTy) (key : Key) : List Scalar :=
  readField ty key ((msg.drop off).take ty.size)

/-! ## the validation switch as a program -/

/-- a field of the top-level message reached through any path of nested structs / struct-array elements:
absolute byte offset and descriptor (ctypes does the offset arithmetic; the harness reads it off the real classes) -/
structure Loc where
  off : Nat
  ty : FTy
  deriving DecidableEq, Repr, Inhabited

/-- how an assignment reaches its field -/
inductive Via
  | fresh                 -- `msg.a.b[2].f[key] = v`: every attribute access made now
  | view (i : Nat)        -- through the object a `bind` statement put into variable `x_i` earlier
  deriving DecidableEq, Repr, Inhabited

inductive Stmt
  /-- `x_i = msg.path…` : keeps a bound array object / sub-structure in variable number `i` for later use -/
  | bind (i : Nat) (l : Loc)
  /-- an assignment to the field at `l`; for `.view i` reached through the object in variable `x_i` -/
  | assign (via : Via) (l : Loc) (key : Key) (v : PyVal)
  /-- `with disable_message_validation(ignore): body` -/
  | block (ignore : Bool) (body : List Stmt)
  /-- `try: body` / `except Exception: pass` -/
  | tryCatch (body : List Stmt)
  /-- `raise SomeError` -/
  | raise
  deriving Repr, Inhabited

/-- one executed assignment, as the run recorded it -/
structure AssignRec where
  /-- number of enclosing `with` blocks entered with `ignore = False` (lexical, from the program text) -/
  depth : Nat
  /-- value of the context variable when the assignment ran -/
  flag : Bool
  loc : Loc
  key : Key
  val : PyVal
  pre : Bytes
  post : Bytes
  err : Option PyErr
  deriving Repr

structure PState where
  msg : Bytes
  flag : Bool := true
  /-- the variables `x_i` bound so far -/
  views : List (Nat × Loc) := []
  /-- executed assignments, latest first -/
  log : List AssignRec := []
  deriving Repr

def PState.record (s : PState) (depth : Nat) (l : Loc) (key : Key) (v : PyVal) : PState × Bool :=
  let r := setAt s.flag s.msg l.off l.ty key v
  ({ s with msg := r.1,
            log := { depth := depth, flag := s.flag, loc := l, key := key, val := v, pre := s.msg, post := r.1,
                     err := r.2 } :: s.log },
   r.2.isSome)

mutual
/-- run one statement at lexical disable depth `d`; the Bool says "an exception is propagating" -/
def execStmt (d : Nat) (s : PState) : Stmt → PState × Bool
  | .bind i l => ({ s with views := (i, l) :: s.views }, false)
  | .assign .fresh l key v => s.record d l key v
  | .assign (.view i) l key v =>
    -- through the object in variable `x_i` (an array object, a sub-structure, a struct-array element): `l` is
    -- the field inside it that is assigned.  The bound object carries no validation state, so all that matters is
    -- that it exists (a name that was never bound is a NameError: an exception, nothing stored)
    (match s.views.lookup i with
     | some _ => s.record d l key v
     | none => (s, true))
  | .block true body => execList d s body          -- `ignore=True`: a dummy context
  | .block false body =>
    -- `token = _VALIDATION_ENABLED.set(False)`; `try: yield` / `finally: _VALIDATION_ENABLED.reset(token)`
    let token := s.flag
    let r := execList (d + 1) { s with flag := false } body
    ({ r.1 with flag := token }, r.2)
  | .tryCatch body => ((execList d s body).1, false)
  | .raise => (s, true)
/-- statements in order; the first one that raises ends the list -/
def execList (d : Nat) (s : PState) : List Stmt → PState × Bool
  | [] => (s, false)
  | st :: rest =>
    let r := execStmt d s st
    if r.2 then r else execList d r.1 rest
end

end Pyrtma.Validators
