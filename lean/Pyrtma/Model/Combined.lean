import Pyrtma.Model.Emit
/-!
# M9b — the combined YAML (`compilers/yaml.py: YAMLCompiler.generate`, `Parser.yaml_dict`, `Parser.parse_text`)

While it parses, `Parser.parse_text` accumulates the *raw* sections of every file it reads into `Parser.yaml_dict`
(one `dict.update` per section per file, a file's imports being processed before its own sections;
the `_RESERVED_` blocks of all files are merged into one entry that sits where the first block was inserted).
`YAMLCompiler.generate` dumps that dict, key by key, in the order in which the dict was created
(`constants, string_constants, host_ids, module_ids, aliases, struct_defs, message_defs`; `imports` stays empty, the
option `IMPORT_COREDEFS` is written as false).  A re-parse of that single file handles its sections in the parser's
own fixed order (`constants, string_constants, aliases, host_ids, module_ids, struct_defs, message_defs`), nothing
"comes from core_defs/".

The input of the model is the closure *file by file* in parse order (`FileItems`); `flattenFiles` is the item list
`Emit.elaborate` reads.  Constant expressions and array-length expressions are already-expanded values (data of the
items), as everywhere in M9.  Not modelled: `metadata` / `compiler_options` entries, an *empty* `_RESERVED_` block.
-/
namespace Pyrtma.Emit

/-- the section of `parse_text` that handles the item (`message_defs` = 6 for messages, signals and reserved ids) -/
def Item.section : Item → Nat
  | .const .. => 0 | .strConst .. => 1 | .alias .. => 2 | .hostId .. => 3 | .moduleId .. => 4
  | .struct .. => 5 | .message .. => 6 | .signal .. => 6 | .reserved .. => 6

def Item.isRes : Item → Bool
  | .reserved .. => true
  | _ => false

/-- one file of the closure: "lives in `core_defs/`" and its own items in the order `parse_text` handles them -/
structure FileItems where
  core : Bool
  items : List Item
deriving DecidableEq, Repr, Inhabited

/-- what `Parser.parse` hands to `elaborate`: files in parse order (imports first), each with its core flag -/
def flattenFiles (fs : List FileItems) : List (Bool × Item) :=
  fs.flatMap (fun f => f.items.map (fun it => (f.core, it)))

def allItems (fs : List FileItems) : List Item := fs.flatMap (·.items)

/-- a file's entries of `message_defs` other than the `_RESERVED_` block -/
def FileItems.msgs (f : FileItems) : List Item := f.items.filter (fun it => it.section == 6 && !it.isRes)
def FileItems.res (f : FileItems) : List Item := f.items.filter (·.isRes)

/-- `yaml_dict["message_defs"]` after the parse: per file `update(defs)` appends the file's messages; the first file
that has a `_RESERVED_` block creates the merged entry *after* its own messages (`setdefault`), every later block is
appended to that entry's id list, later messages go behind it. -/
def msgDict : List FileItems → List Item
  | [] => []
  | f :: r =>
    if f.res.isEmpty then f.msgs ++ msgDict r
    else f.msgs ++ (f :: r).flatMap FileItems.res ++ r.flatMap FileItems.msgs

/-- a section of `yaml_dict` other than `message_defs`: the files' entries in parse order -/
def secDict (k : Nat) (fs : List FileItems) : List Item := (allItems fs).filter (fun it => it.section == k)

/-- the sections of `<name>_combined.yaml` in the order the writer dumps them (key order of `yaml_dict`) -/
def combinedSections (fs : List FileItems) : List (Nat × List Item) :=
  [(0, secDict 0 fs), (1, secDict 1 fs), (3, secDict 3 fs), (4, secDict 4 fs), (2, secDict 2 fs), (5, secDict 5 fs),
   (6, msgDict fs)]

/-- `parse_text` on one file: the sections it finds, in its own fixed order -/
def readSections (secs : List (Nat × List Item)) : List (Bool × Item) :=
  [0, 1, 2, 3, 4, 5, 6].flatMap (fun k => ((secs.filter (fun s => s.1 == k)).flatMap (·.2)).map (fun it => (false, it)))

/-- the item sequence a re-parse of the combined file elaborates -/
def combine (fs : List FileItems) : List (Bool × Item) := readSections (combinedSections fs)

end Pyrtma.Emit
