import Pyrtma.Model.HashText
/-!
# From the source lines of one definition to the loaded value (`ruamel.yaml` safe load, block style subset)

The parser never hashes source text: `handle_message_def / handle_struct` receive what the YAML loader made of
the lines — the mapping key, `mdf['id']`, `mdf['fields']` — and re-render it (`Model/HashText.lean`).  This file
models that first step for the block style the definition files are written in, so that "comments, blank lines,
quoting, the spelling of the id, the order of `id` and `fields`, the indentation widths do not reach the hash"
becomes a statement about `loadDef` instead of a remark:

      NAME:          # comment
          id: 0x3ee  # hex, decimal
          fields:                       |   fields: null   |   fields: OTHER

            a: int32     # trailing
            # a comment line, any indentation
            b: "double[2]"

* a `#` at the start of a line or after a blank, outside quotes, starts a comment; lines that are blank after
  that are dropped (`clean`); trailing blanks are dropped;
* the first remaining line is `NAME:`; the deeper lines are its mapping: `id: <int>` and `fields: …` in any
  order, `fields:` alone being followed by still deeper `name: type` lines;
* plain scalars: empty / `null` / `~` → None, decimal and `0x…` → int, everything else that starts like a word → str;
  quoted scalars → str.

Domain (everything else answers `none` = not modelled, never a guess): no flow style, no block scalars, no
anchors / tags / multi-line scalars, no `'` `"` `\` inside quoted text, no quote characters inside plain text,
ints only as `[0-9]+` or `0x[0-9a-fA-F]+`, booleans and floats not used as values.  The correspondence check
feeds the real source lines of every generated definition (decorated at random) to `loadDef`.
-/
namespace Pyrtma.YamlDef
open Pyrtma.HashText

abbrev Line := List Char

/-! ### comments and blanks -/

inductive Q where
  | plain | sq | dq
deriving Repr, DecidableEq, Inhabited

/-- copy the line up to the comment; `pb`: the previous character was a blank (or the line starts here) -/
def stripFrom : Q → Bool → Line → Line
  | _, _, [] => []
  | .plain, pb, c :: r =>
    if c = '#' && pb then []
    else if c = '\'' then c :: stripFrom .sq false r
    else if c = '"' then c :: stripFrom .dq false r
    else c :: stripFrom .plain (isBlank c) r
  | .sq, _, c :: r => c :: stripFrom (if c = '\'' then .plain else .sq) false r
  | .dq, _, c :: r => c :: stripFrom (if c = '"' then .plain else .dq) false r

def stripComment (l : Line) : Line := stripFrom .plain true l

def rstrip (l : Line) : Line := (l.reverse.dropWhile isBlank).reverse

def indentOf (l : Line) : Nat := (l.takeWhile (· == ' ')).length

/-- what is left of one physical line: `none` for blank / comment-only lines, else (indentation, content) -/
def cleanLine (l : Line) : Option (Nat × Line) :=
  let s := rstrip (stripComment l)
  if s.all isBlank then none else some (indentOf s, s.drop (indentOf s))

def clean (ls : List Line) : List (Nat × Line) := ls.filterMap cleanLine

/-! ### `key: value` -/

def ltrim (l : Line) : Line := l.dropWhile isBlank

/-- split at the first `:` that ends the line or is followed by a blank; `none` if there is none -/
def splitKV : Line → Option (Line × Line)
  | [] => none
  | ':' :: [] => some ([], [])
  | ':' :: ' ' :: r => some ([], ltrim r)
  | c :: r => match splitKV r with
    | some (k, v) => some (c :: k, v)
    | none => none

inductive Val where
  | null | int (i : Int) | str (s : Line)
deriving Repr, DecidableEq, Inhabited

def isDec (c : Char) : Bool := '0' ≤ c && c ≤ '9'
def hexDigitVal (c : Char) : Option Nat :=
  if '0' ≤ c && c ≤ '9' then some (c.toNat - 48)
  else if 'a' ≤ c && c ≤ 'f' then some (c.toNat - 87)
  else if 'A' ≤ c && c ≤ 'F' then some (c.toNat - 55) else none

def decVal (ds : Line) : Nat := ds.foldl (fun a c => 10 * a + (c.toNat - 48)) 0
def hexVal (ds : Line) : Option Nat := ds.foldl (fun a c => match a, hexDigitVal c with
  | some a, some d => some (16 * a + d) | _, _ => none) (some 0)

def isWordStart (c : Char) : Bool := ('a' ≤ c && c ≤ 'z') || ('A' ≤ c && c ≤ 'Z') || c == '_'

def reservedWords : List Line :=
  ["true", "True", "TRUE", "false", "False", "FALSE", "null", "Null", "NULL"].map String.toList

/-- implicit typing of a scalar as written (after `key: `) -/
def typed (v : Line) : Option Val :=
  match v with
  | [] => some .null
  | ['~'] => some .null
  | '"' :: r =>
    match r.reverse with
    | '"' :: ir => if ir.any (fun c => c == '"' || c == '\\') then none else some (.str ir.reverse)
    | _ => none
  | '\'' :: r =>
    match r.reverse with
    | '\'' :: ir => if ir.any (· == '\'') then none else some (.str ir.reverse)
    | _ => none
  | '0' :: 'x' :: h => if h.isEmpty then none else (hexVal h).map (fun n => .int n)
  | '-' :: d => if !d.isEmpty && d.all isDec && (d.length == 1 || d.head? != some '0') then some (.int (-(decVal d : Int))) else none
  | c :: r =>
    if isDec c then (if (c :: r).all isDec && (r.isEmpty || c != '0') then some (.int (decVal (c :: r))) else none)
    else if v ∈ ["null", "Null", "NULL"].map String.toList then some .null
    else if v ∈ reservedWords then none
    else if isWordStart c && !(v.any (fun x => x == '"' || x == '\'' || x == '#')) then some (.str v) else none

/-! ### the mapping below `NAME:` -/

structure Acc where
  id : Option Int := none
  fields : Option Fields := none
deriving Repr, Inhabited

/-- the `name: type` lines below `fields:` — one indentation, string values -/
def fieldLines (i2 : Nat) : List (Nat × Line) → Option (List (Str × Str))
  | [] => some []
  | (i, c) :: r =>
    if i != i2 then none else
    match splitKV c with
    | some (k, v) =>
      match typed v, fieldLines i2 r with
      | some (.str t), some fs => if k.isEmpty || fs.any (·.1 == k) then none else some ((k, t) :: fs)
      | _, _ => none
    | none => none

/-- the children of `NAME:` at indentation `i1`; the argument `n` bounds the number of keys -/
def children (i1 : Nat) : Nat → List (Nat × Line) → Acc → Option Acc
  | _, [], acc => some acc
  | 0, _ :: _, _ => none
  | n + 1, (i, c) :: r, acc =>
    if i != i1 then none else
    match splitKV c with
    | none => none
    | some (k, v) =>
      if k == "id".toList then
        match acc.id, typed v with
        | none, some (.int x) => children i1 n r { acc with id := some x }
        | _, _ => none
      else if k == "fields".toList then
        if acc.fields.isSome then none else
        let deeper := r.takeWhile (fun p => p.1 > i1)
        let rest := r.dropWhile (fun p => p.1 > i1)
        if v.isEmpty then
          match deeper with
          | [] => children i1 n rest { acc with fields := some .null }
          | (i2, _) :: _ =>
            match fieldLines i2 deeper with
            | some fs => children i1 n rest { acc with fields := some (.list fs) }
            | none => none
        else if !deeper.isEmpty then none else
          match typed v with
          | some .null => children i1 n rest { acc with fields := some .null }
          | some (.str s) => children i1 n rest { acc with fields := some (.ref s) }
          | _ => none
      else none

/-- the loaded value of one definition given the physical lines of its block (`NAME:` line first) -/
def loadClean (kind : Kind) (cl : List (Nat × Line)) : Option Def :=
  match cl with
  | [] => none
  | (i0, h) :: rest =>
    match splitKV h with
    | some (name, []) =>
      if name.isEmpty then none else
      match rest with
      | [] => none
      | (i1, _) :: _ =>
        if i1 ≤ i0 then none else
        match children i1 rest.length rest {}, kind with
        | some { id := some x, fields := some f }, .message => some { kind := .message, name := name, id := x, fields := f }
        | some { id := none, fields := some f }, .struct => some { kind := .struct, name := name, id := 0, fields := f }
        | _, _ => none
    | _ => none

def loadDef (kind : Kind) (ls : List Line) : Option Def := loadClean kind (clean ls)

/-- the hash of a definition as a function of its source lines -/
def sourceDigest (kind : Kind) (ls : List Line) : Option Str := (loadDef kind ls).bind digestHex

end Pyrtma.YamlDef
