import Pyrtma.Model.ClientRead
/-!
# M3, second layer — the read path of one `Client` object over several sessions (C08)

`Model/ClientRead.lean` is one session whose subscription state is injected.  This file adds what the session life
cycle does to the three fields the read path depends on (`_sock`, `_connected`, `_sub_all`/`_subscribed_types`),
still at the level of bytes on a socket:

* `Client.__init__`: not connected, empty sets (`St.fresh`): every `read_message` is `NotConnectedError`.
* `Client.connect()`: `if self.connected: self.disconnect()` (resets the sets), `_socket_connect` (a NEW socket — a
  new incoming byte stream —, `_connected = True`), `_connect_helper`: CONNECT_V2 + CONNECT are written, then
  `_wait_for_acknowledgement()`: `read_message(timeout=time_remaining, ack=True)` in a loop **with the subscription
  state as it is at that moment** (stale after a lost connection) until a message of type ACKNOWLEDGE is returned;
  anything else returned is dropped; `None` (nothing readable) ends in `AcknowledgementTimeout`; `ConnectionLost`
  and the decode errors propagate out of `connect()`.  Only after the ACK the three subscription fields are reset.
  A wait that raises (`ConnectionLost`, `AcknowledgementTimeout`, a decode error) closes the socket and sets
  `_connected = False` (fix 5d9f32d, finding C02-F4).  Hence: joined ⇒ connected, empty sets; anything else ⇒ not
  connected, socket closed, sets as they were.
* `Client.disconnect()`: not connected, empty sets.
* a send that hits a dead connection (`_sendall`): `ConnectionLost`, not connected, sets untouched.
* the subscription API between reads (`setSub`) needs a connection (`requires_connection`): ignored otherwise.
-/
namespace Pyrtma.ClientRead

/-- `Client(...)` before any `connect()` -/
def St.fresh : St := ⟨Sock.dead, false, ⟨false, []⟩⟩

/-- `_wait_for_acknowledgement()`: `fuel` bounds the number of `read_message` calls (never exhausted when
`fuel > s.data.length`).  The result is what ends the wait: the ACK message, `none` = `AcknowledgementTimeout`,
or the exception that escapes. -/
def waitAck (cfg : Cfg) (sub : Sub) : Nat → Sock → Res × Sock
  | 0, s => (.blocked, s)
  | fuel + 1, s =>
    match readLoop cfg sub .pos true false (s.data.length + 1) s with
    | (.msg h p, s') => if hType h == cfg.ack then (.msg h p, s') else waitAck cfg sub fuel s'
    | r => r

/-- how `Client.connect()` ends, as the caller sees it -/
inductive CRes where
  | joined                          -- returned normally
  | ackTimeout                      -- `AcknowledgementTimeout`
  | unknownType                     -- `UnknownMessageType` escaped from the wait
  | invalidDef                      -- `InvalidMessageDefinition` escaped from the wait
  | lost                            -- `ConnectionLost`
  | blocked                         -- the call would hang
  | crash
  | notConnected                    -- (only `sendFail` on a disconnected client)
deriving Repr, DecidableEq, Inhabited

def CRes.ofRes : Res → CRes
  | .msg _ _ => .joined
  | .none => .ackTimeout
  | .unknownType _ _ => .unknownType
  | .invalidDef => .invalidDef
  | .lost => .lost
  | .notConnected => .notConnected
  | .blocked => .blocked
  | .crash => .crash

structure CObs where
  res : CRes
  consumed : Nat         -- bytes taken from the NEW socket by the handshake
  connected : Bool       -- `Client.connected` afterwards
deriving Repr, DecidableEq, Inhabited

/-- how `connect()` ends, given how the wait for the ACK ended (`r`), the subscription state it waited with
(`sub0`) and the length of the new stream -/
def connectOut (sub0 : Sub) (len : Nat) (r : Res × Sock) : CObs × St :=
  let used := len - r.2.data.length
  match r.1 with
  | .msg _ _ => (⟨.joined, used, true⟩, ⟨r.2, true, ⟨false, []⟩⟩)           -- the reset follows the ACK
  -- no acknowledgement (`ConnectionLost`, `AcknowledgementTimeout`, a decode error escaping from the wait): this is
  -- not a session — `_connected = False`, the socket is closed, the sets stay as they were (fix 5d9f32d)
  | x => (⟨CRes.ofRes x, used, false⟩, ⟨Sock.dead, false, sub0⟩)

/-- the subscription state `_connect_helper` waits with: `if self.connected: self.disconnect()` came first -/
def subAtHandshake (st : St) : Sub := if st.connected then ⟨false, []⟩ else st.sub

/-- `Client.connect()` onto a new connection whose incoming byte stream is `new` -/
def connectCall (cfg : Cfg) (st : St) (new : Sock) : CObs × St :=
  connectOut (subAtHandshake st) new.data.length (waitAck cfg (subAtHandshake st) (new.data.length + 1) new)

/-- `Client.disconnect()` -/
def disconnectCall (_st : St) : St := ⟨Sock.dead, false, ⟨false, []⟩⟩

/-- `send_*` on a connection that is dead -/
def sendFailCall (st : St) : CObs × St :=
  if st.connected then (⟨.lost, 0, false⟩, { st with sock := Sock.dead, connected := false })
  else (⟨.notConnected, 0, false⟩, st)

inductive LCall where
  | read (tmo : Tmo) (ack sync : Bool)
  | setSub (sub : Sub)
  | connect (new : Sock)
  | disconnect
  | sendFail
deriving Repr, DecidableEq, Inhabited

inductive LOut where
  | read (o : Obs)
  | conn (o : CObs)
  | unit                 -- `disconnect()`, a subscription change: nothing to observe but `connected`
deriving Repr, DecidableEq, Inhabited

def lifeStep (cfg : Cfg) (st : St) : LCall → LOut × St
  | .read tmo ack sync => let r := readMessage cfg tmo ack sync st; (.read r.1, r.2)
  | .setSub sub => (.unit, if st.connected then { st with sub := sub } else st)
  | .connect new => let r := connectCall cfg st new; (.conn r.1, r.2)
  | .disconnect => (.unit, disconnectCall st)
  | .sendFail => let r := sendFailCall st; (.conn r.1, r.2)

def runLife (cfg : Cfg) : List LCall → St → List LOut
  | [], _ => []
  | c :: cs, st => let r := lifeStep cfg st c; r.1 :: runLife cfg cs r.2

end Pyrtma.ClientRead
