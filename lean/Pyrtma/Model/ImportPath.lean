import Pyrtma.Model.Registry
/-!
# Import paths: how `parse` / `parse_file` / `handle_import` turn a path *text* into a file (parser.py)

    handle_import(fname):   imp = Path(fname)
                            imp.is_dir()                      -> FileFormatError          (OS look-up from the cwd)
                            imp.suffix.lower() not in .yaml/.yml -> FileFormatError       (the spelled name)
                            parse_file(imp.absolute())
    parse_file(p):          path = (Path.cwd() / p).resolve()     # the KEY of `included_files`
                            os.chdir(path.parent)
                            path in included_files -> return      # "already parsed"
                            included_files.append(path); open(path) ...; parse_text (imports are handled with the
                            cwd = directory of the file being parsed); os.chdir(back)

So the "already imported" test uses the **resolved absolute path** (`os.path.realpath`, non-strict), not the spelled
text: `.` and empty components vanish, `x/..` cancels *lexically* (whether or not `x` exists — `resolve()` is not
strict), an absolute text ignores the cwd, symbolic links are expanded.  The cwd while a file's imports are handled
is the directory of that file's resolved path, so an import text is always relative to the importing file.

This file models that as pure functions on a small file system (regular definition files under absolute
normalised paths, directories, symbolic links *to regular files*) and lowers a path-level input to the index-level
`Registry.Input` all C12 theorems are about: `Imp.file n` now comes out of `resolveImp`, not from the harness.

Out of scope (said, not modelled): symbolic links to directories or in the middle of a path (`realpath` then is not
lexical), hard links, case-insensitive file systems, `.yml` (accepted after an interactive `input()`), import
entries that are not strings.  Two OS errors share `Imp.missing` with `FileNotFoundError` although their class
differs: a path *through* a regular file (`NotADirectoryError` from `chdir`) and a directory reached only lexically
(`nodir/../d.yaml` with `d.yaml` a directory: `IsADirectoryError` from `open`) — `osErrorClass` names the class.
-/
namespace Pyrtma.ImportPath
open Pyrtma.Registry

abbrev Seg := List Char
/-- an absolute, normalised path: the components below `/` (no empty, `.` or `..` component) -/
abbrev APath := List Seg

def dotdot : Seg := ['.', '.']

/-! ### `pathlib.PurePosixPath(text)` -/

/-- components between slashes (the current component is accumulated reversed) -/
def splitSlash : List Char → List Char → List Seg
  | cur, [] => [cur.reverse]
  | cur, c :: r => if c = '/' then cur.reverse :: splitSlash [] r else splitSlash (c :: cur) r

/-- what pathlib keeps of a text: absolute or not, and the components without the empty ones and `.` -/
structure PPath where
  abs : Bool
  parts : List Seg
deriving Repr, DecidableEq, Inhabited

def keepSeg (s : Seg) : Bool := s != [] && s != ['.']

def parsePath (t : List Char) : PPath :=
  { abs := t.head? == some '/', parts := (splitSlash [] t).filter keepSeg }

/-! ### `Path.resolve()` = `os.path.realpath` (non-strict) without directory links: lexical -/

def normStep (acc : APath) (s : Seg) : APath := if s = dotdot then acc.dropLast else acc ++ [s]

/-- walk `parts` from `acc`: `..` drops the last component (stays at `/`), anything else descends -/
def normalize (acc : APath) (parts : List Seg) : APath := parts.foldl normStep acc

def lexical (cwd : APath) (p : PPath) : APath := normalize (if p.abs then [] else cwd) p.parts

/-! ### the file system -/

structure FS where
  files : List APath               -- regular definition files; the index is the file number of `Registry.Input`
  dirs : List APath := []          -- directories besides the ancestors of everything listed
  links : List (APath × APath) := []   -- symbolic link ↦ the regular file it points to (resolved)
  others : List APath := []        -- other regular files (`notes.txt`, …)
deriving Repr, Inhabited

def properPrefix (p q : APath) : Bool := p.isPrefixOf q && p.length < q.length

def FS.entries (fs : FS) : List APath := fs.files ++ fs.dirs ++ fs.links.map (·.1) ++ fs.others

def FS.isDir (fs : FS) (p : APath) : Bool := p == [] || fs.dirs.contains p || fs.entries.any (properPrefix p)

def indexOf (k : APath) : List APath → Option Nat
  | [] => none
  | p :: ps => if p = k then some 0 else (indexOf k ps).map (· + 1)

def lookupLink (k : APath) : List (APath × APath) → Option APath
  | [] => none
  | (l, t) :: r => if l = k then some t else lookupLink k r

/-- the key of `included_files`: lexical normalisation, then a final symbolic link is replaced by its target -/
def FS.key (fs : FS) (cwd : APath) (p : PPath) : APath :=
  let k := lexical cwd p
  match lookupLink k fs.links with
  | some t => t
  | none => k

/-- the kernel's walk (`stat`): every component on the way must be an existing directory -/
def osWalk (fs : FS) : APath → List Seg → Option APath
  | cur, [] => some cur
  | cur, s :: r => if fs.isDir cur then osWalk fs (normStep cur s) r else none

/-- `Path(fname).is_dir()` with the process in directory `cwd` -/
def FS.isDirOS (fs : FS) (cwd : APath) (p : PPath) : Bool :=
  match osWalk fs (if p.abs then [] else cwd) p.parts with
  | some q => fs.isDir q
  | none => false

/-! ### `PurePath.suffix` -/

def asciiLower (c : Char) : Char := if 'A' ≤ c && c ≤ 'Z' then Char.ofNat (c.toNat + 32) else c

/-- position of the last `.` (`str.rfind`) -/
def rfindDot (s : List Char) : Option Nat :=
  (s.zipIdx.filter (fun p => p.1 == '.')).getLast?.map (·.2)

/-- `name[i:]` where `i = name.rfind('.')`, if `0 < i < len(name) - 1`; else empty -/
def suffixOf (name : Seg) : List Char :=
  match rfindDot name with
  | some i => if 0 < i && i + 1 < name.length then name.drop i else []
  | none => []

def PPath.name (p : PPath) : Seg := p.parts.getLast?.getD []

def goodSuffix (p : PPath) : Bool :=
  let s := (suffixOf p.name).map asciiLower
  s == ".yaml".toList || s == ".yml".toList

/-! ### one import text -/

/-- `handle_import(text)` + the look-up of `parse_file`, for the process in directory `cwd` -/
def resolveImp (fs : FS) (cwd : APath) (text : List Char) : Imp :=
  let p := parsePath text
  if fs.isDirOS cwd p then .dir
  else if !goodSuffix p then .badSuffix
  else match indexOf (fs.key cwd p) fs.files with
    | some n => .file n
    | none => .missing

/-- the `OSError` subclass behind an `Imp.missing` -/
def osErrorClass (fs : FS) (cwd : APath) (text : List Char) : String :=
  let k := fs.key cwd (parsePath text)
  if !fs.isDir k.dropLast then
    (if (List.range k.length).any (fun n => (fs.files ++ fs.others ++ fs.links.map (·.1)).contains (k.take n)) then "NotADirectoryError"
     else "FileNotFoundError")
  else if fs.isDir k then "IsADirectoryError" else "FileNotFoundError"

/-! ### a whole compilation, path level -/

structure PFile where
  path : APath                  -- where the file is (resolved)
  file : File                   -- its content; `imports` and `coreName` are filled in by `lower`
  importTexts : List (List Char)    -- the entries of `imports:` as written
deriving Repr, Inhabited

structure PInput where
  cfg : Cfg
  files : List PFile
  dirs : List APath := []
  links : List (APath × APath) := []
  others : List APath := []
  cwd : APath                   -- the process's working directory when `Parser.parse` is called
  rootText : List Char          -- the argument of `Parser.parse`
  corePath : APath := []        -- `<package>/core_defs/core_defs.yaml` (used when `cfg.coreOn`)
deriving Repr, Inhabited

def PInput.fs (i : PInput) : FS :=
  { files := i.files.map (·.path), dirs := i.dirs, links := i.links, others := i.others }

def coreDefsName : Seg := "core_defs.yaml".toList

/-- one file lowered: every import text resolved relative to the file's own directory -/
def lowerFile (fs : FS) (pf : PFile) : File :=
  { pf.file with
    coreName := pf.path.getLast? == some coreDefsName,
    imports := pf.importTexts.map (resolveImp fs pf.path.dropLast) }

/-- index of a key, or an index outside the table (`parse_file` then fails with `FileNotFoundError`) -/
def fileIndex (fs : FS) (k : APath) : Nat := (indexOf k fs.files).getD fs.files.length

/-- the index-level input `Registry.parse` runs on -/
def lower (i : PInput) : Input :=
  let fs := i.fs
  { cfg := i.cfg, files := i.files.map (lowerFile fs),
    root := fileIndex fs (fs.key i.cwd (parsePath i.rootText)),
    core := fileIndex fs i.corePath }

/-- `Parser.parse(rootText)` on the file system of `i` -/
def pparse (i : PInput) : Except Err St := parse (lower i)

end Pyrtma.ImportPath
