/-!
# M7 — the parser's name/id registries and the import walk (src/pyrtma/parser.py)

Executable model (core Lean only) of `Parser.parse / parse_file / parse_text / handle_import` and of the
registration side of `handle_metadata / handle_expression / handle_string / handle_alias / handle_host_id /
handle_module_id / handle_struct / handle_message_def / handle_reserve / handle_signal / validate_msg_id /
check_name / check_duplicate_name`.

What is abstracted: a definition is reduced to what the registries read — its section, its name and its id.
Values of constants, alias targets and field lists are assumed valid (the harness generates them valid; their
validation is M6's / another slice's business).  Import *strings* are reduced to the file they resolve to
(`Imp.file n`), to a missing file, a directory or a path without `.yaml` suffix; resolution itself (relative
paths, `..`, symlinks, absolute paths) is done by the real file system on the implementation side and the
harness only tells the model which file is meant — so the correspondence check validates the resolution.

Exceptions of the code are explicit `Err` outcomes; `Err.cls` is the Python exception class observed.
-/
namespace Pyrtma.Registry

/-- one entry of `_RESERVED_: id: [...]` as the YAML loader delivers it -/
inductive ResEntry where
  | num (n : Int)            -- an int
  | text (s : List Char)     -- a string, to be matched by the range regex
  | other                    -- anything else (float, null, list, mapping)
deriving Repr, DecidableEq, Inhabited

/-- one key of one section of a definition file (in the order the parser handles the sections) -/
inductive Item where
  | mdata  (name : String)
  | const  (name : String)
  | str    (name : String)
  | alias  (name : String)
  | host   (name : String) (id : Option Int)      -- `none`: the YAML value is not an int
  | module (name : String) (id : Option Int)
  | struct (name : String)
  | msg    (name : String) (id : Option Int)      -- message definition or signal
  | reserved (ids : Option (List ResEntry))       -- `_RESERVED_` block; `none`: `id` is not a list
deriving Repr, DecidableEq, Inhabited

inductive Imp where
  | file (n : Nat)       -- resolves to file `n` of the table
  | missing              -- `x.yaml` that does not exist
  | dir                  -- a directory
  | badSuffix            -- neither `.yaml` nor `.yml`
deriving Repr, DecidableEq, Inhabited

structure File where
  coreName : Bool := false      -- the file's name is `core_defs.yaml` (range checks are skipped for it)
  empty    : Bool := false      -- the YAML document is empty: `data` is `None`
  mdata    : List String := []
  imports  : List Imp := []
  consts   : List String := []
  strs     : List String := []
  aliases  : List String := []
  hosts    : List (String × Option Int) := []
  modules  : List (String × Option Int) := []
  structs  : List String := []
  msgs     : List Item := []    -- only `Item.msg` / `Item.reserved`, in file order
deriving Repr, Inhabited

structure Cfg where
  coreOn : Bool        -- `import_coredefs`
  maxMsg : Int         -- `MAX_MESSAGE_TYPES`
deriving Repr, Inhabited

inductive Err where
  | dupName      -- DuplicateNameError
  | msgId        -- MessageIDError
  | moduleId     -- ModuleIDError
  | hostId       -- HostIDError
  | range        -- RTMASyntaxError "Value outside of valid range"
  | yamlDup      -- YAMLSyntaxError: duplicate key inside one mapping (raised by the YAML loader)
  | badName      -- RTMASyntaxError "Invalid name"
  | notInt       -- InvalidTypeError: id value is not an int
  | resSyntax    -- RTMASyntaxError: bad `_RESERVED_.id` entry
  | resNotList   -- InvalidTypeError: `_RESERVED_.id` is not a list
  | fileNotFound -- FileNotFoundError
  | fileFormat   -- FileFormatError
  | emptyFile    -- AttributeError: 'NoneType' object has no attribute 'keys'
  | fuel         -- model artefact, proved unreachable (`Props/C12.lean: parse_never_fuel`)
deriving Repr, DecidableEq, Inhabited

/-- the Python exception class the harness observes -/
def Err.cls : Err → String
  | .dupName => "DuplicateNameError" | .msgId => "MessageIDError" | .moduleId => "ModuleIDError"
  | .hostId => "HostIDError" | .range => "RTMASyntaxError" | .yamlDup => "YAMLSyntaxError"
  | .badName => "RTMASyntaxError" | .notInt => "InvalidTypeError" | .resSyntax => "RTMASyntaxError"
  | .resNotList => "InvalidTypeError" | .fileNotFound => "FileNotFoundError" | .fileFormat => "FileFormatError"
  | .emptyFile => "AttributeError" | .fuel => "ModelFuel"

/-- the registries (`Parser.metadata, constants, string_constants, aliases, host_ids, module_ids, struct_defs,
message_defs` — `message_ids` always holds the same keys and ids as `message_defs` on success) in insertion order -/
structure St where
  mdata   : List String := []
  consts  : List String := []
  strs    : List String := []
  aliases : List String := []
  hosts   : List (String × Int) := []
  modules : List (String × Int) := []
  structs : List String := []
  msgs    : List (String × Int) := []
deriving Repr, DecidableEq, Inhabited

/-! ### names -/

def reservedKey : String := "_RESERVED_"

def isAsciiLetter (c : Char) : Bool := ('a' ≤ c && c ≤ 'z') || ('A' ≤ c && c ≤ 'Z')

/-- `check_name`: `_RESERVED_` passes in every section, otherwise the first character must be an ASCII letter -/
def validName (s : String) : Bool :=
  s == reservedKey ||
  match s.toList with
  | c :: _ => isAsciiLetter c
  | [] => false

def pad6 (n : Nat) : String :=
  let d := toString n
  String.ofList (List.replicate (6 - d.length) '0') ++ d

/-- `f"_RESERVED_{id:06d}"` (only ever registered for `0 ≤ id`) -/
def resName (id : Int) : String := reservedKey ++ pad6 id.toNat

/-- `check_duplicate_name` over the five shared tables -/
def inShared (st : St) (name : String) : Bool :=
  st.consts.contains name || st.strs.contains name || st.aliases.contains name ||
  st.structs.contains name || (st.msgs.map (·.1)).contains name

/-! ### the `_RESERVED_` range syntax: `re.search(r"\s*(?P<start>[0-9]+)\s*(\-|to)\s*(?P<end>[0-9]+)\s*", e)` -/

def isDigit (c : Char) : Bool := '0' ≤ c && c ≤ '9'
/-- Python's `\s` in a `str` pattern (no `re.ASCII`): exactly the characters with `str.isspace()` — TAB LF VT FF CR,
FS GS RS US, SPACE, NEL, NBSP, OGHAM SPACE MARK, EN QUAD … HAIR SPACE, LINE / PARAGRAPH SEPARATOR, NARROW NBSP,
MEDIUM MATHEMATICAL SPACE, IDEOGRAPHIC SPACE.  (The harness enumerates every code point against the real `re`.) -/
def isWs (c : Char) : Bool :=
  let n := c.toNat
  (9 ≤ n && n ≤ 13) || (28 ≤ n && n ≤ 32) || n == 0x85 || n == 0xa0 || n == 0x1680 || (0x2000 ≤ n && n ≤ 0x200a) ||
  n == 0x2028 || n == 0x2029 || n == 0x202f || n == 0x205f || n == 0x3000

def digitsVal (ds : List Char) : Nat := ds.foldl (fun a c => 10 * a + (c.toNat - 48)) 0

def afterSep : List Char → Option (List Char)
  | '-' :: r => some r
  | 't' :: 'o' :: r => some r
  | _ => none

/-- an attempt with the first digit at the head of the input (leading `\s*` matched elsewhere) -/
def rangeAt (cs : List Char) : Option (Nat × Nat) :=
  let d1 := cs.takeWhile isDigit
  if d1.isEmpty then none else
  match afterSep ((cs.dropWhile isDigit).dropWhile isWs) with
  | none => none
  | some r =>
    let d2 := (r.dropWhile isWs).takeWhile isDigit
    if d2.isEmpty then none else some (digitsVal d1, digitsVal d2)

/-- leftmost match = first position at which an attempt succeeds -/
def rangeSearch : List Char → Option (Nat × Nat)
  | [] => none
  | c :: cs => match rangeAt (c :: cs) with
    | some r => some r
    | none => rangeSearch cs

def natRange (start : Nat) : Nat → List Nat
  | 0 => []
  | n + 1 => start :: natRange (start + 1) n

/-- one entry → the ids it reserves -/
def expandEntry : ResEntry → Except Err (List Int)
  | .num n => .ok [n]
  | .other => .error .resSyntax
  | .text s =>
    match rangeSearch s with
    | none => .error .resSyntax
    | some (a, b) =>
      if a > b then .error .resSyntax
      else if (b + 1) - a > 100 then .error .resSyntax
      else .ok ((natRange a (b + 1 - a)).map Int.ofNat)

/-- the first loop of `handle_reserve`: the whole list is expanded before anything is registered -/
def expandAll : List ResEntry → Except Err (List Int)
  | [] => .ok []
  | e :: es =>
    match expandEntry e with
    | .error x => .error x
    | .ok l => match expandAll es with
      | .error x => .error x
      | .ok r => .ok (l ++ r)

/-! ### handlers -/

/-- `validate_msg_id` (for an int) followed by the registration in `message_ids` / `message_defs` -/
def regMsg (cfg : Cfg) (name : String) (id : Int) (st : St) : Except Err St :=
  if id < 0 || id > cfg.maxMsg then .error .range
  else if (st.msgs.map (·.2)).contains id then .error .msgId
  else .ok { st with msgs := st.msgs ++ [(name, id)] }

/-- the second loop of `handle_reserve` -/
def regReserved (cfg : Cfg) : List Int → St → Except Err St
  | [], st => .ok st
  | id :: ids, st =>
    match regMsg cfg (resName id) id st with
    | .error e => .error e
    | .ok st' => regReserved cfg ids st'

def hostOutOfRange (v : Int) : Bool := v < 1 || v > 32767
def moduleOutOfRange (v : Int) : Bool := (v < 10 || (99 < v && v < 200)) && v != 0

/-- one key of one section; `core` = the current file is named `core_defs.yaml` -/
def handle (cfg : Cfg) (core : Bool) (it : Item) (st : St) : Except Err St :=
  match it with
  | .mdata n =>
    if !validName n then .error .badName
    else if st.mdata.contains n then .error .dupName
    else .ok { st with mdata := st.mdata ++ [n] }
  | .const n =>
    if !validName n then .error .badName
    else if inShared st n then .error .dupName
    else .ok { st with consts := st.consts ++ [n] }
  | .str n =>
    if !validName n then .error .badName
    else if inShared st n then .error .dupName
    else .ok { st with strs := st.strs ++ [n] }
  | .alias n =>
    if !validName n then .error .badName
    else if inShared st n then .error .dupName
    else .ok { st with aliases := st.aliases ++ [n] }
  | .struct n =>
    if !validName n then .error .badName
    else if inShared st n then .error .dupName
    else .ok { st with structs := st.structs ++ [n] }
  | .host n v =>
    if !validName n then .error .badName
    else if (st.hosts.map (·.1)).contains n then .error .dupName
    else match v with
      | none => .error .notInt
      | some v =>
        if hostOutOfRange v && !core && cfg.coreOn then .error .range
        else if (st.hosts.map (·.2)).contains v then .error .hostId
        else .ok { st with hosts := st.hosts ++ [(n, v)] }
  | .module n v =>
    if !validName n then .error .badName
    else if (st.modules.map (·.1)).contains n then .error .dupName
    else match v with
      | none => .error .notInt
      | some v =>
        if moduleOutOfRange v && !core && cfg.coreOn then .error .range
        else if (st.modules.map (·.2)).contains v then .error .moduleId
        else .ok { st with modules := st.modules ++ [(n, v)] }
  | .msg n v =>
    if !validName n then .error .badName
    else if inShared st n then .error .dupName
    else match v with
      | none => .error .notInt
      | some v => regMsg cfg n v st
  | .reserved ids =>
    -- `check_name("_RESERVED_")` passes; the duplicate-name check runs with that literal name
    if inShared st reservedKey then .error .dupName
    else match ids with
      | none => .error .resNotList
      | some es =>
        match expandAll es with
        | .error e => .error e
        | .ok l => regReserved cfg l st

/-! ### events: what the walk feeds to the handlers -/

inductive Ev where
  | enter (fid : Nat)                   -- a file is opened (no effect on the registries)
  | item (core : Bool) (it : Item)
  | fail (e : Err)                      -- file-level failure at this point of the walk
deriving Repr, DecidableEq, Inhabited

def step (cfg : Cfg) (ev : Ev) (st : St) : Except Err St :=
  match ev with
  | .enter _ => .ok st
  | .item core it => handle cfg core it st
  | .fail e => .error e

/-- first error wins -/
def run (cfg : Cfg) : List Ev → St → Except Err St
  | [], st => .ok st
  | ev :: evs, st =>
    match step cfg ev st with
    | .error e => .error e
    | .ok st' => run cfg evs st'

/-! ### one file -/

def hasDup : List String → Bool
  | [] => false
  | x :: xs => xs.contains x || hasDup xs

def msgKey : Item → String
  | .msg n _ => n
  | _ => reservedKey

/-- the YAML loader rejects a mapping with a repeated key -/
def File.dupKeys (f : File) : Bool :=
  hasDup f.mdata || hasDup f.consts || hasDup f.strs || hasDup f.aliases || hasDup (f.hosts.map (·.1)) ||
  hasDup (f.modules.map (·.1)) || hasDup f.structs || hasDup (f.msgs.map msgKey)

/-- `handle_metadata` runs before the imports ... -/
def File.before (f : File) : List Item := f.mdata.map .mdata

/-- ... everything else after them, in the fixed order of `parse_text` -/
def File.after (f : File) : List Item :=
  f.consts.map .const ++ f.strs.map .str ++ f.aliases.map .alias ++
  f.hosts.map (fun p => .host p.1 p.2) ++ f.modules.map (fun p => .module p.1 p.2) ++
  f.structs.map .struct ++ f.msgs

def runItems (cfg : Cfg) (core : Bool) : List Item → St → Except Err St
  | [], st => .ok st
  | it :: its, st =>
    match handle cfg core it st with
    | .error e => .error e
    | .ok st' => runItems cfg core its st'

/-! ### the import walk: `parse_file` / `parse_text` / `handle_import`, threading `included_files` -/

/-- the `for imp in data["imports"]` loop; `pf` = `parse_file` one level down -/
def parseImportsWith (pf : Nat → List Nat × St → Except Err (List Nat × St)) :
    List Imp → List Nat × St → Except Err (List Nat × St)
  | [], s => .ok s
  | imp :: imps, s =>
    match imp with
    | .dir => .error .fileFormat
    | .badSuffix => .error .fileFormat
    | .missing => .error .fileNotFound
    | .file n =>
      match pf n s with
      | .error e => .error e
      | .ok s' => parseImportsWith pf imps s'

/-- `parse_file(path)`; `inc` = `self.included_files`; the first argument bounds the import depth -/
def parseFile (cfg : Cfg) (files : List File) : Nat → Nat → List Nat × St → Except Err (List Nat × St)
  | 0, _, _ => .error .fuel
  | fuel + 1, fid, (inc, st) =>
    if inc.contains fid then .ok (inc, st)
    else
      match files[fid]? with
      | none => .error .fileNotFound
      | some f =>
        if f.dupKeys then .error .yamlDup
        else if f.empty then .error .emptyFile
        else
          match runItems cfg f.coreName f.before st with
          | .error e => .error e
          | .ok st1 =>
            match parseImportsWith (parseFile cfg files fuel) f.imports (inc ++ [fid], st1) with
            | .error e => .error e
            | .ok (inc2, st2) =>
              match runItems cfg f.coreName f.after st2 with
              | .error e => .error e
              | .ok st3 => .ok (inc2, st3)

/-- a whole compilation: the table of files, the root, and the shipped core file (if any) -/
structure Input where
  cfg   : Cfg
  files : List File
  root  : Nat
  core  : Nat := 0        -- index of the shipped `core_defs/core_defs.yaml` (used when `cfg.coreOn`)
deriving Repr, Inhabited

def Input.fuel (i : Input) : Nat := i.files.length + 1

/-- `Parser.parse(root)` -/
def parse (i : Input) : Except Err St :=
  let s0 : Except Err (List Nat × St) :=
    if i.cfg.coreOn then parseFile i.cfg i.files i.fuel i.core ([], {}) else .ok ([], {})
  match s0 with
  | .error e => .error e
  | .ok s1 =>
    match parseFile i.cfg i.files i.fuel i.root s1 with
    | .error e => .error e
    | .ok (_, st) => .ok st

end Pyrtma.Registry
