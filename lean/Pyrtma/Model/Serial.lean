import Pyrtma.Model.Validators
/-!
# M5 — bytes / dict / JSON round trips (`message_base._to_dict`, `_from_dict`, `Message.from_json`)

A message class is modelled *flattened*: nested structs and struct arrays are walked (by `_to_dict` / `_from_dict` and by
the harness alike) down to **leaves** — the descriptor fields of M4 — at absolute offsets.  For a leaf

* `toDictLeaf ty bytes` is the Python value `_to_dict` puts into the dictionary (what `getattr(obj, name)` /
  `array[:]` return), and
* `_from_dict` assigns that value back through the descriptor on a fresh (all-zero) object, i.e. M4's
  `setField true ty zeros .whole value`.

The JSON *text* layer (`json.dumps` / `json.loads`) is Python's and is not modelled: it is exercised on the
implementation (floats print as shortest round-trip decimals, `bytes` become lists of ints via `RTMAJSONEncoder`).
-/
namespace Pyrtma.Serial
open Pyrtma.Validators

/-- the value `_to_dict` produces for one leaf field -/
def toDictLeaf (ty : FTy) (b : Bytes) : PyVal :=
  match ty with
  | .int k => .sc (.int (decInt k b))
  | .flt .f64 => .sc (.flt (fromLE b))
  | .flt .f32 => .sc (.flt (widen (fromLE b)))
  | .char => .sc (.str b)
  | .byte => .sc (.int (fromLE b : Nat))
  | .str _ => .sc (.str (upToNul b))
  | .arr .byteArray _ _ => .sc (.bytes b)
  | .arr _ vk n => .seq .list (decodeItems vk n b)
  | .strct tid _ => .sc (.strct tid b)

def zeros (n : Nat) : Bytes := List.replicate n 0

/-- `_from_dict` on one leaf of a fresh object -/
def fromDictLeaf (ty : FTy) (v : PyVal) : Bytes × Option PyErr :=
  match ty, v with
  -- arrays are assigned with `getattr(obj, name)[:] = value`
  | .arr _ vk n, v => setItem true vk n (zeros ty.size) (.slice none none none) v
  | ty, v => setField true ty (zeros ty.size) .whole v

/-- `Message.from_json`'s version check: refuse iff the header carries a non-zero version that differs from the
local definition's hash -/
def versionRefused (hdrVersion localHash : Nat) : Bool := hdrVersion != 0 && hdrVersion != localHash

end Pyrtma.Serial
