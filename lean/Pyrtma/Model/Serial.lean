import Pyrtma.Model.Validators
/-!
# M5 — bytes / dict / JSON round trips (`message_base._to_dict`, `_from_dict`, `Message.from_json`)

Two levels.

**Leaves** — the descriptor fields of M4 — at absolute offsets.  For a leaf

* `toDictLeaf ty bytes` is the Python value `_to_dict` puts into the dictionary (what `getattr(obj, name)` /
  `array[:]` return), and
* `_from_dict` assigns that value back through the descriptor on a fresh (all-zero) object, i.e. M4's
  `setField true ty zeros .whole value` (`setItem … [:]` for arrays).

**Whole classes** — `Desc`: the walk of `_fields_` with nested structs and struct arrays and the byte layout; `toDict`
/ `fromDict` mirror `_to_dict` / `_from_dict` including their failure modes (`DErr`).

The JSON text layer is `Model/Json.lean`, storage (copies, views) is `Model/Heap.lean`.
-/
namespace Pyrtma.Serial
open Pyrtma.Validators

/-- the value `_to_dict` produces for one leaf field -/
def toDictLeaf (ty : FTy) (b : Bytes) : PyVal :=
  match ty with
  | .int k => .sc (.int (decInt k b))
  | .flt .f64 => .sc (.flt (fromLE b))
  | .flt .f32 => .sc (.flt (widen (fromLE b)))
  | .char => .sc (.str b)
  | .byte => .sc (.int (fromLE b : Nat))
  | .str _ => .sc (.str (upToNul b))
  | .arr .byteArray _ _ => .sc (.bytes b)
  | .arr _ vk n => .seq .list (decodeItems vk n b)
  | .strct tid _ => .sc (.strct tid b)

def zeros (n : Nat) : Bytes := List.replicate n 0

/-- `_from_dict` on one leaf of a fresh object -/
def fromDictLeaf (ty : FTy) (v : PyVal) : Bytes × Option PyErr :=
  match ty, v with
  -- arrays are assigned with `getattr(obj, name)[:] = value`
  | .arr _ vk n, v => setItem true vk n (zeros ty.size) (.slice none none none) v
  | ty, v => setField true ty (zeros ty.size) .whole v

/-! ## whole message classes

A class is a **descriptor**: the walk of `_fields_` that `_to_dict` / `_from_dict` perform.  ctypes lays the fields of a
`Structure` out one after the other, so a struct is a list of (name, padding in front, field descriptor) plus trailing
padding; the absolute offsets the class reports are turned into these paddings by the driver (`Drv/Serial.lean`), which
refuses a class whose offsets are not increasing. -/

mutual
inductive Desc
  /-- scalar, char, byte, string, byte array, numeric array: one M4 descriptor field -/
  | leaf (ty : FTy)
  /-- `issubclass(ftype, MessageBase)`: a nested struct (and the top-level class itself) -/
  | strct (fs : Fields) (tail : Nat)
  /-- `issubclass(ftype, ctypes.Array) and issubclass(ftype._type_, MessageBase)` -/
  | sarr (n : Nat) (elem : Desc)
  deriving DecidableEq, Repr
inductive Fields
  | nil
  | cons (name : String) (pad : Nat) (d : Desc) (rest : Fields)
  deriving DecidableEq, Repr
end

mutual
def Desc.size : Desc → Nat
  | .leaf ty => ty.size
  | .strct fs tail => fs.size + tail
  | .sarr n e => n * e.size
def Fields.size : Fields → Nat
  | .nil => 0
  | .cons _ pad d r => pad + d.size + r.size
end

def Fields.names : Fields → List String
  | .nil => []
  | .cons name _ _ r => name :: r.names

/- the Python object `to_dict()` returns: leaves are M4 values, `dict` keeps insertion order -/
mutual
inductive Val
  | leaf (v : PyVal)
  | dict (kvs : KVs)
  | list (xs : Vals)
  deriving DecidableEq, Repr
inductive KVs
  | nil
  | cons (k : String) (v : Val) (r : KVs)
  deriving DecidableEq, Repr
inductive Vals
  | nil
  | cons (v : Val) (r : Vals)
  deriving DecidableEq, Repr
end

def Vals.ofList : List Val → Vals
  | [] => .nil
  | v :: vs => .cons v (Vals.ofList vs)
def Vals.toList : Vals → List Val
  | .nil => []
  | .cons v r => v :: r.toList
/-- `data[name]` -/
def KVs.lookup (name : String) : KVs → Option Val
  | .nil => none
  | .cons k v r => if k == name then some v else r.lookup name
def KVs.append : KVs → KVs → KVs
  | .nil, b => b
  | .cons k v r, b => .cons k v (r.append b)
def KVs.keys : KVs → List String
  | .nil => []
  | .cons k _ r => k :: r.keys

/-- what `_from_dict` can raise (all of it reaches the caller as `JSONDecodingError`) -/
inductive DErr
  | field (e : PyErr)     -- a descriptor refused the value
  | key                   -- `data[name]`: no such key
  | index                 -- `data[name][i]`: list too short
  | shape                 -- a dict / list where a leaf value is expected, or the other way round
  deriving DecidableEq, Repr

/- `_to_dict(obj)` where `b` are the bytes of `obj` -/
mutual
def toDict : Desc → Bytes → Val
  | .leaf ty, b => .leaf (toDictLeaf ty b)
  | .strct fs _, b => .dict (toDictFields fs b)
  | .sarr n e, b => .list (Vals.ofList ((chunks e.size n b).map fun c => toDict e c))
def toDictFields : Fields → Bytes → KVs
  | .nil, _ => .nil
  | .cons name pad d r, b =>
    .cons name (toDict d ((b.drop pad).take d.size)) (toDictFields r (b.drop (pad + d.size)))
end

/-- `for i, elem in enumerate(getattr(obj, name)): _from_dict(elem, data[name][i])`: the elements one after the other,
the first failure stops the loop; list items beyond the array length are never looked at -/
def fromElems (f : Val → Bytes × Option DErr) (esz : Nat) : Nat → List Val → Bytes × Option DErr
  | 0, _ => ([], none)
  | n + 1, [] => (zeros ((n + 1) * esz), some .index)
  | n + 1, v :: vs =>
    match f v with
    | (b, some e) => (b ++ zeros (n * esz), some e)
    | (b, none) => let r := fromElems f esz n vs; (b ++ r.1, r.2)

/-- `String` fields: "list of characters is equivalent to str" -/
def joinChars : PyVal → PyVal
  | .seq .list xs =>
    if xs.all (fun x => match x with | .str cs => cs.length ≤ 1 | _ => false) then
      .sc (.str (xs.flatMap fun x => match x with | .str cs => cs | _ => []))
    else .seq .list xs
  | v => v

/-- the value a leaf descriptor is handed: `data[name]`, for `c_char` arrays after the list-of-characters conversion -/
def leafArg (ty : FTy) (v : PyVal) : PyVal :=
  match ty with | .str _ => joinChars v | _ => v

/- `_from_dict(obj, data)` on a **fresh** (all-zero) object of the class: the bytes of the object afterwards and the
exception, if one came out (then the bytes are those of the half-filled object; `from_dict` drops it) -/
mutual
def fromDict : Desc → Val → Bytes × Option DErr
  | .leaf ty, .leaf v =>
    let r := fromDictLeaf ty (leafArg ty v)
    (r.1, r.2.map .field)
  | .leaf ty, _ => (zeros ty.size, some .shape)
  | .strct fs tail, .dict kvs => let r := fromDictFields fs kvs; (r.1 ++ zeros tail, r.2)
  | .strct fs tail, _ => (zeros (fs.size + tail), some .shape)
  | .sarr n e, .list xs => fromElems (fun v => fromDict e v) e.size n xs.toList
  | .sarr n e, _ => (zeros (n * e.size), some .shape)
def fromDictFields : Fields → KVs → Bytes × Option DErr
  | .nil, _ => ([], none)
  | .cons name pad d r, kvs =>
    match kvs.lookup name with
    | none => (zeros (pad + d.size + r.size), some .key)
    | some v =>
      match fromDict d v with
      | (b, some e) => (zeros pad ++ b ++ zeros r.size, some e)
      | (b, none) => let rr := fromDictFields r kvs; (zeros pad ++ b ++ rr.1, rr.2)
end

/-- `Message.from_json`'s version check: refuse iff the header carries a non-zero version that differs from the
local definition's hash -/
def versionRefused (hdrVersion localHash : Nat) : Bool := hdrVersion != 0 && hdrVersion != localHash

/-- how `Message.from_json` ends once the header segment is decoded and the message class is found -/
inductive MsgOutcome
  | refused     -- `InvalidMessageDefinition`
  | decoded     -- a `Message` comes back
  | failed      -- any other exception (`KeyError` for a missing "data", `JSONDecodingError` from `from_dict`)
  deriving DecidableEq, Repr

/-- the **order** of `Message.from_json`: header, class lookup, *then the version check, then the data segment*.
`dataOk`: looking up `d["data"]` and `from_dict` on it succeed.  Nothing about the class enters - in particular not
whether it has any fields (signals have none) - and the data segment is not looked at before the version is. -/
def msgFromJson (hdrVersion localHash : Nat) (dataOk : Bool) : MsgOutcome :=
  if versionRefused hdrVersion localHash then .refused else if dataOk then .decoded else .failed

end Pyrtma.Serial
