/-!
# M2b — how the connect options travel from the public entry points to the CONNECT_V2 / CONNECT payload (C06)

Executable model, core Lean only, of the *argument binding* on the way from a caller to the wire
(src/pyrtma/client.py):

* the four signatures `Client.__init__(module_id=0, host_id=0, timecode=False, name="")`,
  `Client.connect(server_name="localhost:7111", logger_status=False, daemon_status=False, allow_multiple=False)`,
  `Client._connect_helper(logger_status, daemon_status, allow_multiple)`,
  `client_context(module_id=0, server_name=.., msg_list=None, host_id=0, timecode=False, logger_status=False,
  allow_multiple=False, name="")`;
* the three internal call sites: `self._connect_helper(logger_status, daemon_status, allow_multiple)` inside `connect`,
  `Client(module_id, host_id, timecode, name=name)` and `c.connect(server_name, logger_status=logger_status,
  allow_multiple=allow_multiple)` inside `client_context`;
* the assignments of `_connect_helper` that fill the payloads: `msg2.logger_status = int(logger_status)`, … ,
  `msg2.mod_id = self.module_id`, `msg2.name = self.name`, `msg.logger_status`, `msg.daemon_status`.

* the one place where a *value* is looked at on the way: `Client.__init__` stores as `_name` (what `Client.name`, hence
  `msg2.name`, returns) the name it was given - unless that name is empty and `module_id` is not 0 and is registered
  as an `MID_` constant in the message-definition context: then the first registered name of that id
  (`storedName`, `Wrote`-level: `Spec/ClientEntry.lean initName`).

`bindArgs` is Python's rule for binding actuals to formals (positionals left to right, then keywords, then defaults;
too many positionals, an unknown keyword, a parameter given twice or not at all are `TypeError` = `none`).  It is
generic in the type of the things bound, so the same function binds *values* (what a run does) and *symbols* (where a
field's value comes from): `Props/C06Entry.lean` decides the symbolic question and lifts it to all values.
-/
namespace Pyrtma.ClientEntry

/-- parameter names that occur in the four signatures -/
inductive Nm where
  | server_name | logger_status | daemon_status | allow_multiple | module_id | host_id | timecode | name | msg_list
  | other (k : Nat)
deriving Repr, DecidableEq, Inhabited

inductive Val where
  | b (x : Bool) | i (x : Int) | s (x : String) | none
deriving Repr, DecidableEq, Inhabited

/-- an argument expression at an internal call site: a local of the calling function, or a literal -/
inductive Expr where
  | var (n : Nm)
  | const (v : Val)
deriving Repr, DecidableEq, Inhabited

/-- formal parameters (without `self`), each with its default if it has one -/
abbrev Sig := List (Nm × Option Val)

/-- the actuals of one call -/
structure Actuals (α : Type) where
  pos : List α
  kw : List (Nm × α)
deriving Repr, DecidableEq, Inhabited

abbrev Env (α : Type) := List (Nm × α)

def lookup {α : Type} (e : Env α) (n : Nm) : Option α := (e.find? (fun p => p.1 == n)).map (·.2)

/-- what Python binds to the formal `n` (default `d`) that stands at position `idx` of the signature -/
def argFor {α : Type} (dflt : Val → α) (pos : List α) (kw : List (Nm × α)) (n : Nm) (d : Option Val) (idx : Nat) :
    Option α :=
  match pos[idx]?, lookup kw n with
  | some _, some _ => none                 -- got multiple values for argument
  | some v, none => some v
  | none, some v => some v
  | none, none => d.map dflt               -- default, or missing required argument

/-- bind the formals from position `i` on -/
def bindFrom {α : Type} (dflt : Val → α) (pos : List α) (kw : List (Nm × α)) : Sig → Nat → Option (Env α)
  | [], _ => some []
  | (n, d) :: rest, i =>
    match argFor dflt pos kw n d i, bindFrom dflt pos kw rest (i + 1) with
    | some v, some e => some ((n, v) :: e)
    | _, _ => none

/-- Python's binding of the actuals of a call to the formals of the callee -/
def bindArgs {α : Type} (dflt : Val → α) (sig : Sig) (a : Actuals α) : Option (Env α) :=
  if sig.length < a.pos.length then none                                       -- too many positional arguments
  else if a.kw.any (fun p => !(sig.any (fun f => f.1 == p.1))) then none       -- unexpected keyword argument
  else bindFrom dflt a.pos a.kw sig 0

/-- evaluate the argument expressions of an internal call site in the caller's environment -/
def evalExpr {α : Type} (dflt : Val → α) (e : Env α) : Expr → Option α
  | .var n => lookup e n
  | .const v => some (dflt v)

def allSome {α : Type} : List (Option α) → Option (List α)
  | [] => some []
  | some x :: r => (allSome r).map (x :: ·)
  | none :: _ => none

structure Call where
  pos : List Expr
  kw : List (Nm × Expr)
deriving Repr, DecidableEq, Inhabited

def evalCall {α : Type} (dflt : Val → α) (e : Env α) (c : Call) : Option (Actuals α) :=
  match allSome (c.pos.map (evalExpr dflt e)), allSome (c.kw.map (fun p => (evalExpr dflt e p.2).map (fun v => (p.1, v)))) with
  | some p, some k => some ⟨p, k⟩
  | _, _ => none

/-- the payload fields C06 names -/
inductive Field where
  | logger | daemon | allow | modId | name
deriving Repr, DecidableEq, Inhabited

/-- where `_connect_helper` takes a payload field from -/
inductive FieldSrc where
  | helperArg (n : Nm)       -- `int(<parameter of _connect_helper>)`
  | ctorArg (n : Nm)         -- `self.module_id` / `self.name`: what the constructor stored
deriving Repr, DecidableEq, Inhabited

/-- the part of client.py the options travel through -/
structure Prog where
  ctor : Sig
  connect : Sig
  helper : Sig
  ctx : Sig
  connectToHelper : Call
  ctxToCtor : Call
  ctxToConnect : Call
  v2 : List (Field × FieldSrc)          -- CONNECT_V2
  v1 : List (Field × FieldSrc)          -- CONNECT
deriving Repr, DecidableEq, Inhabited

/-- client.py as it is (checked against the bytes the real Client writes by `drv_cliententry`) -/
def prog : Prog :=
  { ctor := [(.module_id, some (.i 0)), (.host_id, some (.i 0)), (.timecode, some (.b false)), (.name, some (.s ""))],
    connect := [(.server_name, some (.s "localhost:7111")), (.logger_status, some (.b false)),
                (.daemon_status, some (.b false)), (.allow_multiple, some (.b false))],
    helper := [(.logger_status, none), (.daemon_status, none), (.allow_multiple, none)],
    ctx := [(.module_id, some (.i 0)), (.server_name, some (.s "localhost:7111")), (.msg_list, some .none),
            (.host_id, some (.i 0)), (.timecode, some (.b false)), (.logger_status, some (.b false)),
            (.allow_multiple, some (.b false)), (.name, some (.s ""))],
    connectToHelper := ⟨[.var .logger_status, .var .daemon_status, .var .allow_multiple], []⟩,
    ctxToCtor := ⟨[.var .module_id, .var .host_id, .var .timecode], [(.name, .var .name)]⟩,
    ctxToConnect := ⟨[.var .server_name], [(.logger_status, .var .logger_status), (.allow_multiple, .var .allow_multiple)]⟩,
    v2 := [(.logger, .helperArg .logger_status), (.daemon, .helperArg .daemon_status),
           (.allow, .helperArg .allow_multiple), (.modId, .ctorArg .module_id), (.name, .ctorArg .name)],
    v1 := [(.logger, .helperArg .logger_status), (.daemon, .helperArg .daemon_status)] }

/-- a public way of connecting, with the caller's actuals -/
inductive Entry (α : Type) where
  | direct (ctor : Actuals α) (connect : Actuals α)      -- `c = Client(...); c.connect(...)`
  | context (ctx : Actuals α)                            -- `with client_context(...) as c:`
deriving Repr, Inhabited

/-- the constructor's and `connect`'s environments an entry point leads to -/
def envs {α : Type} (dflt : Val → α) (p : Prog) : Entry α → Option (Env α × Env α)
  | .direct c k =>
    match bindArgs dflt p.ctor c, bindArgs dflt p.connect k with
    | some ce, some ke => some (ce, ke)
    | _, _ => none
  | .context x =>
    match bindArgs dflt p.ctx x with
    | some xe =>
      match evalCall dflt xe p.ctxToCtor, evalCall dflt xe p.ctxToConnect with
      | some ca, some ka =>
        match bindArgs dflt p.ctor ca, bindArgs dflt p.connect ka with
        | some ce, some ke => some (ce, ke)
        | _, _ => none
      | _, _ => none
    | none => none

def fieldVal {α : Type} (ce he : Env α) : FieldSrc → Option α
  | .helperArg n => lookup he n
  | .ctorArg n => lookup ce n

/-- the value of each payload field of one frame; `none`: the call is a `TypeError` somewhere on the way -/
def frameFields {α : Type} (ce he : Env α) (fs : List (Field × FieldSrc)) : Option (List (Field × α)) :=
  allSome (fs.map (fun f => (fieldVal ce he f.2).map (fun v => (f.1, v))))

/-- CONNECT_V2 and CONNECT as an entry point with these actuals produces them -/
def payload {α : Type} (dflt : Val → α) (p : Prog) (e : Entry α) : Option (List (Field × α) × List (Field × α)) :=
  match envs dflt p e with
  | some (ce, ke) =>
    match evalCall dflt ke p.connectToHelper with
    | some ha =>
      match bindArgs dflt p.helper ha with
      | some he =>
        match frameFields ce he p.v2, frameFields ce he p.v1 with
        | some a, some b => some (a, b)
        | _, _ => none
      | none => none
    | none => none
  | none => none

/-- the context's `MID` table (`get_context().MID`): registered module names with their ids, in dict order -/
abbrev Mids := List (String × Int)

/-- `Client.__init__`, "auto-assign a name if module-id is defined": what ends up in `self._name` when the constructor
is given `module_id` and `name`: the name itself, unless it is empty and the id is not 0: then the first name the
context registers for that id, if there is one -/
def storedName (mids : Mids) (modId : Int) (name : String) : String :=
  if name == "" && modId != 0 then
    match mids.find? (fun p => p.2 == modId) with
    | some p => p.1
    | none => name
  else name

end Pyrtma.ClientEntry
