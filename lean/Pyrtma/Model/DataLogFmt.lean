/-!
# M10 (second half) — the data formatters and the quicklogger reader

`src/pyrtma/data_logger/data_formatter.py`, `formatters/{quicklogger,raw,json}.py`,
`utils/quicklogger_reader.py: QLReader.load`.  Core Lean only.

A message is what the formatters read of it: `bytes(msg.header)`, `bytes(msg.data)` (and, for the JSON
formatter, the text `msg.to_json(minify=True)`).  A file is a list of bytes (`Nat`, no range
assumption is needed: the readers only slice and decode the 4-byte little-endian counters written by
`le32`).  The file object is modelled by its content; `seek(0); write(hdr); seek(END)` is
`overwrite`.  `tempfile.NamedTemporaryFile` is a second byte list.

A formatter sees a *partition* of the message list: the batches of the successive `write(wbuf)` calls and
the batch of the closing `finalize(wbuf)`.
-/
namespace Pyrtma.DataLog.Fmt

abbrev Bytes := List Nat

structure FMsg where
  hdr : Bytes
  data : Bytes
deriving Repr, DecidableEq, Inhabited

/-- `x.to_bytes(4, "little")` / a `Uint32` field of a ctypes structure -/
def le32 (n : Nat) : Bytes := [n % 256, n / 256 % 256, n / 65536 % 256, n / 16777216 % 256]

def unle32 (b : Bytes) : Nat :=
  b.getD 0 0 + 256 * b.getD 1 0 + 65536 * b.getD 2 0 + 16777216 * b.getD 3 0

/-! ### raw -/

/-- `RawFormatter.format_message` -/
def rawFrame (m : FMsg) : Bytes := m.hdr ++ m.data

/-- `DataFormatter.write`: `fd.writelines(format_message(m) for m in wbuf)` -/
def rawWrite (fd : Bytes) (wbuf : List FMsg) : Bytes := fd ++ (wbuf.map rawFrame).flatten

/-- the file after `write(p)` for every `p` of `parts`, then `finalize(last)` (no header, no footer) -/
def rawFile (parts : List (List FMsg)) (last : List FMsg) : Bytes :=
  rawWrite (parts.foldl rawWrite []) last

/-- reading a raw file back: fixed-size header, `num_data_bytes` (little-endian at `ndbOff`) payload bytes -/
def ndb (ndbOff : Nat) (hdr : Bytes) : Nat := unle32 ((hdr.drop ndbOff).take 4)

def rawRead (H ndbOff : Nat) : Nat → Bytes → List FMsg
  | 0, _ => []
  | fuel + 1, f =>
    if f.isEmpty then []
    else
      let h := f.take H
      let n := ndb ndbOff h
      ⟨h, (f.drop H).take n⟩ :: rawRead H ndbOff fuel (f.drop (H + n))

/-! ### json (lines) -/

/-- `JsonFormatter.format_message`: `msg.to_json(minify=True) + "\n"`; a line is a list of characters -/
def jsonWrite (fd : List Char) (wbuf : List (List Char)) : List Char :=
  fd ++ (wbuf.map (· ++ ['\n'])).flatten

def jsonFile (parts : List (List (List Char))) (last : List (List Char)) : List Char :=
  jsonWrite (parts.foldl jsonWrite []) last

/-- split at every `'\n'`; the text after the last newline is returned separately -/
def splitLines : List Char → List Char → List (List Char) × List Char
  | acc, [] => ([], acc.reverse)
  | acc, c :: cs =>
    if c = '\n' then
      let r := splitLines [] cs
      (acc.reverse :: r.1, r.2)
    else splitLines (c :: acc) cs

/-! ### quicklogger -/

/-- `QLFileHeader` (six `Uint32`, in declaration order) -/
structure QLHdr where
  formatVersion : Nat
  totalBytes : Nat
  numMessages : Nat
  msgHdrSize : Nat
  offSize : Nat
  numDataBytes : Nat
deriving Repr, DecidableEq, Inhabited

def QLHdr.bytes (h : QLHdr) : Bytes :=
  le32 h.formatVersion ++ le32 h.totalBytes ++ le32 h.numMessages ++ le32 h.msgHdrSize ++
  le32 h.offSize ++ le32 h.numDataBytes

def qlHdrSize : Nat := 24

structure QL where
  hdr : QLHdr
  ofs : Nat
  offsets : List Nat
  numWrites : Nat
  fd : Bytes          -- the data set file
  tmp : Bytes         -- `data_tmp`
deriving Repr, DecidableEq, Inhabited

/-- `QLFormatter.__init__` with `H = MessageHeader().size`; the base class writes `format_header()` -/
def qlInit (H : Nat) : QL :=
  let h : QLHdr := { formatVersion := 1, totalBytes := qlHdrSize, numMessages := 0, msgHdrSize := H,
                     offSize := 4, numDataBytes := 0 }
  { hdr := h, ofs := 0, offsets := [], numWrites := 0, fd := h.bytes, tmp := [] }

/-- `QLFormatter.format_message`: bookkeeping, returns `bytes(msg.header)` which the caller appends -/
def qlFormatMessage (q : QL) (m : FMsg) : QL :=
  { q with
    offsets := q.offsets ++ [q.ofs],
    ofs := q.ofs + m.data.length,
    hdr := { q.hdr with numMessages := q.hdr.numMessages + 1,
                        numDataBytes := q.hdr.numDataBytes + m.data.length,
                        totalBytes := q.hdr.totalBytes + (q.hdr.offSize + m.data.length + m.hdr.length) },
    fd := q.fd ++ m.hdr }

/-- `DataFormatter.write` as inherited: headers appended at the end of the file -/
def qlBaseWrite (q : QL) (wbuf : List FMsg) : QL := wbuf.foldl qlFormatMessage q

/-- `seek(0); write(bytes(ql_header)); seek(END)` -/
def overwrite (new fd : Bytes) : Bytes := new ++ fd.drop new.length

def qlUpdateFileHeader (q : QL) : QL := { q with fd := overwrite q.hdr.bytes q.fd }

/-- `QLFormatter.write` -/
def qlWrite (q : QL) (wbuf : List FMsg) : QL :=
  let q := qlUpdateFileHeader (qlBaseWrite q wbuf)
  { q with tmp := q.tmp ++ (wbuf.map (·.data)).flatten, numWrites := q.numWrites + 1 }

def qlWriteOffsets (q : QL) : QL := { q with fd := q.fd ++ (q.offsets.map le32).flatten }

/-- `QLFormatter.finalize` (both paths) -/
def qlFinalize (q : QL) (wbuf : List FMsg) : QL :=
  if q.numWrites > 0 then
    let q := qlWriteOffsets (qlWrite q wbuf)
    { q with fd := q.fd ++ q.tmp }                                   -- copy_data
  else
    let q := qlWriteOffsets (qlUpdateFileHeader (qlBaseWrite q wbuf))
    { q with fd := q.fd ++ (wbuf.map (·.data)).flatten }

def qlFile (H : Nat) (parts : List (List FMsg)) (last : List FMsg) : Bytes :=
  (qlFinalize (parts.foldl qlWrite (qlInit H)) last).fd

/-- `n` consecutive chunks of `k` bytes -/
def chunks (k : Nat) : Nat → Bytes → List Bytes
  | 0, _ => []
  | n + 1, b => b.take k :: chunks k n (b.drop k)

/-- `QLReader.load`: file header, `num_messages` message headers of `message_header_size` bytes, the offset
table (read as `data_block_offset_size * num_messages` bytes, decoded as `c_uint32`), the rest is the data
block; message `k` is `data[offset_k : offset_k + header_k.num_data_bytes]` -/
def qlRead (ndbOff : Nat) (f : Bytes) : List FMsg :=
  let n := unle32 ((f.drop 8).take 4)
  let H := unle32 ((f.drop 12).take 4)
  let osz := unle32 ((f.drop 16).take 4)
  let r1 := f.drop qlHdrSize
  let hdrs := chunks H n r1
  let r2 := r1.drop (n * H)
  let offs := (chunks 4 n (r2.take (osz * n))).map unle32
  let d := r2.drop (osz * n)
  List.zipWith (fun h o => ⟨h, (d.drop o).take (ndb ndbOff h)⟩) hdrs offs

/-! ### the canonical quicklogger layout (what the file must look like whatever the partition) -/

def offsetsFrom : Nat → List FMsg → List Nat
  | _, [] => []
  | o, m :: ms => o :: offsetsFrom (o + m.data.length) ms

def dataLen (ms : List FMsg) : Nat := (ms.map (·.data.length)).sum
def hdrLen (ms : List FMsg) : Nat := (ms.map (·.hdr.length)).sum

def qlCanonHdr (H : Nat) (ms : List FMsg) : QLHdr :=
  { formatVersion := 1, totalBytes := qlHdrSize + 4 * ms.length + dataLen ms + hdrLen ms,
    numMessages := ms.length, msgHdrSize := H, offSize := 4, numDataBytes := dataLen ms }

def qlCanon (H : Nat) (ms : List FMsg) : Bytes :=
  (qlCanonHdr H ms).bytes ++ (ms.map (·.hdr)).flatten ++ ((offsetsFrom 0 ms).map le32).flatten ++
  (ms.map (·.data)).flatten

end Pyrtma.DataLog.Fmt
