import Pyrtma.Model.DataLog
import Pyrtma.Model.DataLogFmt
/-!
# M10, composition — the bytes of the files a session leaves behind

The handshake model (`Model/DataLog.lean`) records for every file of a data set the *batches* it received: one
per `formatter.write(wbuf)` of the writer thread, then the batch of the closing `formatter.finalize(wbuf)` (by
`subdivide()`: always empty, or by `stop()`).  The formatter model (`Model/DataLogFmt.lean`) turns such a call
sequence into bytes.  Here the two are put together: `render*` = the bytes on disk after the session, `read*`
= the package's readers.

What the formatters read of a message is an opaque pair of functions (`Enc`): `frame m` = (`bytes(msg.header)`,
`bytes(msg.data)`), `text m` = `msg.to_json(minify=True)`.  The theorems name what they need of them
(`wfMsg`: header of the fixed size announcing the payload length; no raw newline in the JSON text).
-/
namespace Pyrtma.DataLog
open Fmt

/-- the files of a data set, oldest first, each as the list of batches handed to its formatter -/
def Ds.fileBatches (d : Ds) : List (List (List Msg)) := d.closedFiles ++ [d.cur]

structure Enc where
  frame : Msg → FMsg
  text : Msg → List Char

/-- `write(b)` for every batch but the last, `finalize(last)` -/
def renderRaw (e : Enc) (f : List (List Msg)) : Bytes :=
  rawFile (f.dropLast.map (·.map e.frame)) ((f.getLastD []).map e.frame)

def renderQL (H : Nat) (e : Enc) (f : List (List Msg)) : Bytes :=
  qlFile H (f.dropLast.map (·.map e.frame)) ((f.getLastD []).map e.frame)

def renderJson (e : Enc) (f : List (List Msg)) : List Char :=
  jsonFile (f.dropLast.map (·.map e.text)) ((f.getLastD []).map e.text)

/-- frame-by-frame reader of a raw file (every frame has at least one byte, so `length + 1` is enough fuel) -/
def readRaw (H ndbOff : Nat) (b : Bytes) : List FMsg := rawRead H ndbOff (b.length + 1) b

end Pyrtma.DataLog
