import Pyrtma.Model.Sha256
/-!
# M8 — the canonical text that is hashed (src/pyrtma/parser.py: handle_message_def / handle_signal / handle_struct)

`rawText d` is the string the parser feeds to `sha256` for one definition, built exactly as the code builds it —
including the two quirks of the `fields: OTHER` (re-use) form: a message hashes the literal line `    fields: OTHER`,
a struct hashes the *characters* of that line joined by newlines (the `"\n".join(f)` is applied to a string), which
`textwrap.dedent` then turns into empty lines wherever the character is a blank.

Strings are `List Char` so that the theorems need no `String` lemmas.  The text is assembled line by line;
`textwrap.dedent` is modelled on lines: lines consisting only of blanks and tabs become empty; the common margin
it would strip is always empty because the first line is `NAME:` and `check_name` (which runs before hashing) makes
`NAME` start with a letter.  Line-level and text-level agree as long as no component contains a newline.

SHA-256 is inside the model (`Model/Sha256.lean`, validated against hashlib on every run): `digestHex d` is the
parser's `MDF.hash` / `SDF.hash` (`sha256(raw.encode()).hexdigest()`), `hash32 d` is `int(hash[:8], 16)` — the number
`compilers/python.py` prints as `type_hash`, `c99.py` as `HASH_<NAME>`, `javascript.py` / `matlab.py` as the 8-digit
string `RTMA.HASH.<NAME>` / `RTMA.hash.<NAME>`, and `Client.send_message` copies into `header.version`.

What the text is built from (the YAML-level facts): **not** a substring of the source file.  The parser re-renders
the values the YAML loader delivered — the mapping key `name`, `mdf['id']` through `str()` (an int prints in
decimal whatever its spelling in the file), and the items of `mdf['fields']` in mapping order, each value through
`str()` — so comments, blank lines, quoting, key order (`fields` before `id`), hex spelling of the id, the file, its
directory and everything else the parser has seen are not inputs.  `Def` is exactly that loaded value.
-/
namespace Pyrtma.HashText

abbrev Str := List Char

inductive Fields where
  | null                               -- `fields: null`  (a signal)
  | ref (other : Str)                  -- `fields: OTHER` (copy the fields of another definition)
  | list (fs : List (Str × Str))       -- `fields: {name: type text, ...}` in file order
deriving Repr, DecidableEq, Inhabited

inductive Kind where
  | message | struct
deriving Repr, DecidableEq, Inhabited

structure Def where
  kind : Kind
  name : Str
  id : Int := 0                        -- ignored for structs
  fields : Fields
deriving Repr, DecidableEq, Inhabited

def joinWith (sep : Str) : List Str → Str
  | [] => []
  | [a] => a
  | a :: b :: r => a ++ sep ++ joinWith sep (b :: r)

def showInt (i : Int) : Str := (toString i).toList

/-- `f"    {fname}: {ftype}"` -/
def fieldLine (p : Str × Str) : Str := "    ".toList ++ p.1 ++ ": ".toList ++ p.2

/-- the lines of `"\n".join([...])` — one empty line when there is no field -/
def bodyLines (fs : List (Str × Str)) : List Str :=
  match fs with
  | [] => [[]]
  | _ => fs.map fieldLine

def refLine (o : Str) : Str := "    fields: ".toList ++ o

/-- lines of the text before `textwrap.dedent`; `none`: the code crashes (`None.items()`) before hashing -/
def rawLines (d : Def) : Option (List Str) :=
  match d.kind, d.fields with
  | .message, .null => some [d.name ++ [':'], "  id: ".toList ++ showInt d.id, "  fields: null".toList]
  | .message, .ref o => some [d.name ++ [':'], "  id: ".toList ++ showInt d.id, "  fields:".toList, refLine o]
  | .message, .list fs => some ([d.name ++ [':'], "  id: ".toList ++ showInt d.id, "  fields:".toList] ++ bodyLines fs)
  | .struct, .null => none
  | .struct, .ref o => some ([d.name ++ [':'], "  fields:".toList] ++ (refLine o).map (fun c => [c]))
  | .struct, .list fs => some ([d.name ++ [':'], "  fields:".toList] ++ bodyLines fs)

def isBlank (c : Char) : Bool := c == ' ' || c == '\t'

/-- `textwrap.dedent` on lines (margin empty, see the header) -/
def dedentLine (l : Str) : Str := if l.all isBlank then [] else l

def rawText (d : Def) : Option Str := (rawLines d).map (fun ls => joinWith ['\n'] (ls.map dedentLine))

/-- `sha256(text.encode()).hexdigest()` -/
def textDigest (t : Str) : Str := Sha256.hexDigest (Sha256.utf8 t)

/-- `int(sha256(text.encode()).hexdigest()[:8], 16)`: SHA-256 truncated to its first 32 bits -/
def text32 (t : Str) : Nat := Sha256.word0 (Sha256.utf8 t)

/-- `MDF.hash` / `SDF.hash` -/
def digestHex (d : Def) : Option Str := (rawText d).map textDigest

/-- the version hash: `type_hash`, `HASH_<NAME>`, `RTMA.HASH.<NAME>`, `header.version` -/
def hash32 (d : Def) : Option Nat := (rawText d).map text32

/-! ### the registration walk: where a definition sits is not an input of its hash

`Parser.parse` reaches the definitions one after the other (file by file in the order of the import walk, inside a
file `struct_defs` before `message_defs`, each in mapping order) and stores for each one an `SDF` / `MDF` made of
`raw`, `hash`, `name`, (`type_id`,) and `src = trim_root(current_file)`.  `src` is the only stored component that
looks at the location; `raw` and `hash` are computed from the loaded value alone. -/

/-- the part of a stored `MDF` / `SDF` that C13 is about -/
structure Stored where
  name : Str
  raw : Str
  hash : Str          -- `sha256(raw.encode()).hexdigest()`
  src : Str           -- path of the defining file relative to the root: depends on the location, the hash must not
deriving Repr, DecidableEq, Inhabited

/-- one file as the walk reaches it: its path and the definitions it registers, in order -/
structure SrcFile where
  path : Str
  defs : List Def
deriving Repr, DecidableEq, Inhabited

def storeDef (path : Str) (d : Def) : Option Stored :=
  (rawText d).map (fun t => { name := d.name, raw := t, hash := textDigest t, src := path })

def registerDefs (path : Str) : List Def → List Stored → Option (List Stored)
  | [], reg => some reg
  | d :: ds, reg =>
    match storeDef path d with
    | none => none                                -- the code crashes here (`None.items()`)
    | some s => registerDefs path ds (reg ++ [s])

/-- `struct_defs` and `message_defs` after the whole walk (insertion order) -/
def registerAll : List SrcFile → List Stored → Option (List Stored)
  | [], reg => some reg
  | f :: fs, reg =>
    match registerDefs f.path f.defs reg with
    | none => none
    | some reg' => registerAll fs reg'

end Pyrtma.HashText
