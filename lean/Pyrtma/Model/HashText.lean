/-!
# M8 — the canonical text that is hashed (src/pyrtma/parser.py: handle_message_def / handle_signal / handle_struct)

`rawText d` is the string the parser feeds to `sha256` for one definition, built exactly as the code builds it —
including the two quirks of the `fields: OTHER` (re-use) form: a message hashes the literal line `    fields: OTHER`,
a struct hashes the *characters* of that line joined by newlines (the `"\n".join(f)` is applied to a string), which
`textwrap.dedent` then turns into empty lines wherever the character is a blank.

Strings are `List Char` so that the theorems need no `String` lemmas.  The text is assembled line by line;
`textwrap.dedent` is modelled on lines: lines consisting only of blanks and tabs become empty; the common margin
it would strip is always empty because the first line is `NAME:` and `check_name` (which runs before hashing) makes
`NAME` start with a letter.  Line-level and text-level agree as long as no component contains a newline.
SHA-256 itself stays in Python's hashlib: the harness hashes the text this model prints.
-/
namespace Pyrtma.HashText

abbrev Str := List Char

inductive Fields where
  | null                               -- `fields: null`  (a signal)
  | ref (other : Str)                  -- `fields: OTHER` (copy the fields of another definition)
  | list (fs : List (Str × Str))       -- `fields: {name: type text, ...}` in file order
deriving Repr, DecidableEq, Inhabited

inductive Kind where
  | message | struct
deriving Repr, DecidableEq, Inhabited

structure Def where
  kind : Kind
  name : Str
  id : Int := 0                        -- ignored for structs
  fields : Fields
deriving Repr, DecidableEq, Inhabited

def joinWith (sep : Str) : List Str → Str
  | [] => []
  | [a] => a
  | a :: b :: r => a ++ sep ++ joinWith sep (b :: r)

def showInt (i : Int) : Str := (toString i).toList

/-- `f"    {fname}: {ftype}"` -/
def fieldLine (p : Str × Str) : Str := "    ".toList ++ p.1 ++ ": ".toList ++ p.2

/-- the lines of `"\n".join([...])` — one empty line when there is no field -/
def bodyLines (fs : List (Str × Str)) : List Str :=
  match fs with
  | [] => [[]]
  | _ => fs.map fieldLine

def refLine (o : Str) : Str := "    fields: ".toList ++ o

/-- lines of the text before `textwrap.dedent`; `none`: the code crashes (`None.items()`) before hashing -/
def rawLines (d : Def) : Option (List Str) :=
  match d.kind, d.fields with
  | .message, .null => some [d.name ++ [':'], "  id: ".toList ++ showInt d.id, "  fields: null".toList]
  | .message, .ref o => some [d.name ++ [':'], "  id: ".toList ++ showInt d.id, "  fields:".toList, refLine o]
  | .message, .list fs => some ([d.name ++ [':'], "  id: ".toList ++ showInt d.id, "  fields:".toList] ++ bodyLines fs)
  | .struct, .null => none
  | .struct, .ref o => some ([d.name ++ [':'], "  fields:".toList] ++ (refLine o).map (fun c => [c]))
  | .struct, .list fs => some ([d.name ++ [':'], "  fields:".toList] ++ bodyLines fs)

def isBlank (c : Char) : Bool := c == ' ' || c == '\t'

/-- `textwrap.dedent` on lines (margin empty, see the header) -/
def dedentLine (l : Str) : Str := if l.all isBlank then [] else l

def rawText (d : Def) : Option Str := (rawLines d).map (fun ls => joinWith ['\n'] (ls.map dedentLine))

end Pyrtma.HashText
