import Pyrtma.Model.Validators
/-!
# M5c — storage: ctypes buffers, views and copies (`MessageBase.copy`, `Message.copy`)

A ctypes object is a *reference* into a buffer: the buffer's address, an offset and a size.  `cls()` and
`cls.from_buffer_copy(src)` allocate a **fresh** buffer (the address is one no live object has); attribute access to a
nested struct (`msg.field`, `msg.array[i]`) gives a **view**: another reference into the *same* buffer.  Writes go
through a reference (`ctypes.memmove(addressof(obj) + off, data, n)`, which is also what every field store amounts to).

* `MessageBase.copy(cls, m)` is `cls.from_buffer_copy(m)`: a new object of class `cls` over a fresh buffer holding the
  first `sizeof(cls)` bytes of `m` (`ValueError` if `m` is smaller).
* `Message.copy(m)` is `Message(type(m.header).from_buffer_copy(m.header), type(m.data).from_buffer_copy(m.data))`.
-/
namespace Pyrtma.Heap
open Pyrtma.Validators

structure Ref where
  addr : Nat
  off : Nat
  size : Nat
  deriving DecidableEq, Repr

/-- a live ctypes object: its class (an opaque tag) and where its bytes are -/
structure Obj where
  cls : Nat
  ref : Ref
  deriving DecidableEq, Repr

/-- the buffers allocated so far; a buffer's address is its index -/
structure St where
  heap : List Bytes := []
  deriving DecidableEq, Repr

def slice (b : Bytes) (off n : Nat) : Bytes := (b.drop off).take n

/-- overwrite `data.length` bytes at `off` -/
def splice (b : Bytes) (off : Nat) (data : Bytes) : Bytes := b.take off ++ data ++ b.drop (off + data.length)

def St.buf (s : St) (a : Nat) : Bytes := s.heap.getD a []

/-- `bytes(obj)` -/
def St.read (s : St) (r : Ref) : Bytes := slice (s.buf r.addr) r.off r.size

/-- the reference denotes memory that exists -/
def St.valid (s : St) (r : Ref) : Prop := r.addr < s.heap.length ∧ r.off + r.size ≤ (s.buf r.addr).length

/-- `cls()` / the allocation inside `from_buffer_copy`: a fresh buffer -/
def St.alloc (s : St) (b : Bytes) : St × Ref :=
  ({ heap := s.heap ++ [b] }, { addr := s.heap.length, off := 0, size := b.length })

/-- `memmove(addressof(obj) + off, data, len(data))` inside the object (nothing happens if it would leave the object) -/
def St.write (s : St) (r : Ref) (off : Nat) (data : Bytes) : St :=
  if off + data.length ≤ r.size then
    { heap := s.heap.set r.addr (splice (s.buf r.addr) (r.off + off) data) }
  else s

/-- `obj.field` / `obj.array[i]` for a nested struct at `off` of size `size`: same buffer -/
def view (r : Ref) (off size : Nat) : Option Ref :=
  if off + size ≤ r.size then some { addr := r.addr, off := r.off + off, size := size } else none

/-- `cls.from_buffer_copy(src)` with `sizeof(cls) = size` (`none`: ValueError, the source is too small) -/
def St.copyAs (s : St) (cls size : Nat) (src : Ref) : Option (St × Obj) :=
  if size ≤ src.size then
    let p := s.alloc (slice (s.buf src.addr) src.off size)
    some (p.1, { cls := cls, ref := { p.2 with size := size } })
  else none

/-- `type(m).copy(m)` -/
def St.copy (s : St) (o : Obj) : Option (St × Obj) := s.copyAs o.cls o.ref.size o.ref

/-- `Message.copy(Message(header, data))` -/
def St.msgCopy (s : St) (hdr data : Obj) : Option (St × Obj × Obj) :=
  match s.copy hdr with
  | none => none
  | some (s1, h') =>
    match s1.copy data with
    | none => none
    | some (s2, d') => some (s2, h', d')

end Pyrtma.Heap
