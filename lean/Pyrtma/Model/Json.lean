import Pyrtma.Model.Serial
/-!
# M5b — the JSON text layer (`json.dumps(..., cls=RTMAJSONEncoder)` / `json.loads`)

The subset of JSON that `to_json` produces for message dictionaries and `from_json` reads back:

* documents `J`: integers, strings (lists of code points), floats as **opaque tokens** (the text `float.__repr__` gives, or
  `NaN` / `Infinity` / `-Infinity`), arrays, objects (insertion-ordered; field names are distinct);
* `render ind lvl` is `json.dumps` with `ensure_ascii=True`: `ind = none` is `separators=(",", ":")` (`minify=True`),
  `ind = some 2` is `indent=2`; strings are escaped exactly as the `json` module does (`\" \\ \n \r \t \b \f`, `\u00XX`
  for the other characters outside `' '..'~'` — including DEL —, `\uXXXX` for non-ASCII, surrogate pairs above U+FFFF);
* `parse` is `json.loads` on that subset (whitespace anywhere between tokens, the short escapes incl. `\/`, `\uXXXX` with
  surrogate pairs joined, control characters inside strings refused, integers `-?(0|[1-9][0-9]*)`, everything else
  number-like must be a float token of the JSON grammar or one of the three constants);
* `toJ ftok` is what the encoder makes of a `to_dict()` value: `bytes` become lists of ints (`RTMAJSONEncoder.default`),
  a float becomes its token `ftok bits` (Python's `repr`, supplied by the harness), keys become strings.

* `ofJ fparse` is the value tree `json.loads` hands to `from_dict` (`fparse`: Python's `float(token)`), and
  `fromJson fparse d text` is `cls.from_json(text)` = `from_dict(json.loads(text))` on a fresh object.

Not in the subset: `true` / `false` / `null` (no message field produces them).  Objects are association lists: a
repeated key stays repeated (Python keeps the last one; field names of a class are distinct).
-/
namespace Pyrtma.Json
open Pyrtma.Validators Pyrtma.Serial

mutual
inductive J
  | int (n : Int)
  | flt (tok : List Char)
  | str (cs : List Nat)
  | arr (xs : JL)
  | obj (kvs : JO)
  deriving DecidableEq, Repr
inductive JL
  | nil
  | cons (x : J) (r : JL)
  deriving DecidableEq, Repr
inductive JO
  | nil
  | cons (k : List Nat) (v : J) (r : JO)
  deriving DecidableEq, Repr
end

/-! ## rendering -/

def digitChar (d : Nat) : Char := Char.ofNat (48 + d)

def natDigitsAux : Nat → Nat → List Char → List Char
  | 0, _, acc => acc
  | f + 1, n, acc => if n < 10 then digitChar n :: acc else natDigitsAux f (n / 10) (digitChar (n % 10) :: acc)

/-- decimal digits, no leading zero -/
def natDigits (n : Nat) : List Char := natDigitsAux (n + 1) n []

def renderInt (n : Int) : List Char := if n < 0 then '-' :: natDigits n.natAbs else natDigits n.toNat

/-- lower-case hex digit (`'{0:04x}'`) -/
def hexDigit (d : Nat) : Char := if d < 10 then Char.ofNat (48 + d) else Char.ofNat (87 + d)

def u4 (n : Nat) : List Char :=
  ['\\', 'u', hexDigit (n / 4096 % 16), hexDigit (n / 256 % 16), hexDigit (n / 16 % 16), hexDigit (n % 16)]

/-- `json.encoder.ESCAPE_ASCII` / `py_encode_basestring_ascii` for one code point -/
def escChar (c : Nat) : List Char :=
  if c = 34 then ['\\', '"']
  else if c = 92 then ['\\', '\\']
  else if c = 10 then ['\\', 'n']
  else if c = 13 then ['\\', 'r']
  else if c = 9 then ['\\', 't']
  else if c = 8 then ['\\', 'b']
  else if c = 12 then ['\\', 'f']
  else if 32 ≤ c ∧ c ≤ 126 then [Char.ofNat c]
  else if c < 65536 then u4 c
  else u4 (55296 + (c - 65536) / 1024 % 1024) ++ u4 (56320 + (c - 65536) % 1024)

def renderStr (cs : List Nat) : List Char := '"' :: (cs.flatMap escChar ++ ['"'])

/-- newline + indentation of the pretty form; nothing in the minified form -/
def nl (ind : Option Nat) (lvl : Nat) : List Char :=
  match ind with
  | none => []
  | some k => '\n' :: List.replicate (k * lvl) ' '

def keySep (ind : Option Nat) : List Char :=
  match ind with
  | none => [':']
  | some _ => [':', ' ']

mutual
def render (ind : Option Nat) (lvl : Nat) : J → List Char
  | .int n => renderInt n
  | .flt tok => tok
  | .str cs => renderStr cs
  | .arr .nil => ['[', ']']
  | .arr xs => '[' :: (nl ind (lvl + 1) ++ renderL ind (lvl + 1) xs ++ nl ind lvl ++ [']'])
  | .obj .nil => ['{', '}']
  | .obj kvs => '{' :: (nl ind (lvl + 1) ++ renderO ind (lvl + 1) kvs ++ nl ind lvl ++ ['}'])
/- the items of an array, separated by `,` + newline/indent -/
def renderL (ind : Option Nat) (lvl : Nat) : JL → List Char
  | .nil => []
  | .cons x .nil => render ind lvl x
  | .cons x r => render ind lvl x ++ ',' :: (nl ind lvl ++ renderL ind lvl r)
def renderO (ind : Option Nat) (lvl : Nat) : JO → List Char
  | .nil => []
  | .cons k v .nil => renderStr k ++ keySep ind ++ render ind lvl v
  | .cons k v r => renderStr k ++ keySep ind ++ render ind lvl v ++ ',' :: (nl ind lvl ++ renderO ind lvl r)
end

/-- `to_json(minify=True)` -/
def renderMin (v : J) : List Char := render none 0 v
/-- `to_json()` (`indent=2`) -/
def renderPretty (v : J) : List Char := render (some 2) 0 v

/-! ## parsing -/

def isWs (c : Char) : Bool := c == ' ' || c == '\n' || c == '\r' || c == '\t'

def skipWs : List Char → List Char
  | [] => []
  | c :: r => if isWs c then skipWs r else c :: r

def isDigit (c : Char) : Bool := 48 ≤ c.toNat && c.toNat ≤ 57

/-- the characters a number-like token (integer, float, `NaN`, `Infinity`, `-Infinity`) is made of -/
def isNumChar (c : Char) : Bool :=
  isDigit c || c == '-' || c == '+' || c == '.' || c == 'e' || c == 'E' ||
  c == 'N' || c == 'a' || c == 'I' || c == 'n' || c == 'f' || c == 'i' || c == 't' || c == 'y'

def natOfDigits (ds : List Char) : Nat := ds.foldl (fun a c => 10 * a + (c.toNat - 48)) 0

/-- `0|[1-9][0-9]*` -/
def isNatTok : List Char → Bool
  | [] => false
  | [c] => isDigit c
  | c :: r => isDigit c && c != '0' && r.all isDigit

/-- `-?(0|[1-9][0-9]*)` -/
def isIntTok : List Char → Bool
  | '-' :: r => isNatTok r
  | t => isNatTok t

def intOfTok : List Char → Int
  | '-' :: r => -(natOfDigits r : Int)
  | t => (natOfDigits t : Int)

/-- the longest prefix satisfying `p`, and the rest -/
def spanP (p : Char → Bool) : List Char → List Char × List Char
  | [] => ([], [])
  | c :: r => if p c then ((spanP p r).1.cons c, (spanP p r).2) else ([], c :: r)

/-- `[0-9]*` then the rest -/
def spanDigits (s : List Char) : List Char × List Char := spanP isDigit s

/-- `-?(0|[1-9]\d*)(\.\d+)?([eE][-+]?\d+)?` with a fraction or an exponent, or one of the constants the `json` module
writes for non-finite floats -/
def isFloatTok (t : List Char) : Bool :=
  t == ['N', 'a', 'N'] || t == ['I', 'n', 'f', 'i', 'n', 'i', 't', 'y'] || t == ['-', 'I', 'n', 'f', 'i', 'n', 'i', 't', 'y'] ||
    (let u := match t with | '-' :: r => r | _ => t
     let (ip, r1) := spanDigits u
     isNatTok ip &&
       (let (hasFrac, r2) := match r1 with
          | '.' :: r => let (fp, r') := spanDigits r; (!fp.isEmpty, if fp.isEmpty then r1 else r')
          | _ => (false, r1)
        let (hasExp, r3) := match r2 with
          | e :: r =>
            if e == 'e' || e == 'E' then
              let r' := match r with | s :: q => if s == '+' || s == '-' then q else r | [] => r
              let (ep, r'') := spanDigits r'
              (!ep.isEmpty, if ep.isEmpty then r2 else r'')
            else (false, r2)
          | [] => (false, r2)
        (hasFrac || hasExp) && r3.isEmpty))

/-- a number-like token: the maximal run of number characters, classified -/
def parseNum (s : List Char) : Option (J × List Char) :=
  let (tok, rest) := spanP isNumChar s
  if isIntTok tok then some (.int (intOfTok tok), rest)
  else if isFloatTok tok then some (.flt tok, rest)
  else none

def hexVal (c : Char) : Option Nat :=
  let n := c.toNat
  if 48 ≤ n ∧ n ≤ 57 then some (n - 48)
  else if 97 ≤ n ∧ n ≤ 102 then some (n - 87)
  else if 65 ≤ n ∧ n ≤ 70 then some (n - 55)
  else none

def hex4 (a b c d : Char) : Option Nat :=
  match hexVal a, hexVal b, hexVal c, hexVal d with
  | some x, some y, some z, some w => some (x * 4096 + y * 256 + z * 16 + w)
  | _, _, _, _ => none

/-- the one-character escapes `json.decoder.BACKSLASH` knows -/
def unescape (e : Char) : Option Nat :=
  if e = '"' then some 34 else if e = '\\' then some 92 else if e = '/' then some 47
  else if e = 'b' then some 8 else if e = 'f' then some 12 else if e = 'n' then some 10
  else if e = 'r' then some 13 else if e = 't' then some 9 else none

/-- a `\uXXXX` escape: a low surrogate directly after a high surrogate (which can only have come from the escape
just before — a `Char` is never a surrogate) is joined with it, everything else stands alone (`py_scanstring` does the
same by looking ahead) -/
def pushU (m : Nat) (acc : List Nat) : List Nat :=
  match acc with
  | h :: t => if 56320 ≤ m ∧ m ≤ 57343 ∧ 55296 ≤ h ∧ h ≤ 56319 then (65536 + (h - 55296) * 1024 + (m - 56320)) :: t else m :: acc
  | [] => [m]

/-- `py_scanstring` (strict) after the opening quote; `acc` is the reversed content so far -/
def parseStr : List Char → List Nat → Option (List Nat × List Char)
  | [], _ => none
  | c :: r, acc =>
    if c = '"' then some (acc.reverse, r)
    else if c = '\\' then
      match r with
      | [] => none
      | e :: r1 =>
        if e = 'u' then
          match r1 with
          | a :: b :: c' :: d :: r2 =>
            match hex4 a b c' d with
            | none => none
            | some n => parseStr r2 (pushU n acc)
          | _ => none
        else
          match unescape e with
          | some n => parseStr r1 (n :: acc)
          | none => none
    else if c.toNat < 32 then none
    else parseStr r (c.toNat :: acc)

mutual
def parseV : Nat → List Char → Option (J × List Char)
  | 0, _ => none
  | fuel + 1, s =>
    match skipWs s with
    | [] => none
    | c :: r =>
      if c = '"' then (parseStr r []).map fun p => (.str p.1, p.2)
      else if c = '[' then
        match skipWs r with
        | [] => none
        | c2 :: r' =>
          if c2 = ']' then some (.arr .nil, r')
          else (parseElems fuel (c2 :: r')).map fun p => (.arr p.1, p.2)
      else if c = '{' then
        match skipWs r with
        | [] => none
        | c2 :: r' =>
          if c2 = '}' then some (.obj .nil, r')
          else (parseMembers fuel (c2 :: r')).map fun p => (.obj p.1, p.2)
      else parseNum (c :: r)
/- `value (, value)* ]` -/
def parseElems : Nat → List Char → Option (JL × List Char)
  | 0, _ => none
  | fuel + 1, s =>
    match parseV fuel s with
    | none => none
    | some (v, r) =>
      match skipWs r with
      | [] => none
      | c :: r' =>
        if c = ',' then (parseElems fuel r').map fun p => (.cons v p.1, p.2)
        else if c = ']' then some (.cons v .nil, r')
        else none
/- `"key" : value (, "key" : value)* }` -/
def parseMembers : Nat → List Char → Option (JO × List Char)
  | 0, _ => none
  | fuel + 1, s =>
    match skipWs s with
    | [] => none
    | q :: r =>
      if q = '"' then
        match parseStr r [] with
        | none => none
        | some (k, r1) =>
          match skipWs r1 with
          | [] => none
          | c :: r2 =>
            if c = ':' then
              match parseV fuel r2 with
              | none => none
              | some (v, r3) =>
                match skipWs r3 with
                | [] => none
                | c' :: r4 =>
                  if c' = ',' then (parseMembers fuel r4).map fun p => (.cons k v p.1, p.2)
                  else if c' = '}' then some (.cons k v .nil, r4)
                  else none
            else none
      else none
end

/-- `json.loads`: one value, then only whitespace -/
def parse (s : List Char) : Option J :=
  match parseV (s.length + 1) s with
  | some (v, r) => if (skipWs r).isEmpty then some v else none
  | none => none

/-! ## the documents the round-trip theorem is about -/

/-- a Unicode scalar value (what a Python `str` holds unless someone smuggled a lone surrogate into it) -/
def validCp (c : Nat) : Bool := decide (c < 55296) || (decide (57344 ≤ c) && decide (c < 1114112))

/-- an opaque float token: non-empty, made of number characters, a float (not an integer) for the JSON grammar -/
def floatTokOk (tok : List Char) : Bool :=
  !tok.isEmpty && tok.all isNumChar && !isIntTok tok && isFloatTok tok

mutual
def J.okB : J → Bool
  | .int _ => true
  | .flt tok => floatTokOk tok
  | .str cs => cs.all validCp
  | .arr xs => xs.okB
  | .obj kvs => kvs.okB
def JL.okB : JL → Bool
  | .nil => true
  | .cons x r => x.okB && r.okB
def JO.okB : JO → Bool
  | .nil => true
  | .cons k v r => k.all validCp && v.okB && r.okB
end

/-! ## what the encoder makes of a `to_dict()` value -/

def keyOf (k : String) : List Nat := k.toList.map Char.toNat

def scalarJ (ftok : Nat → List Char) : Scalar → Option J
  | .int n => some (.int n)
  | .flt b => some (.flt (ftok b))
  | .str cs => some (.str cs)
  | _ => none

def JL.ofList : List J → JL
  | [] => .nil
  | x :: r => .cons x (JL.ofList r)

def seqJ (ftok : Nat → List Char) : List Scalar → Option JL
  | [] => some .nil
  | x :: r =>
    match scalarJ ftok x, seqJ ftok r with
    | some j, some js => some (.cons j js)
    | _, _ => none

def pyValJ (ftok : Nat → List Char) : PyVal → Option J
  | .sc (.bytes bs) => some (.arr (JL.ofList (bs.map fun (b : Nat) => J.int (b : Int))))
  | .sc s => scalarJ ftok s
  | .seq _ xs => (seqJ ftok xs).map .arr
  | .arr _ _ _ _ => none

mutual
def toJ (ftok : Nat → List Char) : Val → Option J
  | .leaf v => pyValJ ftok v
  | .dict kvs => (toJO ftok kvs).map .obj
  | .list xs => (toJL ftok xs).map .arr
def toJO (ftok : Nat → List Char) : KVs → Option JO
  | .nil => some .nil
  | .cons k v r =>
    match toJ ftok v, toJO ftok r with
    | some j, some js => some (.cons (keyOf k) j js)
    | _, _ => none
def toJL (ftok : Nat → List Char) : Vals → Option JL
  | .nil => some .nil
  | .cons v r =>
    match toJ ftok v, toJL ftok r with
    | some j, some js => some (.cons j js)
    | _, _ => none
end

/-! ## what `from_dict` is handed after `json.loads` -/

/-- a JSON scalar as the Python value `json.loads` makes of it (`fparse`: Python's `float(token)`) -/
def scalarOfJ (fparse : List Char → Nat) : J → Scalar
  | .int n => .int n
  | .flt t => .flt (fparse t)
  | .str cs => .str cs
  | _ => .other

def JL.hasObj : JL → Bool
  | .nil => false
  | .cons (.obj _) _ => true
  | .cons _ r => r.hasObj

def JL.toScalars (fparse : List Char → Nat) : JL → List Scalar
  | .nil => []
  | .cons x r => scalarOfJ fparse x :: r.toScalars fparse

def strOfKey (k : List Nat) : String := String.ofList (k.map Char.ofNat)

/- the value tree `json.loads` returns, in the shape `from_dict` looks at it: a list with a dictionary in it is a list
of struct dictionaries, any other list is the value of one array field -/
mutual
def ofJ (fparse : List Char → Nat) : J → Val
  | .int n => .leaf (.sc (.int n))
  | .flt t => .leaf (.sc (.flt (fparse t)))
  | .str cs => .leaf (.sc (.str cs))
  | .arr xs => if xs.hasObj then .list (ofJL fparse xs) else .leaf (.seq .list (xs.toScalars fparse))
  | .obj kvs => .dict (ofJO fparse kvs)
def ofJL (fparse : List Char → Nat) : JL → Vals
  | .nil => .nil
  | .cons x r => .cons (ofJ fparse x) (ofJL fparse r)
def ofJO (fparse : List Char → Nat) : JO → KVs
  | .nil => .nil
  | .cons k v r => .cons (strOfKey k) (ofJ fparse v) (ofJO fparse r)
end

/-- `cls.from_json(text)` = `cls.from_dict(json.loads(text))` on a fresh object -/
def fromJson (fparse : List Char → Nat) (d : Desc) (text : List Char) : Option (Bytes × Option DErr) :=
  (parse text).map fun j => fromDict d (ofJ fparse j)


end Pyrtma.Json
