import Pyrtma.Model.Combined
/-!
# M9c — where a definition "comes from": `Parser.parse / parse_file / trim_root` path arithmetic (src/pyrtma/parser.py)

The only inputs of `compile()` besides the definition files are the *spelling* of the root file's path, the process
working directory and the output directory.  They reach the outputs at one place: every registry object stores
`src = trim_root(current_file) = Path(os.path.relpath(current_file, self.root_path))`, which the Python back end prints
as `type_source` and whose `parent.stem == "core_defs"` decides what the C back end leaves to `RTMA.h` (the `core`
flag of M9).  This file models that arithmetic exactly as the code performs it:

* `resolveAt cwd p` — `(cwd / p).resolve()` / `os.path.abspath(p)`: join unless `p` is absolute, then normalise `.` and
  `..` (symbolic links are not modelled);
* `Parser.parse`: `root_path = defs_path.parent.resolve()` — evaluated in the caller's working directory;
* `parse_file`: `msgdefs_path = (cwd / file).resolve()`, `os.chdir(msgdefs_path.parent)`, so while a file is handled the
  working directory is that file's directory;
* `trim_root p = os.path.relpath(p, root_path)`: `relpath` makes *both* arguments absolute with the working directory of
  that moment (`storedRoot` is what was stored in `root_path`: the code stores a resolved path; the seeded variant
  `seeded/C16c` stores the parent of the path as spelled).
-/
namespace Pyrtma.Emit

/-- one component of a path as written -/
inductive Seg where
  | up                 -- `..`
  | cur                -- `.`
  | name (s : Nat)     -- an interned file or directory name
deriving DecidableEq, Repr, Inhabited

/-- a path as written: absolute or relative, with its components -/
structure Spelled where
  abs : Bool
  segs : List Seg
deriving DecidableEq, Repr, Inhabited

/-- a normalised absolute path: the names from the root directory down -/
abbrev AbsPath := List Nat

/-- walk `segs` from the directory `at` (`..` at the root stays at the root, as POSIX does) -/
def walk : AbsPath → List Seg → AbsPath
  | d, [] => d
  | d, .up :: r => walk d.dropLast r
  | d, .cur :: r => walk d r
  | d, .name s :: r => walk (d ++ [s]) r

/-- `(cwd / p).resolve()` — also `os.path.abspath(p)` in working directory `cwd` -/
def resolveAt (cwd : AbsPath) (p : Spelled) : AbsPath := if p.abs then walk [] p.segs else walk cwd p.segs

def absSpelled (a : AbsPath) : Spelled := { abs := true, segs := a.map .name }

def Spelled.parent (p : Spelled) : Spelled := { p with segs := p.segs.dropLast }

def commonLen : AbsPath → AbsPath → Nat
  | a :: as, b :: bs => if a == b then commonLen as bs + 1 else 0
  | _, _ => 0

/-- `posixpath.relpath` on two normalised absolute paths -/
def relAbs (p start : AbsPath) : List Seg :=
  let k := commonLen p start
  List.replicate (start.length - k) .up ++ (p.drop k).map .name

/-- `os.path.relpath(p, start)` in working directory `cwd` -/
def relpath (cwd : AbsPath) (p start : Spelled) : List Seg := relAbs (resolveAt cwd p) (resolveAt cwd start)

/-- the environment of one `compile()` call -/
structure Env where
  cwd : AbsPath            -- `os.getcwd()` of the caller
  root : Spelled           -- `defs_files[0]` as given
  outDir : Spelled         -- `out_dir` as given
deriving Repr, Inhabited

/-- the root file, resolved -/
def Env.rootFile (e : Env) : AbsPath := resolveAt e.cwd e.root

/-- `self.root_path = defs_path.parent.resolve()` (what the code stores) -/
def storedRoot (e : Env) : Spelled := absSpelled (resolveAt e.cwd e.root.parent)

/-- the variant that stores `defs_path.parent` as spelled (`seeded/C16c`) -/
def storedRootUnresolved (e : Env) : Spelled := e.root.parent

/-- `src` of the objects of the file `file` (a resolved path: `current_file`), computed while the working directory is
that file's directory -/
def srcOf (stored : Spelled) (file : AbsPath) : List Seg := relpath file.dropLast (absSpelled file) stored

/-- `obj.src.parent.stem == "core_defs"` -/
def srcIsCore (coreDirName : Nat) (src : List Seg) : Bool := src.dropLast.getLast? == some (.name coreDirName)

/-- a closure on disk: every file by its resolved path with its own items, in parse order (imports first, root file
last); the shipped core files (if `import_coredefs`) with the package directory they are relative to -/
structure Disk where
  pkgDir : AbsPath
  coreFiles : List (AbsPath × List Item)
  files : List (AbsPath × List Item)
deriving Repr, Inhabited

/-- the file-by-file closure M9 elaborates, with the `core` flags and the sources the code derives -/
def Disk.fileItems (coreDirName : Nat) (stored : Spelled) (d : Disk) : List FileItems :=
  d.coreFiles.map (fun f => { core := srcIsCore coreDirName (srcOf (absSpelled d.pkgDir) f.1), items := f.2 }) ++
  d.files.map (fun f => { core := srcIsCore coreDirName (srcOf stored f.1), items := f.2 })

/-- `type_source` of every struct / message, in parse order -/
def Disk.sources (stored : Spelled) (d : Disk) : List (Name × List Seg) :=
  let one := fun (st : Spelled) (f : AbsPath × List Item) =>
    f.2.filterMap (fun it => match it with
      | .struct n _ _ => some (n, srcOf st f.1)
      | .message n _ _ _ => some (n, srcOf st f.1)
      | .signal n _ _ => some (n, srcOf st f.1)
      | .reserved n _ _ => some (n, srcOf st f.1)
      | _ => none)
  d.coreFiles.flatMap (one (absSpelled d.pkgDir)) ++ d.files.flatMap (one stored)

/-- everything one `compile()` call writes, as M9 sees it -/
structure Outputs where
  outcome : Option Err
  py : List Stmt
  c : List Stmt
  js : List Stmt
  m : List Stmt
  sources : List (Name × List Seg)
  yaml : List (Nat × List Item)
deriving Repr

/-- one run of `compile()` with a given way of storing `root_path` -/
def compileWith (stored : Env → Spelled) (T : Tables) (ap : Bool) (coreDirName : Nat) (e : Env) (d : Disk) : Outputs :=
  let fs := d.fileItems coreDirName (stored e)
  match elaborate T ap (flattenFiles fs) {} with
  | .error err => { outcome := some err, py := [], c := [], js := [], m := [], sources := [], yaml := [] }
  | .ok R => { outcome := none, py := emit T R .py, c := emit T R .c, js := emit T R .js, m := emit T R .m,
               sources := d.sources (stored e), yaml := combinedSections fs }

/-- `compile()` as the code is -/
def compileRun := compileWith storedRoot

end Pyrtma.Emit
