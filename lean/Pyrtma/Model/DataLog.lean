/-!
# M10 — the data logger's recording/writer handshake (src/pyrtma/data_logger/data_collection.py,
data_set.py)

Executable model, core Lean only.  Two threads:

* `R`, the recording thread: one *session* `start(); op₁; …; opₙ; stop()` with
  `op ∈ {update(msg), update(None), pause(), resume()}`;
* `W`, the background writer: `while not _close: if write_to_disk.wait(): for ds: ds.write();
  write_finished.set(); write_to_disk.clear()`.

The atomic steps are the *gated* operations of the harness (`harness/datalog_corr.py`): every
`Event.set / clear / is_set / wait`, every `DataSet.stage_for_write`, every `DataSet.write`, and the
beginning of every operation of `R`.  One step = that operation plus the code up to (not including) the
thread's next gated operation.  Why the ungated code in between may be treated as atomic (it touches only
thread-local data or data the thread currently owns) is argued at each program counter below; it is an
assumption of the model (Python may pre-empt between any two byte codes), not a theorem.

`Cfg.finFirst = true` is the order `write_finished.set(); write_to_disk.clear()` at the end of a writer
cycle; `false` is the order `write_to_disk.clear(); write_finished.set()` (C17-F1), kept so that the
defect can be exhibited in the model (`Props/C17.lean: old_order_loses`).
-/
namespace Pyrtma.DataLog

structure Msg where
  id : Nat          -- serial number (header.msg_count in the harness); unique per update
  ty : Nat          -- message type
deriving Repr, DecidableEq, Inhabited

/-- `DataSet.all_sub` / `DataSet.msg_types` -/
inductive Sel where
  | all
  | only (ts : List Nat)
deriving Repr, DecidableEq, Inhabited

/-- `ds.all_sub or msg.type_id in ds.msg_types` -/
def Sel.selects : Sel → Nat → Bool
  | .all, _ => true
  | .only ts, t => ts.contains t

/-- operations of the recording thread; `dt` = how far the clock advanced since the previous one -/
inductive RecOp where
  | update (dt : Nat) (m : Msg)
  | tick (dt : Nat)                 -- `update(None)`: the read timed out, only the deadlines are looked at
  | pause (dt : Nat)
  | resume (dt : Nat)
deriving Repr, DecidableEq, Inhabited

def RecOp.dt : RecOp → Nat
  | .update d _ => d | .tick d => d | .pause d => d | .resume d => d

structure Cfg where
  n : Nat                           -- number of data sets
  sel : Nat → Sel
  interval : Nat → Nat              -- `subdivide_interval` after clamping; 0 = CONTINUOUS (math.inf)
  period : Nat := 15                -- `DataCollection.WRITE_PERIOD`
  finFirst : Bool := true           -- writer ends a cycle with `write_finished.set(); write_to_disk.clear()`

/-- one data set -/
structure Ds where
  rbuf : List Msg := []
  wbuf : List Msg := []
  /-- finished (sub-divided) files, oldest first; a file is the list of batches handed to the formatter -/
  closedFiles : List (List (List Msg)) := []
  /-- batches written to the current file -/
  cur : List (List Msg) := []
  subFlag : Bool := false           -- `subdivide_flag`
  nextSub : Option Nat := none      -- `next_subdivide`; `none` = inf
  stopped : Bool := false           -- `collection_stopped`
  closed : Bool := false            -- `fd` closed by `stop()`
deriving Repr, DecidableEq, Inhabited

/-- program counter of the recording thread = the gated operation it is parked at -/
inductive RPc where
  | idle                -- `begin`: about to start the next operation (or `stop()` when none is left)
  | uIsSet              -- update: `self.write_to_disk.is_set()`
  | uStage (i : Nat)    -- trigger_write: `ds[i].stage_for_write()`
  | uClrFin             -- trigger_write: `self.write_finished.clear()`
  | uSetTD              -- trigger_write: `self.write_to_disk.set()`
  | sIsSet              -- stop: `self.write_to_disk.is_set()`
  | sWait               -- stop: `self.write_finished.wait(0.250)`
  | sClrTD              -- stop: `self.write_to_disk.clear()`
  | sClrFin             -- stop: `self.write_finished.clear()`
  | sStage (i : Nat)    -- stop: `ds[i].collection_stopped = True; ds[i].stop()` (parked at its stage_for_write)
  | done                -- `stop()` has returned
  | raised              -- `DataCollectionThreadError` out of `update` (writer thread dead)
deriving Repr, DecidableEq, Inhabited

inductive WPc where
  | wait                -- `self.write_to_disk.wait(0.5)`
  | write (i : Nat)     -- `ds[i].write()`
  | setFin              -- `self.write_finished.set()`
  | clrTD               -- `self.write_to_disk.clear()`
  | dead                -- an exception left `DataCollection.write` (write on a closed file)
deriving Repr, DecidableEq, Inhabited

inductive Tid where | R | W
deriving Repr, DecidableEq, Inhabited

structure State where
  td : Bool := false                -- write_to_disk
  fin : Bool := false               -- write_finished
  rpc : RPc := .idle
  wpc : WPc := .wait
  ops : List RecOp                  -- operations `R` has not started yet
  -- locals of `R`
  now : Nat := 0                    -- time.time() - start_time
  ref : Nat := 0                    -- ref_time - start_time
  acc : Nat := 0                    -- _elapsed_time
  paused : Bool := false
  nextWrite : Nat := 15
  el : Nat := 0                     -- the local `elapsed` of the running `update`
  warn : Nat := 0                   -- number of "Unable to write fast enough." warnings
  ds : Nat → Ds

/-- `DataCollection.start()` has run: files open, deadlines set -/
def init (c : Cfg) (ops : List RecOp) : State :=
  { ops := ops, nextWrite := c.period,
    ds := fun i => { nextSub := if c.interval i = 0 then none else some (c.interval i) } }

/-- `DataCollection.elapsed_time` while recording -/
def State.elapsed (s : State) : Nat := if s.paused then s.acc else s.acc + (s.now - s.ref)

def setDs (f : Nat → Ds) (i : Nat) (d : Ds) : Nat → Ds := fun j => if j = i then d else f j

/-- `if msg: if ds.all_sub or msg.type_id in ds.msg_types: ds.rbuf.append(msg)` -/
def Ds.append (d : Ds) (sel : Sel) : Option Msg → Ds
  | some m => if sel.selects m.ty then { d with rbuf := d.rbuf ++ [m] } else d
  | none => d

/-- `if elapsed > ds.next_subdivide: ds.next_subdivide = elapsed + interval; ds.subdivide_flag = True` -/
def Ds.arm (d : Ds) (interval el : Nat) : Ds :=
  match d.nextSub with
  | some t => if el > t then { d with nextSub := some (el + interval), subFlag := true } else d
  | none => d

/-- the body of `update`'s loop for one data set: append when selected, arm the sub-division -/
def Ds.onUpdate (d : Ds) (c : Cfg) (i : Nat) (m : Option Msg) (el : Nat) : Ds :=
  (d.append (c.sel i) m).arm (c.interval i) el

/-- does `update` find a sub-division deadline passed on data set `i`? -/
def Ds.subDue (d : Ds) (el : Nat) : Bool :=
  match d.nextSub with
  | some t => el > t
  | none => false

def anySubDue (f : Nat → Ds) (el : Nat) : Nat → Bool
  | 0 => false
  | k + 1 => (f k).subDue el || anySubDue f el k

/-- `DataSet.stage_for_write` -/
def Ds.stage (d : Ds) : Ds := { d with wbuf := d.rbuf, rbuf := [] }

/-- `formatter.write(wbuf); wbuf.clear()` -/
def Ds.flush (d : Ds) : Ds := { d with cur := d.cur ++ [d.wbuf], wbuf := [] }

/-- `if not collection_stopped and subdivide_flag: subdivide_flag = False; subdivide()` where `subdivide`
does `formatter.finalize(wbuf)` (an empty batch: `wbuf` was just cleared), closes the file and opens the
next one -/
def Ds.subdivide (d : Ds) : Ds :=
  if !d.stopped && d.subFlag then
    { d with subFlag := false, closedFiles := d.closedFiles ++ [d.cur ++ [[]]], cur := [] }
  else d

/-- `DataSet.write` on an open file -/
def Ds.write (d : Ds) : Ds := d.flush.subdivide

/-- `formatter.finalize(wbuf)` (which does not clear `wbuf`), `fd.close()` -/
def Ds.finalize (d : Ds) : Ds := { d with cur := d.cur ++ [d.wbuf], closed := true }

/-- `ds.collection_stopped = True; ds.stop(); ds.close()`: stage, finalize, close -/
def Ds.finish (d : Ds) : Ds := ({ d with stopped := true } : Ds).stage.finalize

def firstUStage (c : Cfg) : RPc := if 0 < c.n then .uStage 0 else .uClrFin
def nextUStage (c : Cfg) (i : Nat) : RPc := if i + 1 < c.n then .uStage (i + 1) else .uClrFin
def firstSStage (c : Cfg) : RPc := if 0 < c.n then .sStage 0 else .done
def nextSStage (c : Cfg) (i : Nat) : RPc := if i + 1 < c.n then .sStage (i + 1) else .done

/-- the writer's program counter after the last `ds.write()` -/
def afterWrites (c : Cfg) : WPc := if c.finFirst then .setFin else .clrTD
def firstWrite (c : Cfg) : WPc := if 0 < c.n then .write 0 else afterWrites c
def nextWrite (c : Cfg) (i : Nat) : WPc := if i + 1 < c.n then .write (i + 1) else afterWrites c

/-- one step of the recording thread -/
def stepR (c : Cfg) (s : State) : State :=
  match s.rpc with
  | .idle =>
    match s.ops with
    | [] => { s with rpc := .sIsSet }          -- stop(): logger.info, then parked at is_set
    | op :: rest =>
      let s := { s with ops := rest, now := s.now + op.dt }
      match op with
      | .pause _ => { s with acc := s.elapsed, paused := true }      -- pause(): R-local only
      | .resume _ => { s with paused := false, ref := s.now }         -- resume(): R-local only
      | .update _ m => upd s (some m)
      | .tick _ => upd s none
  | .uIsSet =>
    if s.td then { s with warn := s.warn + 1, rpc := .idle }
    else { s with nextWrite := s.el + c.period, rpc := firstUStage c }
  | .uStage i => { s with ds := setDs s.ds i (s.ds i).stage, rpc := nextUStage c i }
  | .uClrFin => { s with fin := false, rpc := .uSetTD }
  | .uSetTD => { s with td := true, rpc := .idle }
  | .sIsSet => { s with rpc := if s.td then .sWait else .sClrTD }
  | .sWait => { s with rpc := if s.fin then .sClrTD else .sWait }
  | .sClrTD => { s with td := false, rpc := .sClrFin }
  | .sClrFin => { s with fin := false, rpc := firstSStage c }
  | .sStage i => { s with ds := setDs s.ds i (s.ds i).finish, rpc := nextSStage c i }
  | .done => s
  | .raised => s
where
  /-- `update(msg)` up to its first gated operation.  Ungated code: the guard on `_paused`, the
  `write_thread.is_alive()` check, `elapsed_time`, `rbuf.append` (rbuf is only ever touched by `R`), the
  deadline bookkeeping, `subdivide_flag = True` (shared with the writer, a single attribute store) -/
  upd (s : State) (m : Option Msg) : State :=
    if s.paused then s
    else if s.wpc = .dead then { s with rpc := .raised }
    else
      let el := s.elapsed
      let due := anySubDue s.ds el c.n || decide (el > s.nextWrite)
      let s := { s with el := el, ds := fun i => if i < c.n then (s.ds i).onUpdate c i m el else s.ds i }
      if due then { s with rpc := .uIsSet } else s

/-- one step of the writer thread -/
def stepW (c : Cfg) (s : State) : State :=
  match s.wpc with
  | .wait => if s.td then { s with wpc := firstWrite c } else s
  | .write i =>
    if (s.ds i).closed then { s with wpc := .dead }      -- ValueError: I/O operation on closed file
    else { s with ds := setDs s.ds i (s.ds i).write, wpc := nextWrite c i }
  | .setFin => { s with fin := true, wpc := if c.finFirst then .clrTD else .wait }
  | .clrTD => { s with td := false, wpc := if c.finFirst then .wait else .setFin }
  | .dead => s

/-- a scheduled step; once `stop()` has returned (or `update` raised) the observation is taken and
nothing moves any more -/
def step (c : Cfg) (s : State) (t : Tid) : State :=
  if s.rpc = .done ∨ s.rpc = .raised then s
  else match t with
    | .R => stepR c s
    | .W => stepW c s

def run (c : Cfg) (ops : List RecOp) (sched : List Tid) : State :=
  sched.foldl (step c) (init c ops)

/-- `RW` repeated: the fair continuation appended by the harness when its schedule string is used up -/
def roundRobin : Nat → List Tid
  | 0 => []
  | k + 1 => .R :: .W :: roundRobin k

/-! ### Observation -/

/-- the files of a data set, oldest first, each as the sequence of messages in it -/
def Ds.files (d : Ds) : List (List Msg) := (d.closedFiles ++ [d.cur]).map List.flatten

/-- every message that reached a file of the data set, in file order -/
def Ds.written (d : Ds) : List Msg := d.files.flatten

/-- label of the gated operation a thread is parked at (the harness records the same strings) -/
def RPc.label : RPc → String
  | .idle => "begin" | .uIsSet => "td.is_set" | .uStage i => s!"stage{i}" | .uClrFin => "fin.clear"
  | .uSetTD => "td.set" | .sIsSet => "td.is_set" | .sWait => "fin.wait" | .sClrTD => "td.clear"
  | .sClrFin => "fin.clear" | .sStage i => s!"stage{i}" | .done => "finished" | .raised => "finished"

def WPc.label : WPc → String
  | .wait => "td.wait" | .write i => s!"write{i}" | .setFin => "fin.set" | .clrTD => "td.clear"
  | .dead => "finished"

/-- run with a trace of `thread:label` for every step that was actually taken (a dead writer and a
finished recorder take no steps) -/
def runTrace (c : Cfg) (ops : List RecOp) (sched : List Tid) : State × List String :=
  let r := sched.foldl (fun (p : State × List String) t =>
    let s := p.1
    if s.rpc = .done ∨ s.rpc = .raised then p
    else match t with
      | .R => (stepR c s, s!"R:{s.rpc.label}" :: p.2)
      | .W => if s.wpc = .dead then p else (stepW c s, s!"W:{s.wpc.label}" :: p.2)) (init c ops, [])
  (r.1, r.2.reverse)

end Pyrtma.DataLog
